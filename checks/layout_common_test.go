package checks

import (
	"fmt"
	"sort"
	"strings"

	openfgav1 "github.com/openfga/api/proto/openfga/v1"
	"google.golang.org/protobuf/proto"
	"pgregory.net/rapid"

	"verif/internal/ev"
	"verif/internal/g4"
	"verif/internal/gen"
)

// rapidChooser turns every layout choice into a rapid draw and records the vector of choices so
// that a failing layout can be replayed without rapid.
type rapidChooser struct {
	t   *rapid.T
	rec []int
}

func (c *rapidChooser) Intn(n int, label string) int {
	v := rapid.IntRange(0, n-1).Draw(c.t, label)
	c.rec = append(c.rec, v)
	return v
}

// vectorChooser replays a recorded vector (0 beyond its end) and records the radix of every
// choice point it meets.
type vectorChooser struct {
	digits  []int
	pos     int
	radices []int
}

func (c *vectorChooser) Intn(n int, _ string) int {
	v := 0
	if c.pos < len(c.digits) {
		v = c.digits[c.pos]
	}
	if v >= n {
		v = n - 1
	}
	c.pos++
	c.radices = append(c.radices, n)
	return v
}

type layoutInput struct {
	Model   *gen.Model   `json:"model"`
	Module  string       `json:"module,omitempty"`
	Extend  map[int]bool `json:"extend,omitempty"`
	Choices []int        `json:"choices"`
	Text    string       `json:"text,omitempty"`
	// checksum twins (gen.ChecksumTwins): After is a different, acceptable document of the same length and the same
	// CRC-32 / CRC-64 checksums as this one; it is parsed first. Suffix is the comment line that makes this document its twin.
	After  string `json:"parsed_first,omitempty"`
	Suffix string `json:"suffix,omitempty"`
}

func (in layoutInput) render() *gen.Rendered {
	r := gen.Render(in.Model, &vectorChooser{digits: in.Choices}, gen.RenderOpts{Module: in.Module, Extend: in.Extend})
	r.Text += in.Suffix
	return r
}

func repoGrammar() *g4.Grammar {
	g, err := g4.RepoGrammar(ev.Repo())
	if err != nil {
		panic("cannot parse OpenFGAParser.g4: " + err.Error())
	}
	return g
}

// expectedFromAST is the model the DSL parser must return for a rendered AST: for module files,
// types and conditions carry the module name and relations of extended types carry it too.
func expectedFromAST(m *gen.Model, module string, extend map[int]bool) *gen.Model {
	e := m.Clone()
	if module == "" {
		return e
	}
	e.Schema = ""
	for i := range e.Types {
		e.Types[i].Module = module
		if extend[i] {
			for j := range e.Types[i].Rels {
				e.Types[i].Rels[j].Module = module
			}
		}
	}
	for i := range e.Conds {
		e.Conds[i].Module = module
	}
	return e
}

func normaliseExprs(pm *openfgav1.AuthorizationModel) *openfgav1.AuthorizationModel {
	c := proto.Clone(pm).(*openfgav1.AuthorizationModel)
	for _, cd := range c.GetConditions() {
		cd.Expression = gen.NormExprLoose(cd.GetExpression())
	}
	return c
}

func sortedKeys[V any](m map[string]V) []string {
	var ks []string
	for k := range m {
		ks = append(ks, k)
	}
	sort.Strings(ks)
	return ks
}

func featureList(r *gen.Rendered) []string {
	var fs []string
	for f := range r.Features {
		fs = append(fs, "layout:"+f)
	}
	sort.Strings(fs)
	return fs
}

func modelClasses(m *gen.Model) []string {
	var cls []string
	if m.Scaled != "" {
		cls = append(cls, "model:scaled", "model:scaled:"+m.Scaled)
	}
	depth, ops, kw, condWild, multi := 0, 0, false, false, false
	for _, t := range m.Types {
		if isKeywordish(t.Name) {
			kw = true
		}
		for _, r := range t.Rels {
			if isKeywordish(r.Name) {
				kw = true
			}
			if d := r.Rw.Depth(); d > depth {
				depth = d
			}
			ops += r.Rw.CountOps()
			for _, x := range r.Restr {
				if x.Wild && x.Cond != "" {
					condWild = true
				}
			}
		}
	}
	for _, c := range m.Conds {
		if strings.Contains(c.Expr, "\n") {
			multi = true
		}
	}
	if depth >= 2 {
		cls = append(cls, "model:nesting-depth>=2")
	}
	if ops > 0 {
		cls = append(cls, "model:has-operator")
	}
	if kw {
		cls = append(cls, "model:keyword-identifier")
	}
	if condWild {
		cls = append(cls, "model:conditioned-wildcard")
	}
	if multi {
		cls = append(cls, "model:multi-line-expression")
	}
	if len(m.Conds) > 0 {
		cls = append(cls, "model:has-condition")
	}
	return cls
}

func isKeywordish(s string) bool {
	for _, k := range gen.KeywordNames {
		if s == k {
			return true
		}
	}
	return false
}

func describe(err error) string {
	if err == nil {
		return "<nil>"
	}
	s := err.Error()
	if len(s) > 400 {
		s = s[:400] + "..."
	}
	return strings.ReplaceAll(s, "\n", " ")
}

var _ = fmt.Sprintf
