package checks

// C01 — DSL -> model -> DSL -> model is the identity on every accepted DSL document, through the
// JSON string API and when the in-memory model is handed directly to the printer; the second
// rendering is byte-stable.

import (
	"fmt"
	"strings"
	"testing"

	openfgav1 "github.com/openfga/api/proto/openfga/v1"
	"github.com/openfga/language/pkg/go/transformer"
	"google.golang.org/protobuf/proto"
	"pgregory.net/rapid"

	"verif/internal/ev"
	"verif/internal/gen"
)

type c01Input struct {
	DSL    string `json:"dsl"`
	Origin string `json:"origin,omitempty"`
}

const c01Rule = "domain (i): rapid-generated DSL-expressible models (rich identifiers incl. keywords, all rewrite shapes to depth 3, conditioned wildcards/usersets, " +
	"conditions with all parameter types, multi-line expressions) rendered with rapid-drawn layout; domain (ii): rapid-drawn token/byte/line mutants and splices of the " +
	"repository corpus and of rendered documents, kept only when the parser accepts them as a model and no '#' can lie in a condition body (conservative text test); " +
	"thorough adds native fuzzing with the same filter. Oracle: both printing paths (in-memory proto and JSON string) succeed and agree; parse(print(m1)) equals m1 with " +
	"expressions compared modulo surrounding/trailing whitespace; a second print/parse turn is an exact fixed point (proto.Equal and byte-identical text). " +
	"Non-trivial = accepted document with an operator rewrite or a condition; distinct by document text."

func trimExprs(pm *openfgav1.AuthorizationModel) *openfgav1.AuthorizationModel {
	c := proto.Clone(pm).(*openfgav1.AuthorizationModel)
	for _, cd := range c.GetConditions() {
		cd.Expression = gen.NormExprTrim(cd.GetExpression())
	}
	return c
}

// c01Check: accepted reports whether d is in the domain; msg is the violation ("" = held).
func c01Check(d string) (accepted bool, msg string, m1 *openfgav1.AuthorizationModel) {
	m1, err := transformer.TransformDSLToProto(d)
	if err != nil || m1 == nil {
		return false, "", nil
	}
	if m1.GetSchemaVersion() == "" {
		// TransformDSLToProto also accepts module files ("module m ..."); the property is about documents accepted
		// as a full model, i.e. with a model/schema header, which always yields a schema version
		return false, "", nil
	}
	if rel := gen.CyclicModel(m1); rel != "" {
		return true, "the model returned by TransformDSLToProto is not a tree: the rewrite of " + rel + " contains itself", nil
	}
	snapshot := proto.Clone(m1)
	// path A: the in-memory model straight into the printer
	t1, err := transformer.TransformJSONProtoToDSL(m1)
	if err != nil {
		return true, "TransformJSONProtoToDSL(TransformDSLToProto(d)) failed: " + describe(err), m1
	}
	if !proto.Equal(snapshot, m1) {
		return true, "printing modified the model returned by the parser", m1
	}
	// path B: through the JSON string API
	js, err := transformer.TransformDSLToJSON(d)
	if err != nil {
		return true, "TransformDSLToJSON failed on a document TransformDSLToProto accepts: " + describe(err), m1
	}
	t1b, err := transformer.TransformJSONStringToDSL(js)
	if err != nil || t1b == nil {
		return true, "TransformJSONStringToDSL(TransformDSLToJSON(d)) failed: " + describe(err), m1
	}
	if *t1b != t1 {
		return true, fmt.Sprintf("the two printing paths disagree:\n--- in-memory:\n%s\n--- JSON:\n%s", t1, *t1b), m1
	}
	m2, err := transformer.TransformDSLToProto(t1)
	if err != nil {
		return true, fmt.Sprintf("the rendering does not parse: %s\n--- rendering:\n%s", describe(err), t1), m1
	}
	if !proto.Equal(trimExprs(m1), trimExprs(m2)) {
		d := gen.Diff(gen.FromProto(m1), gen.FromProto(m2), gen.DiffOpts{Expr: gen.NormExprTrim})
		return true, fmt.Sprintf("parse(print(m1)) != m1 (%s)\n--- rendering:\n%s", d, t1), m1
	}
	t2, err := transformer.TransformJSONProtoToDSL(m2)
	if err != nil {
		return true, "second rendering failed: " + describe(err), m1
	}
	m3, err := transformer.TransformDSLToProto(t2)
	if err != nil {
		return true, "second rendering does not parse: " + describe(err), m1
	}
	if !proto.Equal(m3, m2) {
		return true, fmt.Sprintf("second round trip changes the model (%s)", gen.Diff(gen.FromProto(m2), gen.FromProto(m3), gen.DiffOpts{})), m1
	}
	t3, err := transformer.TransformJSONProtoToDSL(m3)
	if err != nil {
		return true, "third rendering failed: " + describe(err), m1
	}
	if t3 != t2 {
		return true, fmt.Sprintf("rendering is not byte-stable after one round trip:\n--- t2:\n%q\n--- t3:\n%q", t2, t3), m1
	}
	return true, "", m1
}

func c01Classes(m *openfgav1.AuthorizationModel) (cls []string, nontrivial bool) {
	am := gen.FromProto(m)
	cls = modelClasses(am)
	for _, c := range cls {
		if c == "model:has-operator" || c == "model:has-condition" {
			nontrivial = true
		}
	}
	return
}

func TestC01(t *testing.T) {
	rec := ev.New("C01", c01Rule)
	defer func() {
		if !rec.Flush() {
			t.Fail()
		}
	}()
	rec.Assume("acceptance by TransformDSLToProto defines the domain; documents with a '#' at or after the first condition line are excluded from the mutant domain (counted)")
	rec.Require("origin:rendered", 0.3)
	rec.Require("domain:mutant-accepted", 0.02)
	corp := gen.LoadCorpus(ev.Repo())
	if len(corp.DSL) < 10 {
		ev.HarnessError("C01", "corpus not found under %s/tests/data", ev.Repo())
		t.Fatal("no corpus")
	}
	// boundary documents (fixed, legal, at the edges of the input space), canonical layout
	if ev.Shard()%4 == 0 {
		type bdoc struct{ name, dsl string }
		var docs []bdoc
		for _, b := range gen.BoundaryModels() {
			docs = append(docs, bdoc{"boundary: " + b.Name, gen.Render(b.Model, gen.Canonical{}, gen.RenderOpts{}).Text})
			// the same model written with one type restriction per line: short lines in, long lines out
			docs = append(docs, bdoc{"boundary/multi-line: " + b.Name, gen.Render(b.Model, gen.Forced{"restr_multiline": 4}, gen.RenderOpts{}).Text})
		}
		for _, d := range docs {
			in := c01Input{DSL: d.dsl, Origin: d.name}
			acc, msg, _ := c01Check(in.DSL)
			rec.Case(in.Origin, true, nil, "origin:boundary", map[bool]string{true: "domain:accepted", false: "domain:rejected-by-parser"}[acc])
			if !acc && msg == "" {
				msg = "a legal boundary document is rejected by TransformDSLToProto"
			}
			if msg != "" {
				if len(in.DSL) > 20000 {
					in.DSL = in.DSL[:20000] + "…"
				}
				rec.Violation(in, in.Origin+": "+msg)
				t.Fatalf("%s: %.2000s", in.Origin, msg)
			}
		}
	}
	rapid.Check(t, func(rt *rapid.T) {
		noiseCall(rt) // one case in three is preceded by an unrelated, mostly failing call (see noise_test.go)
		var in c01Input
		mode := rapid.IntRange(0, 9).Draw(rt, "mode")
		switch {
		case mode <= 4:
			m := gen.DSLModel(rt, gen.DSLOpts{Rich: true, Conditions: true, MultiLine: true, Scale: true})
			r := gen.Render(m, &rapidChooser{t: rt}, gen.RenderOpts{})
			in = c01Input{DSL: r.Text, Origin: "rendered"}
		case mode <= 7:
			base := rapid.SampledFrom(corp.DSL).Draw(rt, "corpusDoc")
			in = c01Input{DSL: gen.Mutate(rt, base, corp.DSL, 3), Origin: "corpus-mutant"}
		default:
			m := gen.DSLModel(rt, gen.DSLOpts{Rich: true, Conditions: true, MaxTypes: 3, MaxRels: 3, Scale: true})
			r := gen.Render(m, &rapidChooser{t: rt}, gen.RenderOpts{})
			in = c01Input{DSL: gen.Mutate(rt, r.Text, corp.DSL, 2), Origin: "rendered-mutant"}
		}
		if in.Origin != "rendered" && gen.HashInConditionArea(in.DSL) {
			rec.Excluded("mutant with '#' at or after a condition")
			rec.Case(in.DSL, false, nil, "origin:"+in.Origin, "domain:excluded-hash-in-condition-area")
			return
		}
		acc, msg, m1 := c01Check(in.DSL)
		cls := []string{"origin:" + in.Origin}
		nt := false
		if acc {
			cls = append(cls, "domain:accepted")
			if in.Origin != "rendered" {
				cls = append(cls, "domain:mutant-accepted")
			}
			c2, n2 := c01Classes(m1)
			cls = append(cls, c2...)
			nt = n2
		} else {
			cls = append(cls, "domain:rejected-by-parser")
			if in.Origin == "rendered" {
				// C03's business, but a rendered document that does not parse starves this check
				cls = append(cls, "domain:rendered-rejected")
			}
		}
		var sample any
		if nt {
			sample = map[string]any{"dsl": in.DSL, "origin": in.Origin}
		}
		rec.Case(in.DSL, nt, sample, cls...)
		if msg != "" {
			rec.Violation(in, msg)
			rt.Fatalf("%s\n--- input:\n%s", msg, in.DSL)
		}
	})
}

func TestReplayC01(t *testing.T) {
	for _, f := range ev.ReplayFiles("C01") {
		var in c01Input
		if _, err := ev.LoadReplay(f, &in); err != nil {
			t.Fatalf("%s: %v", f, err)
		}
		rec := ev.New("C01", c01Rule)
		if strings.HasPrefix(in.Origin, "boundary") {
			// the document is too large to be stored: regenerate it from its name
			for _, b := range gen.BoundaryModels() {
				if "boundary: "+b.Name == in.Origin {
					in.DSL = gen.Render(b.Model, gen.Canonical{}, gen.RenderOpts{}).Text
				}
				if "boundary/multi-line: "+b.Name == in.Origin {
					in.DSL = gen.Render(b.Model, gen.Forced{"restr_multiline": 4}, gen.RenderOpts{}).Text
				}
			}
		}
		if acc, msg, _ := c01Check(in.DSL); msg != "" || (!acc && strings.HasPrefix(in.Origin, "boundary")) {
			if msg == "" {
				msg = "a legal boundary document is rejected by TransformDSLToProto"
			}
			rec.Violation(c01Input{Origin: in.Origin}, msg)
			t.Errorf("%s: %.2000s", f, msg)
		}
	}
}
