package checks

// Call histories for the single-call properties. Every property of this repository is stated about one call, but
// "the result depends only on the arguments" is what makes that statement testable at all - and a pooled or
// lazily initialised object inside the library can be left in a bad state by an EARLIER call (typically one that
// failed half-way) and spoil the call under test. noiseCall performs one such earlier call, drawn by rapid, right
// before the checked call of a case: a call on some public entry point with an input that fails (or takes a rare
// path) at a drawn place. Its result is ignored (whether such calls return an error or panic is C08's business);
// what is checked is that the next, ordinary call still satisfies its property.

import (
	"encoding/base64"
	"encoding/json"
	"strings"

	"google.golang.org/protobuf/proto"

	"verif/internal/ev"

	openfgav1 "github.com/openfga/api/proto/openfga/v1"
	"github.com/openfga/language/pkg/go/graph"
	"github.com/openfga/language/pkg/go/transformer"
	"github.com/openfga/language/pkg/go/validation"
	"pgregory.net/rapid"
)

var noiseDSL = []string{
	"model\n  schema 1.1\ntype user$\n",
	"model\n  schema 1.1\ntype user\ntype doc\n  relations\n    define a: [user] or b and c\n",
	"model\n  schema 1.1\ntype user\ntype doc\n  relations\n    define a: b or [user]\n",
	"model\n  schema 1.1\ntype user\ntype doc\n  relations\n    define a: [user]\n    define a: [user]\n",
	"model\n  schema 1.1\ntype user\ntype doc\n  relations\n    define a: [user with c]\ncondition c(x: int, x: string) {\n  x > 1\n}\n",
	"model\n  schema 1.1\ntype user\ntype doc\n  relations\n    define a: [user with c]\ncondition c(x: list) {\n  x\n}\n",
	"model\n  schema 1.1\ntype user\ntype doc\n  relations\n    define a: ((([user] or (b\n",
	"model\n  schema 1.1\ntype user\nextend type user\n  relations\n    define a: [user]\n",
	"module m\nextend type doc\n  relations\n    define a: [user]\nextend type doc\n  relations\n    define b: [user]\n",
	"module\nextend type x\n",
	"model\n  schema 1.1\ntype user\ncondition c(x: int) {\n  x > 1\n}\ncondition c(y: int) {\n  y > 1\n}\n",
	"model\n  schema 1.1\nmodule m\ntype user\n",
	"type user\n",
	"",
	"model\n  schema 1.1\ntype doc\n  relations\n    define a: []\n",
	"model\n  schema 1.1\ntype doc\n  relations\n    define a: [user:*#b]\n",
	"model\n  schema 1.1\ntype café\n",
	"model\n  schema 1.1\ntype user\ntype doc\n  relations\n    define viewer: [user]@\n",
}

func noiseUserset(kind int) *openfgav1.Userset {
	this := &openfgav1.Userset{Userset: &openfgav1.Userset_This{This: &openfgav1.DirectUserset{}}}
	comp := func(r string) *openfgav1.Userset {
		return &openfgav1.Userset{Userset: &openfgav1.Userset_ComputedUserset{ComputedUserset: &openfgav1.ObjectRelation{Relation: r}}}
	}
	empty := &openfgav1.Userset{}
	union := func(k ...*openfgav1.Userset) *openfgav1.Userset {
		return &openfgav1.Userset{Userset: &openfgav1.Userset_Union{Union: &openfgav1.Usersets{Child: k}}}
	}
	inter := func(k ...*openfgav1.Userset) *openfgav1.Userset {
		return &openfgav1.Userset{Userset: &openfgav1.Userset_Intersection{Intersection: &openfgav1.Usersets{Child: k}}}
	}
	diff := func(b, s *openfgav1.Userset) *openfgav1.Userset {
		return &openfgav1.Userset{Userset: &openfgav1.Userset_Difference{Difference: &openfgav1.Difference{Base: b, Subtract: s}}}
	}
	switch kind {
	case 0:
		return union(this, empty) // fails in the middle of a union
	case 1:
		return diff(this, empty) // fails in the subtract
	case 2:
		return inter(comp("b"), union(comp("b"), empty)) // fails two levels down, not first
	case 3:
		return union(comp("b"), this) // direct assignment not first but hoistable
	case 4:
		return union(this, this) // two direct assignments
	case 5:
		return inter(comp("b"), diff(comp("b"), this)) // misplaced direct assignment
	case 6:
		return union(union(union(this, comp("b")), comp("b")), empty) // fails after a deep first operand
	default:
		return diff(diff(comp("b"), comp("b")), diff(empty, this))
	}
}

func noiseModel(rt *rapid.T) *openfgav1.AuthorizationModel {
	if rapid.Bool().Draw(rt, "noiseDegen") {
		return degenModel(rt)
	}
	pm := &openfgav1.AuthorizationModel{SchemaVersion: "1.1", TypeDefinitions: []*openfgav1.TypeDefinition{
		{Type: "user"},
		{Type: "doc", Relations: map[string]*openfgav1.Userset{
			"b": {Userset: &openfgav1.Userset_This{This: &openfgav1.DirectUserset{}}},
			"a": noiseUserset(rapid.IntRange(0, 7).Draw(rt, "noiseRewrite")),
		}, Metadata: &openfgav1.Metadata{Relations: map[string]*openfgav1.RelationMetadata{
			"a": {DirectlyRelatedUserTypes: []*openfgav1.RelationReference{{Type: "user"}, {Type: "user", Condition: "k"}}},
			"b": {DirectlyRelatedUserTypes: []*openfgav1.RelationReference{{Type: "user"}}},
		}}},
	}}
	if rapid.Bool().Draw(rt, "noiseCond") {
		// the parameter that cannot be printed sorts behind printable ones
		pm.Conditions = map[string]*openfgav1.Condition{"k": {Name: "k", Expression: "a > 1", Parameters: map[string]*openfgav1.ConditionParamTypeRef{
			"a": {TypeName: openfgav1.ConditionParamTypeRef_TYPE_NAME_INT},
			"m": {TypeName: openfgav1.ConditionParamTypeRef_TYPE_NAME_MAP, GenericTypes: []*openfgav1.ConditionParamTypeRef{{TypeName: openfgav1.ConditionParamTypeRef_TYPE_NAME_STRING}}},
			"z": {TypeName: openfgav1.ConditionParamTypeRef_TypeName(rapid.SampledFrom([]int32{9, 10}).Draw(rt, "noiseContainer"))},
		}}}
	}
	return pm
}

// noiseSpec is one earlier call, as a value: drawn by rapid, written into the replay file of a violation ("prelude")
// and re-run before the replayed check.
type noiseSpec struct {
	Kind   string   `json:"kind"`             // dsl, print, merge, wbuild, graph, modfile, validate
	Entry  int      `json:"entry,omitempty"`  // which entry point / option of the kind
	Text   string   `json:"text,omitempty"`   // document, manifest or string
	Model  string   `json:"model,omitempty"`  // protobuf model, binary encoding in base64 (nil oneof payloads come back as empty messages)
	Files  []string `json:"files,omitempty"`  // module file contents
	Schema string   `json:"schema,omitempty"` // schema version of a merge
}

func init() {
	ev.PreludeRunner = func(raw json.RawMessage) {
		var n noiseSpec
		if json.Unmarshal(raw, &n) == nil {
			n.run(nil)
		}
	}
}

func (n *noiseSpec) run(pm *openfgav1.AuthorizationModel) {
	defer func() { _ = recover() }()
	if pm == nil && n.Model != "" {
		pm = &openfgav1.AuthorizationModel{}
		b, _ := base64.StdEncoding.DecodeString(n.Model)
		_ = proto.Unmarshal(b, pm)
	}
	switch n.Kind {
	case "dsl":
		switch n.Entry {
		case 0:
			_, _ = transformer.TransformDSLToProto(n.Text)
		case 1:
			_, _, _ = transformer.TransformModularDSLToProto(n.Text)
		default:
			_, _ = transformer.TransformDSLToJSON(n.Text)
		}
	case "print":
		if n.Entry == 1 {
			_, _ = transformer.TransformJSONProtoToDSL(pm, transformer.WithIncludeSourceInformation(true))
		} else {
			_, _ = transformer.TransformJSONProtoToDSL(pm)
		}
	case "merge":
		var files []transformer.ModuleFile
		for i, c := range n.Files {
			files = append(files, transformer.ModuleFile{Name: string(rune('a'+i)) + ".fga", Contents: c})
		}
		_, _ = transformer.TransformModuleFilesToModel(files, n.Schema)
	case "wbuild":
		_, _ = graph.NewWeightedAuthorizationModelGraphBuilder().Build(pm)
	case "graph":
		if g, err := graph.NewAuthorizationModelGraph(pm); err == nil && g != nil {
			_, _ = g.Reversed()
			_ = g.GetDOT()
		}
	case "modfile":
		_, _ = transformer.TransformModFile(n.Text)
	case "validate":
		switch n.Entry {
		case 0:
			_ = validation.ValidateUser(n.Text)
		case 1:
			_ = validation.ValidateObject(n.Text)
		case 2:
			_ = validation.ValidateUserSet(n.Text)
		case 3:
			_ = validation.ValidateType(n.Text)
		default:
			_ = validation.ValidateRelation(n.Text)
		}
	}
}

// noiseCall performs, in one case out of three, one earlier call of the kind described above.
func noiseCall(rt *rapid.T) {
	ev.SetPrelude(nil)
	if rapid.IntRange(0, 2).Draw(rt, "noise") != 0 {
		return
	}
	n := &noiseSpec{}
	var pm *openfgav1.AuthorizationModel
	withModel := func() {
		pm = noiseModel(rt)
		if b, err := proto.Marshal(pm); err == nil {
			n.Model = base64.StdEncoding.EncodeToString(b)
		}
	}
	switch rapid.IntRange(0, 9).Draw(rt, "noiseKind") {
	case 0, 1:
		n.Kind, n.Text, n.Entry = "dsl", rapid.SampledFrom(noiseDSL).Draw(rt, "noiseDoc"), rapid.IntRange(0, 2).Draw(rt, "noiseEntry")
	case 2, 3, 4:
		n.Kind, n.Entry = "print", rapid.IntRange(0, 1).Draw(rt, "noiseSrc")
		withModel()
	case 5:
		n.Kind = "merge"
		n.Files = []string{"module a\ntype user\ntype doc\n  relations\n    define v: [user]\n", rapid.SampledFrom([]string{
			"module b\nextend type doc\n  relations\n    define v: [user]\n",
			"module b\ntype doc\n",
			"module b\nextend type nosuch\n  relations\n    define v: [user]\n",
			"model\n  schema 1.1\ntype x\n",
			"module b\ntype x$\n",
			"module b\r\ntype x\r\ncondition c(x: int) {\r\n  x > 1\r\n}\r\n",
		}).Draw(rt, "noiseModule")}
		if rapid.Bool().Draw(rt, "noiseCRLFFirst") {
			n.Files[0] = strings.ReplaceAll(n.Files[0], "\n", "\r\n")
		}
		n.Schema = rapid.SampledFrom([]string{"1.2", "1.1"}).Draw(rt, "noiseSchema")
	case 6:
		n.Kind = "wbuild"
		withModel()
	case 7:
		n.Kind = "graph"
		withModel()
	case 8:
		n.Kind, n.Text = "modfile", rapid.SampledFrom([]string{
			"schema: '1.2'\ncontents:\n  - core.fga\n  - ../x.fga\n  - a%2.fga\n",
			"schema: '1.2'\ncontents:\n  - core.fga\n  - b.fga\n",
			"schema: 1.2\ncontents: []\n",
			"{",
			"schema: '1.2'\ncontents:\n  - " + strings.Repeat("d/", 40) + "x.fga\n",
		}).Draw(rt, "noiseMod")
	default:
		n.Kind, n.Entry = "validate", rapid.IntRange(0, 4).Draw(rt, "noiseValidator")
		n.Text = rapid.SampledFrom([]string{"set:a#member", "id:1", "wildcard:*", "doc:1", ":a#member", "a b", strings.Repeat("x", 300)}).Draw(rt, "noiseStr")
	}
	ev.SetPrelude(n)
	n.run(pm)
}
