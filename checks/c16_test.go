package checks

// C16 — reported error positions always lie inside the input and on the offending text.
// (a) bounds: every "syntax error at line=L, column=C" of every rejected byte string;
// (b) exactness for listener-raised errors: the injected documents of C09 (c09Run with which=16);
// (c) module-merge conflicts: File and Line of every conflict error (c16Merge, modules_common_test.go).

import (
	"fmt"
	"strings"
	"testing"
	"unicode/utf8"

	"github.com/openfga/language/pkg/go/transformer"
	"pgregory.net/rapid"

	"verif/internal/ev"
	"verif/internal/gen"
)

type c16Input struct {
	DSL    string `json:"dsl"`
	Origin string `json:"origin,omitempty"`
}

const c16Rule = "(a) bounds: rapid-drawn token/byte/line mutants, splices and hostile insertions over the repository corpus (model files, module files, syntax-case documents) and " +
	"over rendered generated documents; for every rejected input every reported 'line=L, column=C' must satisfy 0 <= L < number of \\n-separated lines and 0 <= C <= rune length of " +
	"that line; thorough adds native fuzzing. (b) exactness: the injected documents of C09 whose error is raised by the listener (duplicate relation/condition/parameter, extend in a " +
	"model file, type extended twice) under rapid-drawn layouts and comment placements: some reported position must equal the source-map position of the offending (second) name. " +
	"(c) module merge: generated file sets with one injected conflict and decoys (longer name sharing the prefix declared earlier in the file, same-named relation of another type): " +
	"File must be an offending file and Line a line on which a declaration of exactly that name stands. Non-trivial = rejected input with an error preceded by a comment/blank line, " +
	"or a decoy present; distinct by document text."

// c16Bounds checks every reported position of a rejected document.
func c16Bounds(d string) (rejected bool, nErr int, msg string) {
	defer func() {
		// a panic is C08's finding, not a position error: keep this check conclusive
		if r := recover(); r != nil {
			rejected, nErr, msg = true, 0, ""
		}
	}()
	_, err := transformer.TransformDSLToProto(d)
	if err == nil {
		return false, 0, ""
	}
	lines := strings.Split(d, "\n")
	ps := parseErrPositions(err)
	for _, p := range ps {
		if p.line < 0 || p.line >= len(lines) {
			return true, len(ps), fmt.Sprintf("error reports line=%d but the input has %d lines: %s", p.line, len(lines), describe(err))
		}
		if n := utf8.RuneCountInString(lines[p.line]); p.col < 0 || p.col > n {
			return true, len(ps), fmt.Sprintf("error reports line=%d column=%d but that line has %d characters: %s", p.line, p.col, n, describe(err))
		}
	}
	// the modular entry point reports through the same listener
	if _, _, err2 := transformer.TransformModularDSLToProto(d); err2 != nil {
		for _, p := range parseErrPositions(err2) {
			if p.line < 0 || p.line >= len(lines) {
				return true, len(ps), fmt.Sprintf("(modular) error reports line=%d but the input has %d lines", p.line, len(lines))
			}
			if n := utf8.RuneCountInString(lines[p.line]); p.col < 0 || p.col > n {
				return true, len(ps), fmt.Sprintf("(modular) error reports line=%d column=%d but that line has %d characters", p.line, p.col, n)
			}
		}
	}
	return true, len(ps), ""
}

func c16DrawDoc(rt *rapid.T, corp *gen.Corpus) c16Input {
	all := append(append(append([]string{}, corp.DSL...), corp.Modules...), corp.Syntax...)
	switch rapid.IntRange(0, 5).Draw(rt, "origin") {
	case 0, 1:
		base := rapid.SampledFrom(all).Draw(rt, "doc")
		return c16Input{DSL: gen.Mutate(rt, base, all, 3), Origin: "corpus-mutant"}
	case 2:
		return c16Input{DSL: rapid.SampledFrom(corp.Syntax).Draw(rt, "syntaxDoc"), Origin: "syntax-case"}
	case 3:
		m := gen.DSLModel(rt, gen.DSLOpts{Rich: true, Conditions: true, MultiLine: true, MaxTypes: 3, MaxRels: 3, Scale: true})
		r := gen.Render(m, &rapidChooser{t: rt}, gen.RenderOpts{})
		return c16Input{DSL: gen.Mutate(rt, r.Text, all, 2), Origin: "rendered-mutant"}
	case 4:
		in, _ := c09Inject(rt)
		return c16Input{DSL: in.render().Text, Origin: "injected"}
	default:
		// unicode and comments in front of a broken tail
		head := rapid.SampledFrom([]string{"# é ü\n", "model\n  schema 1.1\n# 日本語 comment\n", "\n\n\n", "model\n  schema 1.1\ntype é\n", "  # c\n\n"}).Draw(rt, "head")
		tail := rapid.SampledFrom(gen.Hostile).Draw(rt, "tail") + rapid.SampledFrom(gen.Hostile).Draw(rt, "tail2")
		mid := rapid.SampledFrom(all).Draw(rt, "mid")
		if cut := rapid.IntRange(0, 80).Draw(rt, "cut"); cut < len(mid) {
			mid = mid[:cut]
		}
		return c16Input{DSL: head + mid + tail, Origin: "crafted"}
	}
}

func TestC16(t *testing.T) {
	rec := ev.New("C16", c16Rule)
	defer func() {
		if !rec.Flush() {
			t.Fail()
		}
	}()
	rec.Assume("positions are parsed from the stable Error() prefix 'syntax error at line=L, column=C:'", "columns are counted in characters (runes), lines are separated by \\n")
	corp := gen.LoadCorpus(ev.Repo())
	if len(corp.DSL) < 10 || len(corp.Syntax) < 10 {
		ev.HarnessError("C16", "corpus not found under %s/tests/data", ev.Repo())
		t.Fatal("no corpus")
	}
	t.Run("bounds", rapid.MakeCheck(func(rt *rapid.T) {
		noiseCall(rt) // one case in three is preceded by an unrelated, mostly failing call (see noise_test.go)
		in := c16DrawDoc(rt, corp)
		if len(in.DSL) > 0 && in.Origin == "crafted" && !utf8.ValidString(in.DSL) {
			in.DSL = strings.ToValidUTF8(in.DSL, "?")
		}
		rej, n, msg := c16Bounds(in.DSL)
		cls := []string{"bounds:origin:" + in.Origin}
		nt := false
		if rej {
			cls = append(cls, "bounds:rejected")
			// error preceded by a comment or blank line?
			if n > 0 && (strings.Contains(in.DSL, "#") || strings.Contains(in.DSL, "\n\n")) {
				nt = true
				cls = append(cls, "bounds:rejected-after-comment-or-blank")
			}
		} else {
			cls = append(cls, "bounds:accepted")
		}
		var sample any
		if nt {
			sample = map[string]any{"dsl": in.DSL, "origin": in.Origin}
		}
		rec.Case(in.DSL, nt, sample, cls...)
		if msg != "" {
			rec.Violation(in, msg)
			rt.Fatalf("%s\n%q", msg, in.DSL)
		}
	}))
	if t.Failed() {
		return
	}
	t.Run("exact", func(t *testing.T) { c09Run(t, "C16", rec, 16) })
	if t.Failed() {
		return
	}
	t.Run("merge", func(t *testing.T) { c16Merge(t, rec) })
	rec.Require("bounds:rejected", 0.15)
	rec.Require("exact-position-checked", 0.04)
}

func TestReplayC16(t *testing.T) {
	for _, f := range ev.ReplayFiles("C16") {
		rec := ev.New("C16", c16Rule)
		// three input shapes: bounds document, injected document, module file set
		var probe map[string]any
		if _, err := ev.LoadReplay(f, &probe); err != nil {
			t.Fatalf("%s: %v", f, err)
		}
		switch {
		case probe["files"] != nil:
			var in modInput
			ev.LoadReplay(f, &in)
			if msg := c16MergeCheck(in); msg != "" {
				rec.Violation(in, msg)
				t.Errorf("%s: %s", f, msg)
			}
		case probe["injection"] != nil:
			var in c09Input
			ev.LoadReplay(f, &in)
			if _, v16, _, _ := c09Check(in); v16 != "" {
				rec.Violation(in, v16)
				t.Errorf("%s: %s", f, v16)
			}
		default:
			var in c16Input
			ev.LoadReplay(f, &in)
			if _, _, msg := c16Bounds(in.DSL); msg != "" {
				rec.Violation(in, msg)
				t.Errorf("%s: %s", f, msg)
			}
		}
	}
}
