package checks

// C17 — plain model graph: faithful, reversible, stable DOT, sound path queries.

import (
	"errors"
	"fmt"
	"regexp"
	"sort"
	"strings"
	"testing"

	"github.com/openfga/language/pkg/go/graph"
	gonum "gonum.org/v1/gonum/graph"
	"gonum.org/v1/gonum/graph/multi"
	"google.golang.org/protobuf/proto"
	"pgregory.net/rapid"

	"verif/internal/ev"
	"verif/internal/gen"
	"verif/internal/ref"
)

type c17Input struct {
	Model *gen.Model `json:"model"`
	Text  string     `json:"text,omitempty"`
	// Edit: the model object that was just built is overwritten in place with this model and built again (nothing else
	// is built in between); the graph must be the graph of the new contents
	Edit *gen.Model `json:"edited_to,omitempty"`
}

const c17Rule = "rapid-generated models (graph profile with hazards and json-profile rewrite trees, <= 3 object types x <= 3 relations so that cycle enumeration stays small); " +
	"oracle: reference plain graph built from the model AST, compared through the gonum iterators as an order-free signature (labelled nodes, typed incoming edge multisets, operator " +
	"nodes expanded structurally, tupleset labels); drawing direction; Reversed() = same nodes, every line flipped, direction flipped; double reversal restores the DOT text " +
	"(10 repetitions: the order of parallel lines is map-order dependent); DOT identical over 10 builds and free of ULIDs; PathExists(a,b) == Reversed.PathExists(b,a) == reference " +
	"reachability for ALL ordered label pairs; GetNodeByLabel succeeds exactly for reference labels; pure computed cycle of >= 2 relations => compile-time flag; acyclic => no flag. " +
	"Non-trivial = model with an operator node and a TTU edge; distinct by model content."

func c17Kind(n *graph.AuthorizationModelNode) string {
	switch n.NodeType() {
	case graph.SpecificType:
		return "type"
	case graph.SpecificTypeWildcard:
		return "wild"
	case graph.SpecificTypeAndRelation:
		return "rel"
	case graph.OperatorNode:
		return n.Label()
	}
	return "?"
}

func c17EdgeKind(e *graph.AuthorizationModelEdge) string {
	switch e.EdgeType() {
	case graph.DirectEdge:
		return "direct"
	case graph.RewriteEdge:
		return "rewrite"
	case graph.TTUEdge:
		return "ttu"
	case graph.ComputedEdge:
		return "computed"
	}
	return "?"
}

// c17Signature computes the same order-free signature as ref.PGraph.Signature from a library graph.
// reversed=true reads the graph with every line flipped back.
func c17Signature(g *graph.AuthorizationModelGraph, reversed bool) (string, error) {
	type inEdge struct {
		kind, ts string
		from     int64
	}
	nodes := map[int64]*graph.AuthorizationModelNode{}
	in := map[int64][]inEdge{}
	it := g.Nodes()
	for it.Next() {
		n, ok := it.Node().(*graph.AuthorizationModelNode)
		if !ok {
			return "", fmt.Errorf("node %d is not an AuthorizationModelNode", it.Node().ID())
		}
		nodes[n.ID()] = n
	}
	eit := g.Edges()
	for eit.Next() {
		me, ok := eit.Edge().(multi.Edge)
		if !ok {
			return "", errors.New("edge is not a multi.Edge")
		}
		for me.Lines.Next() {
			l, ok := me.Lines.Line().(*graph.AuthorizationModelEdge)
			if !ok {
				return "", errors.New("line is not an AuthorizationModelEdge")
			}
			from, to := l.From().ID(), l.To().ID()
			if reversed {
				from, to = to, from
			}
			if nodes[from] == nil || nodes[to] == nil {
				return "", errors.New("line joins unknown nodes")
			}
			in[to] = append(in[to], inEdge{c17EdgeKind(l), l.TuplesetRelation(), from})
		}
	}
	depth := 0
	var sig func(id int64) string
	sig = func(id int64) string {
		n := nodes[id]
		if n.NodeType() != graph.OperatorNode {
			return n.Label()
		}
		depth++
		defer func() { depth-- }()
		if depth > 50 {
			return "<cycle of operator nodes>"
		}
		var parts []string
		for _, e := range in[id] {
			parts = append(parts, fmt.Sprintf("%s[%s]%s", e.kind, e.ts, sig(e.from)))
		}
		sort.Strings(parts)
		return n.Label() + "(" + strings.Join(parts, ",") + ")"
	}
	var lines []string
	for id, n := range nodes {
		if n.NodeType() == graph.OperatorNode {
			continue
		}
		var parts []string
		for _, e := range in[id] {
			parts = append(parts, fmt.Sprintf("%s[%s]%s", e.kind, e.ts, sig(e.from)))
		}
		sort.Strings(parts)
		lines = append(lines, fmt.Sprintf("%s:%s <= %s", c17Kind(n), n.Label(), strings.Join(parts, " ; ")))
	}
	sort.Strings(lines)
	return strings.Join(lines, "\n"), nil
}

// an operator's unique label: operator word, colon, 26 characters of Crockford base 32 (a type may be called "union"
// and have a wildcard node "union:*"; names may contain "01")
var c17ULIDLabel = regexp.MustCompile(`(union|intersection|exclusion):[0-9A-HJKMNP-TV-Z]{26}`)

func c17CountNodes(g gonum.Graph) int {
	n := 0
	it := g.Nodes()
	for it.Next() {
		n++
	}
	return n
}

func c17Check(in c17Input) string {
	m := in.Model
	pm := m.Proto()
	before := proto.Clone(pm)
	rg := ref.BuildPlain(m)
	g, err := graph.NewAuthorizationModelGraph(pm)
	if err != nil || g == nil {
		return "NewAuthorizationModelGraph failed on a well-formed model: " + describe(err)
	}
	if !proto.Equal(before, pm) {
		return "NewAuthorizationModelGraph modified the model"
	}
	// faithful
	want := rg.Signature()
	got, err := c17Signature(g, false)
	if err != nil {
		return err.Error()
	}
	if got != want {
		return fmt.Sprintf("graph differs from the rewrite: %s", firstDiffLine(want, got))
	}
	if n := c17CountNodes(g); n != len(rg.Nodes) {
		return fmt.Sprintf("graph has %d nodes, the model dictates %d", n, len(rg.Nodes))
	}
	if g.GetDrawingDirection() != graph.DrawingDirectionListObjects {
		return "a freshly built graph is not drawn from user types towards relations (DrawingDirectionListObjects)"
	}
	dot := g.GetDOT()
	if dot == "" {
		return "GetDOT returned an empty string"
	}
	// models scaled up by the generator (dozens to hundreds of nodes): fewer repetitions, a sample of the label pairs
	labels := rg.Labels()
	large := len(rg.Nodes) > 40
	reps := 10
	if large {
		reps = 3
	}
	// DOT stability over builds
	for i := 0; i < reps; i++ {
		g2, err := graph.NewAuthorizationModelGraph(m.Proto())
		if err != nil {
			return "rebuild failed: " + describe(err)
		}
		if d2 := g2.GetDOT(); d2 != dot {
			return fmt.Sprintf("DOT text differs between builds of the same model: %s", firstDiffLine(dot, d2))
		}
	}
	// reversal
	for rep := 0; rep < reps; rep++ {
		r, err := g.Reversed()
		if err != nil || r == nil {
			return "Reversed failed: " + describe(err)
		}
		if r.GetDrawingDirection() == g.GetDrawingDirection() {
			return "Reversed did not flip the drawing direction"
		}
		rs, err := c17Signature(r, true)
		if err != nil {
			return "reversed graph: " + err.Error()
		}
		if rs != want {
			return fmt.Sprintf("Reversed does not flip every edge and nothing else: %s", firstDiffLine(want, rs))
		}
		if c17CountNodes(r) != len(rg.Nodes) {
			return "Reversed changed the node set"
		}
		rr, err := r.Reversed()
		if err != nil {
			return "second Reversed failed: " + describe(err)
		}
		if rr.GetDrawingDirection() != g.GetDrawingDirection() {
			return "reversing twice does not restore the drawing direction"
		}
		if d2 := rr.GetDOT(); d2 != dot {
			return fmt.Sprintf("Reversed().Reversed().GetDOT() != GetDOT(): %s", firstDiffLine(dot, d2))
		}
		if g.GetDOT() != dot {
			return "Reversed modified the original graph"
		}
		if rep > 0 {
			continue
		}
		// path queries: all ordered label pairs
		pairStride, pairNo := 1, 0
		if n := len(labels) * len(labels); n > 2500 {
			pairStride = n/2500 + 1 // a deterministic sample of about 2500 ordered pairs
			if pairStride%len(labels) == 0 {
				pairStride++
			}
		}
		for _, a := range labels {
			for _, b := range labels {
				pairNo++
				if pairNo%pairStride != 0 {
					continue
				}
				wantP := rg.Reach(a, b)
				p1, err1 := g.PathExists(a, b)
				p2, err2 := r.PathExists(b, a)
				if err1 != nil || err2 != nil {
					return fmt.Sprintf("PathExists(%s,%s) failed on existing labels: %v / %v", a, b, err1, err2)
				}
				if p1 != wantP {
					return fmt.Sprintf("PathExists(%q,%q)=%v, reference reachability says %v", a, b, p1, wantP)
				}
				if p2 != wantP {
					return fmt.Sprintf("reversed.PathExists(%q,%q)=%v but PathExists(%q,%q)=%v in the original graph", b, a, p2, a, b, p1)
				}
			}
		}
		// label lookup
		for _, l := range labels {
			for _, gg := range []*graph.AuthorizationModelGraph{g, r} {
				n, err := gg.GetNodeByLabel(l)
				if err != nil || n == nil {
					return fmt.Sprintf("GetNodeByLabel(%q) fails for an existing node: %v", l, err)
				}
				if n.Label() != l || c17Kind(n) != rg.Nodes[l].Kind {
					return fmt.Sprintf("GetNodeByLabel(%q) returns node %q of kind %s (expected kind %s)", l, n.Label(), c17Kind(n), rg.Nodes[l].Kind)
				}
			}
		}
		for _, l := range []string{"union", "intersection", "exclusion", "", "nosuchtype", "doc#nosuchrel", "nosuch:*", "union:", "doc#", "#a", ":*"} {
			if _, ok := rg.Nodes[l]; ok {
				continue
			}
			if n, err := g.GetNodeByLabel(l); err == nil || n != nil || !errors.Is(err, graph.ErrQueryingGraph) {
				return fmt.Sprintf("GetNodeByLabel(%q) should fail with ErrQueryingGraph, got node=%v err=%v", l, n != nil, err)
			}
			if n, err := r.GetNodeByLabel(l); err == nil || n != nil || !errors.Is(err, graph.ErrQueryingGraph) {
				return fmt.Sprintf("reversed graph: GetNodeByLabel(%q) should fail with ErrQueryingGraph, got node=%v err=%v", l, n != nil, err)
			}
			if len(labels) == 0 {
				continue
			}
			if ok, err := g.PathExists(l, labels[0]); err == nil || ok {
				return fmt.Sprintf("PathExists(%q, ...) on an unknown label should fail", l)
			}
		}
	}
	if c17ULIDLabel.MatchString(dot) {
		return "DOT text contains an operator's unique (ULID) label"
	}
	// the same model OBJECT with other contents: the graph is a function of the contents, not of the object
	if in.Edit != nil {
		obj := m.Proto()
		if _, err := graph.NewAuthorizationModelGraph(obj); err != nil {
			return "rebuild failed: " + describe(err)
		}
		proto.Reset(obj)
		proto.Merge(obj, in.Edit.Proto())
		g2, err := graph.NewAuthorizationModelGraph(obj)
		if err != nil || g2 == nil {
			return "NewAuthorizationModelGraph failed on a model object that was edited in place: " + describe(err)
		}
		want2 := ref.BuildPlain(in.Edit).Signature()
		got2, err := c17Signature(g2, false)
		if err != nil {
			return err.Error()
		}
		if got2 != want2 {
			return fmt.Sprintf("a model object edited in place and built again gives a graph that differs from its new contents: %s", firstDiffLine(want2, got2))
		}
	}
	// cycles (GetCycles enumerates every elementary cycle, which is exponential: asked only when a budgeted enumeration
	// on the reference graph finishes)
	if large && !rg.CyclesEnumerable(200000) {
		return ""
	}
	flags := fmt.Sprintf("%+v", g.GetCycles())
	if rg.HasPureComputedCycle() && !strings.Contains(flags, "hasCyclesAtCompileTime:true") {
		return "two or more relations form a cycle of pure computed usersets but GetCycles reports " + flags
	}
	if !rg.HasCycle() && flags != "{hasCyclesAtCompileTime:false canHaveCyclesAtRuntime:false}" {
		return "acyclic model but GetCycles reports " + flags
	}
	return ""
}

func c17Draw(rt *rapid.T) *gen.Model {
	if rapid.IntRange(0, 2).Draw(rt, "profile") == 0 {
		// transformer-style names and arbitrary JSON trees (references mostly dangling or intra-type)
		m := gen.DSLModel(rt, gen.DSLOpts{JSONOnly: true, RestrNoThis: true, MaxTypes: 3, MaxRels: 3, MaxDepth: 2})
		// make tuplesets meaningful sometimes: restrictions on every relation that is used as a tupleset
		return m
	}
	m := gen.GraphModel(rt, gen.GraphOpts{MultiThis: true, DupRestr: true, Hazards: true, CycleBoost: rapid.Bool().Draw(rt, "cb"), SmallModels: true, Names: true, Depth3: true, Scale: true, SparseMeta: true})
	if rapid.IntRange(0, 7).Draw(rt, "plantCycle") == 0 {
		// plant a cycle of pure computed usersets over k >= 2 relations of one type
		for ti := range m.Types {
			if n := len(m.Types[ti].Rels); n >= 3 { // rels[0] is the tupleset relation
				k := rapid.IntRange(2, n-1).Draw(rt, "cycleLen")
				for i := 0; i < k; i++ {
					r := &m.Types[ti].Rels[1+i]
					r.Rw = &gen.Rewrite{Kind: gen.Computed, Rel: m.Types[ti].Rels[1+(i+1)%k].Name}
					r.Restr = nil
				}
				break
			}
		}
	}
	return m
}

func TestC17(t *testing.T) {
	rec := ev.New("C17", c17Rule)
	defer func() {
		if !rec.Flush() {
			t.Fail()
		}
	}()
	rec.Assume("the gonum multigraph keeps no operand order, so structure is compared as multisets", "cycle flags are read with fmt %+v (no accessor exists)")
	rec.Require("model:operator+ttu", 0.15)
	rec.Require("model:parallel-lines", 0.03)
	rec.Require("model:pure-computed-cycle", 0.01)
	rec.Require("model:acyclic", 0.10)
	// bounded exhaustive part: the small universe of the weighted-graph checks (wgSmallModel, 40 000 models);
	// quick: every 32nd model, thorough: all of them over the shards
	{
		defs := smallDefs()
		total := len(defs) * len(defs)
		stride := 32
		if ev.Thorough() {
			stride = 1
		}
		var n int64
		for idx := ev.Shard() + int(ev.Seed()%int64(stride))*ev.Shards(); idx < total; idx += ev.Shards() * stride {
			m := wgSmallModel(defs, idx)
			n++
			in := c17Input{Model: m}
			if msg := c17Check(in); msg != "" {
				in.Text = m.String()
				rec.Violation(in, msg)
				t.Fatalf("small universe model #%d: %s\n%s", idx, msg, m.String())
			}
		}
		rec.Bulk(n, n, map[string]int64{"small-universe:models": n})
		rec.Note("small universe: %d of %d models (stride %d)", n, total, stride)
	}
	// second bounded universe: nested operators of one kind (twins, cousins, mixed operand counts; wgNestedModel):
	// every occurrence of an operator is a node of its own in the plain graph too.
	// quick: every 64th model, thorough: every 4th.
	{
		total := wgTwinCount + wgCousinCount + wgMixedCount
		stride := 64
		if ev.Thorough() {
			stride = 4
		}
		var n int64
		for idx := ev.Shard() + int(ev.Seed()%int64(stride))*ev.Shards(); idx < total; idx += ev.Shards() * stride {
			m := wgNestedModel(idx)
			n++
			in := c17Input{Model: m}
			if msg := c17Check(in); msg != "" {
				in.Text = m.String()
				rec.Violation(in, msg)
				t.Fatalf("nested-operator universe model #%d: %s\n%s", idx, msg, m.String())
			}
		}
		rec.Bulk(n, n, map[string]int64{"nested-universe:models": n})
		rec.Note("nested-operator universe: %d of %d models (stride %d)", n, total, stride)
	}
	rapid.Check(t, func(rt *rapid.T) {
		noiseCall(rt) // one case in three is preceded by an unrelated, mostly failing call (see noise_test.go)
		m := c17Draw(rt)
		rg := ref.BuildPlain(m)
		hasOp, hasTTU := false, false
		for _, n := range rg.Nodes {
			if n.IsOp() {
				hasOp = true
			}
			for _, e := range n.Out {
				if e.Kind == "ttu" {
					hasTTU = true
				}
			}
		}
		var cls []string
		nt := hasOp && hasTTU
		if nt {
			cls = append(cls, "model:operator+ttu")
		}
		if rg.ParallelLines() {
			cls = append(cls, "model:parallel-lines")
		}
		if rg.HasPureComputedCycle() {
			cls = append(cls, "model:pure-computed-cycle")
		}
		if !rg.HasCycle() {
			cls = append(cls, "model:acyclic")
		}
		rec.Class("label-pairs-queried", int64(len(rg.Labels())*len(rg.Labels())))
		var sample any
		if nt {
			sample = map[string]any{"model": m.String(), "nodes": len(rg.Nodes)}
		}
		in := c17Input{Model: m}
		switch rapid.IntRange(0, 7).Draw(rt, "editInPlace") {
		case 0:
			in.Edit = c17Draw(rt) // another model over the same pool of names
			cls = append(cls, "history:object-edited-in-place")
		case 1:
			// the same model without one of its relations / with one more type and parent
			e := m.Clone()
			var cands []int
			for ti := range e.Types {
				if len(e.Types[ti].Rels) > 1 {
					cands = append(cands, ti)
				}
			}
			if len(cands) > 0 {
				ti := cands[rapid.IntRange(0, len(cands)-1).Draw(rt, "editType")]
				ri := rapid.IntRange(1, len(e.Types[ti].Rels)-1).Draw(rt, "editRel")
				if rapid.Bool().Draw(rt, "editDrop") {
					e.Types[ti].Rels = append(e.Types[ti].Rels[:ri:ri], e.Types[ti].Rels[ri+1:]...)
				} else {
					nt := gen.TypeDef{Name: "zzedit"}
					for _, r := range e.Types[ti].Rels {
						nt.Rels = append(nt.Rels, gen.Relation{Name: r.Name, Rw: &gen.Rewrite{Kind: gen.This}, Restr: []gen.Restriction{{Type: e.Types[0].Name}}})
					}
					e.Types = append(e.Types, nt)
					e.Types[ti].Rels[0].Restr = append(e.Types[ti].Rels[0].Restr, gen.Restriction{Type: "zzedit"})
					if e.Types[ti].Rels[0].Rw.CountThis() == 0 {
						e.Types[ti].Rels[0].Rw = &gen.Rewrite{Kind: gen.This}
					}
				}
				in.Edit = e
				cls = append(cls, "history:object-edited-in-place")
			}
		}
		rec.Case(m, nt, sample, cls...)
		if msg := c17Check(in); msg != "" {
			in.Text = m.String()
			rec.Violation(in, msg)
			rt.Fatalf("%s\n%s", msg, m.String())
		}
	})
}

func TestReplayC17(t *testing.T) {
	for _, f := range ev.ReplayFiles("C17") {
		var in c17Input
		if _, err := ev.LoadReplay(f, &in); err != nil {
			t.Fatalf("%s: %v", f, err)
		}
		rec := ev.New("C17", c17Rule)
		for rep := 0; rep < 5; rep++ {
			if msg := c17Check(in); msg != "" {
				rec.Violation(in, msg)
				t.Errorf("%s: %s", f, msg)
				break
			}
		}
	}
}
