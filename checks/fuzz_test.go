package checks

// Native (coverage-guided) fuzz targets, thorough tier only. Each target carries its semantic
// oracle; crashers are reported through replay files (the driver reads the VERIF-FAIL marker in
// the failure message). Seeds: the repository corpus plus hostile constants.

import (
	"strings"
	"testing"

	"verif/internal/ev"
	"verif/internal/gen"
)

func fuzzSeeds(f *testing.F, docs ...[]string) {
	for _, d := range docs {
		for _, s := range d {
			if len(s) < 4000 {
				f.Add(s)
			}
		}
	}
	for _, h := range gen.Hostile {
		f.Add("model\n  schema 1.1\ntype user\n" + h)
		f.Add(h + h + h)
	}
}

// neutraliseT5 keeps the campaign away from the recorded lexer finding (it would only report
// slowness, and go's fuzzer treats a slow input as a hang).
func neutraliseT5(s string) string {
	if strings.Count(s, "\f") > 4 {
		s = strings.ReplaceAll(s, "\f", " ")
	}
	if strings.Contains(s, "\r\n\r\n\r\n\r\n") || strings.Contains(s, "\n\r\n\r\n\r\n\r") {
		s = strings.ReplaceAll(s, "\r", "")
	}
	if len(s) > 8000 {
		s = s[:8000]
	}
	return s
}

func fuzzFail(t *testing.T, prop string, input any, msg string) {
	rec := ev.New(prop, "native fuzzing")
	path := rec.Violation(input, msg)
	t.Fatalf("VERIF-FAIL property=%s replay=%s what=%s", prop, path, strings.ReplaceAll(msg, "\n", " "))
}

func FuzzC01(f *testing.F) {
	corp := gen.LoadCorpus(ev.Repo())
	fuzzSeeds(f, corp.DSL)
	f.Fuzz(func(t *testing.T, d string) {
		d = neutraliseT5(d)
		if gen.HashInConditionArea(d) {
			return
		}
		if _, msg, _ := c01Check(d); msg != "" {
			fuzzFail(t, "C01", c01Input{DSL: d, Origin: "native-fuzz"}, msg)
		}
	})
}

func FuzzC08DSL(f *testing.F) {
	corp := gen.LoadCorpus(ev.Repo())
	fuzzSeeds(f, corp.DSL, corp.Modules, corp.Syntax)
	f.Fuzz(func(t *testing.T, d string) {
		d = neutraliseT5(d)
		if msg := c08DSL(d); msg != "" {
			fuzzFail(t, "C08", c08Input{Kind: "dsl", Text: d}, msg)
		}
	})
}

func FuzzC08JSON(f *testing.F) {
	corp := gen.LoadCorpus(ev.Repo())
	fuzzSeeds(f, corp.JSON)
	f.Add(`{"schema_version":"1.1","type_definitions":[{"type":"doc","relations":{"a":{"difference":{"base":{"union":{}},"subtract":{"this":{}}}}},"metadata":{"relations":{"a":{"directly_related_user_types":[{"type":"user","relation":""}]}}}}],"conditions":{"c":{"name":"c","parameters":{"x":{"type_name":"TYPE_NAME_LIST"}}}}}`)
	f.Fuzz(func(t *testing.T, d string) {
		if len(d) > 8000 {
			return
		}
		if msg := c08JSON(d); msg != "" {
			fuzzFail(t, "C08", c08Input{Kind: "json", Text: d}, msg)
		}
	})
}

func FuzzC08Mod(f *testing.F) {
	corp := gen.LoadCorpus(ev.Repo())
	fuzzSeeds(f, corp.ModYAML)
	f.Add("schema: '1.2'\ncontents:\n  - a.fga\n  - &x 'b%2F..%5Cc.fga'\n  - *x\n")
	f.Fuzz(func(t *testing.T, d string) {
		if len(d) > 4000 {
			return
		}
		if msg := c08ModFile(d); msg != "" {
			fuzzFail(t, "C08", c08Input{Kind: "modfile", Text: d}, msg)
		}
	})
}

func FuzzC08Module(f *testing.F) {
	corp := gen.LoadCorpus(ev.Repo())
	for i, m := range corp.Modules {
		f.Add(m, corp.Modules[(i+1)%len(corp.Modules)])
	}
	f.Add("module core\ntype user\ntype doc\n  relations\n    define viewer: [user]\nextend type doc\n  relations\n    define editor: [user]\n", "model\n  schema 1.1\ntype x\ncondition c(x: int) {\n  x > 1\n}\n")
	f.Add("module\nextend type x\n", "module a\nextend type x\n  relations\n    define r: [user]\n")
	f.Fuzz(func(t *testing.T, a, b string) {
		a, b = neutraliseT5(a), neutraliseT5(b)
		if msg := c08Merge([]string{a, b}); msg != "" {
			fuzzFail(t, "C08", c08Input{Kind: "merge", More: []string{a, b}}, msg)
		}
	})
}

func FuzzC16(f *testing.F) {
	corp := gen.LoadCorpus(ev.Repo())
	fuzzSeeds(f, corp.DSL, corp.Modules, corp.Syntax)
	f.Fuzz(func(t *testing.T, d string) {
		d = neutraliseT5(d)
		if _, _, msg := c16Bounds(d); msg != "" {
			fuzzFail(t, "C16", c16Input{DSL: d, Origin: "native-fuzz"}, msg)
		}
	})
}
