package checks

// C06 — the weighted graph is a deterministic function of the model: same verdict, weights and
// wildcard sets across repeated builds (map iteration), across every DFS start order (hook),
// across permutations of type_definitions and under concurrent builds; reordering union /
// intersection operands changes no relation's weights. Metamorphic: no reference weights needed
// (the reference is only consulted to recognise the exact footprint of the recorded finding W2).

import (
	"fmt"
	"sort"
	"strings"
	"sync"
	"testing"

	"github.com/openfga/language/pkg/go/graph"
	"pgregory.net/rapid"

	"verif/internal/ev"
	"verif/internal/gen"
	"verif/internal/ref"
)

type c06Input struct {
	Model    *gen.Model `json:"model"`
	Prior    *gen.Model `json:"prior_model,omitempty"` // built first with the same builder value (history)
	Orders   [][]string `json:"orders,omitempty"`
	TypePerm []int      `json:"type_perm,omitempty"`
	Permuted *gen.Model `json:"operand_permuted_model,omitempty"`
	Text     string     `json:"text,omitempty"`
}

const c06Rule = "rapid-generated models of the graph profile; per model: real Build x8 and hook-enumerated DFS start orders (all permutations for <= 5 non-terminal " +
	"nodes, else 2+16 sampled) must give one verdict and one canonical ULID-free dump (node/edge weights, wildcard sets, kinds, conditions); a rapid-drawn permutation of " +
	"type_definitions must give the same verdict and dump; a rapid-drawn permutation of the operands of every union/intersection must leave every relation's weights " +
	"unchanged; a builder value that built another rapid-drawn model before must give the same result as a fresh builder; 8 goroutines building the same shared model " +
	"(half of them through one shared builder value) and 4 other models concurrently must reproduce the sequential dumps (binary built with -race). " +
	"Non-trivial = model with a tuple cycle or >= 2 operators; distinct by model content. Bounded exhaustive part: a small universe (user; doc with p:[doc] and relations a, b each defined by one of 8 leaf forms or a binary operator over two of them: 200 x 200 = 40 000 models) under ALL DFS start orders; quick enumerates every 16th model, thorough the complete universe split over the 16 processes."

// c06RelWeights: verdict plus the weights of relation nodes only.
func c06RelWeights(m *gen.Model) (string, error) {
	wg, err := graph.NewWeightedAuthorizationModelGraphBuilder().Build(m.Proto())
	if err != nil {
		return "ERR", err
	}
	var lines []string
	for id, n := range wg.GetNodes() {
		if n.GetNodeType() == graph.SpecificTypeAndRelation {
			lines = append(lines, id+"="+ref.FmtW(n.GetWeights()))
		}
	}
	sort.Strings(lines)
	return strings.Join(lines, "\n"), nil
}

func c06Dump(m *gen.Model) string {
	wg, err := graph.NewWeightedAuthorizationModelGraphBuilder().Build(m.Proto())
	if err != nil {
		return "ERR" // the property fixes the verdict, not which of the three error kinds is reported
	}
	return wgDump(wg)
}

func permuteOperands(t *rapid.T, r *gen.Rewrite) *gen.Rewrite {
	c := &gen.Rewrite{Kind: r.Kind, Rel: r.Rel, Tupleset: r.Tupleset}
	for _, k := range r.Kids {
		c.Kids = append(c.Kids, permuteOperands(t, k))
	}
	if (r.Kind == gen.Union || r.Kind == gen.Intersection) && len(c.Kids) > 1 {
		c.Kids = rapid.Permutation(c.Kids).Draw(t, "operands")
	}
	return c
}

func knownHas(res *wgResult, part string) bool {
	for _, f := range res.Findings {
		if f.Known != "" && strings.Contains(f.Known, part) {
			return true
		}
	}
	return false
}

func unexplained(res *wgResult) *wgFinding {
	for i, f := range res.Findings {
		if f.Known == "" && (f.Aspect == "weights" || f.Aspect == "verdict") {
			return &res.Findings[i]
		}
	}
	return nil
}

// c06Check returns the violation ("" = held) and the ids of known findings that explained a
// difference.
func c06Check(in c06Input, concurrent bool) (string, []string, *wgResult) {
	var known []string
	base := wgEvaluate(wgInput{Model: in.Model, Orders: in.Orders}, wgOpts{RealBuilds: 8})
	for _, f := range base.Findings {
		if f.Aspect == "determinism" || f.Aspect == "panic" {
			return f.What, nil, base
		}
	}
	baseDump := c06Dump(in.Model)
	// (b) permutation of type definitions
	if len(in.TypePerm) == len(in.Model.Types) {
		pm := in.Model.Clone()
		for i, j := range in.TypePerm {
			pm.Types[i] = in.Model.Clone().Types[j]
		}
		for k := 0; k < 2; k++ {
			if d := c06Dump(pm); d != baseDump {
				return fmt.Sprintf("permuting type_definitions %v changes the result: %s", in.TypePerm, firstDiffLine(baseDump, d)), nil, base
			}
		}
	}
	// (c) permutation of commutative operands
	if in.Permuted != nil {
		w0, _ := c06RelWeights(in.Model)
		w1, _ := c06RelWeights(in.Permuted)
		if w0 != w1 {
			// The only listed explanation: the full as-implemented reference (edge-as-operand + restart-on-empty,
			// i.e. W1 and W2 together) predicts the library's result exactly for BOTH operand orders, and the W2
			// trigger is present in one of them. Anything else is a violation.
			okBase, w2Base := wgAsImplementedMatches(in.Model)
			okPerm, w2Perm := wgAsImplementedMatches(in.Permuted)
			explained := ev.IsKnown("C06", "W2") && ev.IsKnown("C06", "W1") && okBase && okPerm && (w2Base || w2Perm)
			if !explained {
				return fmt.Sprintf("reordering union/intersection operands changes relation weights: %s", firstDiffLine(w0, w1)), nil, base
			}
			known = append(known, "W2")
		}
	}
	// (b2) one builder value reused after another model: the result must not depend on the history
	if in.Prior != nil {
		b := graph.NewWeightedAuthorizationModelGraphBuilder()
		_, _ = b.Build(in.Prior.Proto())
		for k := 0; k < 2; k++ {
			wg, err := b.Build(in.Model.Proto())
			d := "ERR"
			if err == nil {
				d = wgDump(wg)
			}
			if d != baseDump {
				return fmt.Sprintf("a builder that built another model before gives a different result than a fresh builder: %s", firstDiffLine(baseDump, d)), nil, base
			}
		}
	}
	// (d) concurrent builds
	if concurrent {
		others := []*gen.Model{in.Model}
		if in.Permuted != nil {
			others = append(others, in.Permuted)
		}
		want := map[int]string{}
		for i, o := range others {
			want[i] = c06Dump(o)
		}
		shared := in.Model.Proto()
		sharedBuilder := graph.NewWeightedAuthorizationModelGraphBuilder()
		var wgp sync.WaitGroup
		errs := make(chan string, 32)
		for g := 0; g < 8; g++ {
			wgp.Add(1)
			go func(g int) {
				defer wgp.Done()
				for it := 0; it < 3; it++ {
					b := sharedBuilder // half of the goroutines share one builder value, the others use fresh ones
					if g%2 == 1 {
						b = graph.NewWeightedAuthorizationModelGraphBuilder()
					}
					wg, err := b.Build(shared)
					d := ""
					if err != nil {
						d = "ERR"
					} else {
						d = wgDump(wg)
					}
					if d != baseDump {
						errs <- fmt.Sprintf("concurrent build of the shared model differs from the sequential one: %s", firstDiffLine(baseDump, d))
						return
					}
				}
			}(g)
		}
		for g := 0; g < 4; g++ {
			wgp.Add(1)
			go func(g int) {
				defer wgp.Done()
				i := g % len(others)
				d := "ERR"
				if wg, err := sharedBuilder.Build(others[i].Proto()); err == nil {
					d = wgDump(wg)
				}
				if d != want[i] {
					errs <- fmt.Sprintf("concurrent build of another model differs from the sequential one: %s", firstDiffLine(want[i], d))
				}
			}(g)
		}
		wgp.Wait()
		close(errs)
		for e := range errs {
			return e, nil, base
		}
	}
	return "", known, base
}

func TestC06(t *testing.T) {
	rec := ev.New("C06", c06Rule)
	defer func() {
		if !rec.Flush() {
			t.Fail()
		}
	}()
	rec.Assume("the canonical dump names operator nodes by their path from the relation node, so ULIDs never enter the comparison",
		"concurrency is sampled under the Go race detector with real scheduling; the scheduler is not controlled")
	if !wgHooks {
		rec.Note("hooks disabled: DFS start orders were only sampled through map iteration")
	}
	rec.Require("model:has-cycle", 0.15)
	rec.Require("lib:accepted", 0.10)
	// bounded exhaustive part: the small universe (wgSmallModel) under ALL depth-first start orders must give
	// one verdict and one dump per model. quick: every 64th model; thorough: every 2nd, over the shards.
	{
		defs := smallDefs()
		total := len(defs) * len(defs)
		stride := 64 // the binary is race-instrumented: a smaller sample than in C04/C05, which enumerate the same universe
		if ev.Thorough() {
			stride = 2
		}
		var n, orders int64
		for idx := ev.Shard() + int(ev.Seed()%int64(stride))*ev.Shards(); idx < total; idx += ev.Shards() * stride {
			m := wgSmallModel(defs, idx)
			in := wgInput{Model: m}
			if g0 := ref.Build(m); g0.Err == "" {
				in.Orders = permutations(wgNonTerminal(g0), 1000)
			}
			res := wgEvaluate(in, wgOpts{RealBuilds: 3})
			n++
			orders += int64(res.Orders)
			for _, f := range res.Findings {
				if f.Aspect == "determinism" {
					cin := c06Input{Model: m, Orders: in.Orders, Text: m.String()}
					rec.Violation(cin, f.What)
					t.Fatalf("small universe model #%d: %s\n%s", idx, f.What, m.String())
				}
			}
		}
		rec.Bulk(n, n, map[string]int64{"small-universe:models": n, "small-universe:ordered-builds": orders})
		rec.Note("small universe: %d of %d models (stride %d) under all DFS start orders (%d ordered builds)", n, total, stride, orders)
	}
	// the name-pair / chain / ring family of the weighted-graph checks: one verdict and one dump per model over 8 real
	// builds and the sorted, reversed and rotated start orders
	if ev.Shard() == 0 {
		var n int64
		for i, m := range wgNamePairModels() {
			in := wgInput{Model: m}
			if g0 := ref.Build(m); g0.Err == "" {
				ids := wgNonTerminal(g0)
				rev := append([]string{}, ids...)
				for a, b := 0, len(rev)-1; a < b; a, b = a+1, b-1 {
					rev[a], rev[b] = rev[b], rev[a]
				}
				in.Orders = [][]string{ids, rev}
				if len(ids) <= 4 {
					in.Orders = permutations(ids, 100)
				}
			}
			res := wgEvaluate(in, wgOpts{RealBuilds: 8})
			n++
			for _, f := range res.Findings {
				if f.Aspect == "determinism" || f.Aspect == "panic" {
					cin := c06Input{Model: m, Orders: in.Orders, Text: m.String()}
					rec.Violation(cin, f.What)
					t.Fatalf("name-pair / chain / ring family model #%d: %s", i, f.What)
				}
			}
		}
		rec.Bulk(n, n, map[string]int64{"name-pair-family:models": n})
	}
	// second bounded part: operators of ONE kind nested three levels deep. Every way of bracketing four operands of a
	// union / an intersection (the five binary tree shapes), and for each shape every way of swapping the two operands
	// of its three operators: within one shape all eight variants are reorderings of operands, so every relation keeps
	// its weights (the random generator reaches this shape only at some seeds; a seeded change that made nested
	// operators of one kind share a node was detected at one seed and missed at another).
	if ev.Shard() == 0 {
		leafDefs := map[string][]gen.Restriction{"r1": {{Type: "user"}}, "r2": {{Type: "user"}, {Type: "emp"}}, "r3": {{Type: "user", Wild: true}}, "r4": {{Type: "user"}, {Type: "doc", Rel: "r1"}}}
		leaf := func(n string) *gen.Rewrite { return &gen.Rewrite{Kind: gen.Computed, Rel: n} }
		var n int64
		for _, kind := range []string{gen.Union, gen.Intersection} {
			op := func(a, b *gen.Rewrite, swap bool) *gen.Rewrite {
				if swap {
					a, b = b, a
				}
				return &gen.Rewrite{Kind: kind, Kids: []*gen.Rewrite{a, b}}
			}
			shapes := []func(s [3]bool) *gen.Rewrite{
				func(s [3]bool) *gen.Rewrite {
					return op(op(op(leaf("r1"), leaf("r2"), s[0]), leaf("r3"), s[1]), leaf("r4"), s[2])
				},
				func(s [3]bool) *gen.Rewrite {
					return op(op(leaf("r1"), op(leaf("r2"), leaf("r3"), s[0]), s[1]), leaf("r4"), s[2])
				},
				func(s [3]bool) *gen.Rewrite {
					return op(op(leaf("r1"), leaf("r2"), s[0]), op(leaf("r3"), leaf("r4"), s[1]), s[2])
				},
				func(s [3]bool) *gen.Rewrite {
					return op(leaf("r1"), op(op(leaf("r2"), leaf("r3"), s[0]), leaf("r4"), s[1]), s[2])
				},
				func(s [3]bool) *gen.Rewrite {
					return op(leaf("r1"), op(leaf("r2"), op(leaf("r3"), leaf("r4"), s[0]), s[1]), s[2])
				},
			}
			build := func(rw *gen.Rewrite) *gen.Model {
				td := gen.TypeDef{Name: "doc"}
				for _, ln := range []string{"r1", "r2", "r3", "r4"} {
					td.Rels = append(td.Rels, gen.Relation{Name: ln, Rw: &gen.Rewrite{Kind: gen.This}, Restr: leafDefs[ln]})
				}
				td.Rels = append(td.Rels, gen.Relation{Name: "x", Rw: rw})
				return &gen.Model{Schema: "1.1", Types: []gen.TypeDef{{Name: "user"}, {Name: "emp"}, td}}
			}
			for si, shape := range shapes {
				base := build(shape([3]bool{}))
				for mask := 1; mask < 8; mask++ {
					in := c06Input{Model: base, Permuted: build(shape([3]bool{mask&1 != 0, mask&2 != 0, mask&4 != 0}))}
					n++
					if msg, _, _ := c06Check(in, false); msg != "" {
						in.Text = base.String()
						rec.Violation(in, fmt.Sprintf("nested %s, bracketing #%d, operand swaps %03b: %s", kind, si, mask, msg))
						t.Fatalf("nested %s, bracketing #%d, operand swaps %03b: %s\n%s\n--- permuted:\n%s", kind, si, mask, msg, base.String(), in.Permuted.String())
					}
				}
			}
		}
		rec.Bulk(n, n, map[string]int64{"nested-one-kind:operand-swaps": n})
	}
	rapid.Check(t, func(rt *rapid.T) {
		noiseCall(rt) // one case in three is preceded by an unrelated, mostly failing call (see noise_test.go)
		m := gen.GraphModel(rt, gen.GraphOpts{MultiThis: true, DupRestr: true, Interlock: true, Names: true, Deep: true, Depth3: true, SingleChild: true, NoRestr: true, Scale: true, SparseMeta: true, Hazards: rapid.IntRange(0, 7).Draw(rt, "hz") == 0, CycleBoost: rapid.IntRange(0, 4).Draw(rt, "cb") == 0})
		in := c06Input{Model: m}
		g0 := ref.Build(m)
		if g0.Err == "" {
			in.Orders = wgDrawOrders(rt, g0, 5, 16)
		}
		idx := make([]int, len(m.Types))
		for i := range idx {
			idx[i] = i
		}
		in.TypePerm = rapid.Permutation(idx).Draw(rt, "typePerm")
		pm := m.Clone()
		changed := false
		for ti := range pm.Types {
			for ri := range pm.Types[ti].Rels {
				before := pm.Types[ti].Rels[ri].Rw.String()
				pm.Types[ti].Rels[ri].Rw = permuteOperands(rt, pm.Types[ti].Rels[ri].Rw)
				if pm.Types[ti].Rels[ri].Rw.String() != before {
					changed = true
				}
			}
		}
		if changed {
			in.Permuted = pm
		}
		if rapid.IntRange(0, 2).Draw(rt, "history") == 0 {
			in.Prior = gen.GraphModel(rt, gen.GraphOpts{MultiThis: true, SmallModels: true, Hazards: true, CycleBoost: true})
		}
		conc := rapid.IntRange(0, 3).Draw(rt, "conc") == 0
		msg, known, res := c06Check(in, conc)
		cls := wgClasses(res, m)
		if res.Accepted {
			cls = append(cls, "lib:accepted")
		}
		if changed {
			cls = append(cls, "operands-permuted")
		}
		if conc {
			cls = append(cls, "concurrent-builds")
		}
		rec.Class("orders_explored", int64(res.Orders))
		ops := 0
		for _, td := range m.Types {
			for _, r := range td.Rels {
				ops += r.Rw.CountOps()
			}
		}
		nt := (res.G.Err == "" && res.G.HasAnyCycle() && res.SpecOK) || ops >= 2
		var sample any
		if nt {
			sample = map[string]any{"model": m.String(), "type_perm": in.TypePerm, "operands_permuted": changed, "orders": len(in.Orders), "accepted": res.Accepted}
		}
		rec.Case(m, nt, sample, cls...)
		for _, k := range known {
			rec.Known(k)
		}
		if msg != "" {
			in.Text = m.String()
			rec.Violation(in, msg)
			rt.Fatalf("%s\n%s", msg, m.String())
		}
	})
	if n := rec.KnownHits("W2"); n > 0 && ev.IsKnown("C06", "W2") {
		ev.PrintKnown("C06", "W2", wgKnownText["W2"])
		if ev.IsKnown("C06", "W1") {
			// the footprint that explains these cases is the full as-implemented model (W1 and W2 together)
			ev.PrintKnown("C06", "W1", wgKnownText["W1"]+" (only in combination with W2: it decides which operands the restart sees)")
		}
		rec.Note("known finding W2: for %d generated models a permutation of intersection operands changed relation weights exactly as the restart-on-empty footprint predicts", n)
	}
}

func TestReplayC06(t *testing.T) {
	for _, f := range ev.ReplayFiles("C06") {
		var in c06Input
		if _, err := ev.LoadReplay(f, &in); err != nil {
			t.Fatalf("%s: %v", f, err)
		}
		rec := ev.New("C06", c06Rule)
		if len(in.Orders) == 0 {
			if g0 := ref.Build(in.Model); g0.Err == "" {
				if ids := wgNonTerminal(g0); len(ids) <= 6 {
					in.Orders = permutations(ids, 1000)
				}
			}
		}
		for rep := 0; rep < 5; rep++ {
			if msg, _, _ := c06Check(in, true); msg != "" {
				rec.Violation(in, msg)
				t.Errorf("%s: %s", f, msg)
				break
			}
		}
	}
}
