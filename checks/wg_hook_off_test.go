//go:build !verif

package checks

import (
	"errors"

	openfgav1 "github.com/openfga/api/proto/openfga/v1"
	"github.com/openfga/language/pkg/go/graph"
)

const wgHooks = false

func wgBuildUnweighted(pm *openfgav1.AuthorizationModel) (*graph.WeightedAuthorizationModelGraph, error) {
	return nil, errors.New("hooks disabled")
}

func wgAssignInOrder(wg *graph.WeightedAuthorizationModelGraph, order []string) error {
	return errors.New("hooks disabled")
}

func syntaxPositionsHook(err error) ([]errPos, bool) { return nil, false }
