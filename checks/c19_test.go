package checks

// C19 — the Go, JS and Java parsers are generated from the one grammar in the repository.
//
// (1) exhaustive artefact differential: serialized ATNs (Go int32 list, TS number array, Java packed
//     string, six .interp files), .tokens files, name tables, against each other and against the
//     vocabularies declared in the .g4 files; listener methods name existing rules;
// (2) generated-code skeletons of the three recursive-descent parsers (states, matches, rule calls,
//     decisions, case labels) are identical;
// (3) rapid-generated token sentences derived from OpenFGAParser.g4 are fed to the generated Go
//     parser through a list-backed token source: they must be accepted with the derivation's rules;
//     single-token mutations that the grammar rejects must produce a syntax error.

import (
	"encoding/json"
	"fmt"
	"os"
	"path/filepath"
	"reflect"
	"sort"
	"strings"
	"sync"
	"sync/atomic"
	"testing"
	"time"

	"github.com/antlr4-go/antlr/v4"
	parser "github.com/openfga/language/pkg/go/gen"
	"github.com/openfga/language/pkg/go/transformer"
	"pgregory.net/rapid"

	"verif/internal/ev"
	"verif/internal/g4"
)

type c19Input struct {
	Tokens   []string `json:"tokens,omitempty"`   // token-type sentence (symbolic names, without EOF)
	Expected []string `json:"expected,omitempty"` // rule names of the derivation, pre-order
	Mutated  bool     `json:"mutated,omitempty"`
	Artefact string   `json:"artefact,omitempty"`   // artefact comparison that failed
	Walk     bool     `json:"atn_walk,omitempty"`   // tokens come from a walk through the automaton
	LexRule  string   `json:"lexer_rule,omitempty"` // lexer grammar <-> lexer automaton: the rule ...
	LexText  string   `json:"lexer_text,omitempty"` // ... and the characters
	LexFrom  string   `json:"lexer_from,omitempty"` // "g4" (sampled from the grammar rule) or "atn" (walk through the automaton)
}

const c19Rule = "exhaustive over the finite artefact set: serialized ATN of lexer and parser decoded from Go, TypeScript, Java sources and the six .interp files (pairwise equal per grammar), " +
	"six .tokens files, literal/symbolic/rule name tables of the three packages and the .interp files, token and rule vocabularies declared in OpenFGALexer.g4 / OpenFGAParser.g4, " +
	"listener methods vs rules, per-rule event skeletons of the three generated parsers. rapid: token-type sentences derived at random from OpenFGAParser.g4 (depth budget 4-9) are " +
	"parsed by the generated Go parser through a list-backed token source (lexer bypassed): zero syntax errors and the same rules as the derivation (the four rules involved in the " +
	"relationRecurse ambiguity are compared as a multiset); single-token deletions/insertions/replacements that the .g4 recogniser rejects must yield a syntax error; " +
	"conversely, rapid-drawn random walks through the parser automaton (own deserializer of the serialized ATN) must be sentences of OpenFGAParser.g4 and be accepted by the Go parser. " +
	"Lexer grammar <-> lexer automaton, rule by rule, no generated code involved: OpenFGALexer.g4 is read by an own lexer-grammar reader; modes, rule-to-mode membership and order, token " +
	"types and lexer commands (type, pushMode, popMode, channel) are compared structurally with the automaton; one string per alternative of every rule (fragments inlined) and rapid-sampled " +
	"strings of each rule must drive the automaton's rule from start to stop state, and rapid-drawn walks through the automaton's rule must be in the language the grammar gives the rule. " +
	"Non-trivial = sentence using >= 8 distinct rules, or a lexer string of >= 3 characters; distinct by token sequence / rule and text."

func c19Read(rel string) string {
	b, err := os.ReadFile(filepath.Join(ev.Repo(), rel))
	if err != nil {
		return ""
	}
	return string(b)
}

func eqInts(a, b []int) bool {
	if len(a) != len(b) {
		return false
	}
	for i := range a {
		if a[i] != b[i] {
			return false
		}
	}
	return true
}

func firstIntDiff(a, b []int) string {
	for i := 0; i < len(a) && i < len(b); i++ {
		if a[i] != b[i] {
			return fmt.Sprintf("element %d: %d vs %d", i, a[i], b[i])
		}
	}
	return fmt.Sprintf("lengths %d vs %d", len(a), len(b))
}

func eqStrs(a, b []string) bool { return strings.Join(a, "\x00") == strings.Join(b, "\x00") }

const (
	goGen   = "pkg/go/gen/"
	jsGen   = "pkg/js/gen/"
	javaGen = "pkg/java/src/main/gen/dev/openfga/language/antlr/"
)

// c19Artefacts returns the first mismatch ("" = all consistent) and the number of comparisons.
// c19RuntimeVocab: the vocabularies the generated Go package REPORTS when it runs (rule names, literal and symbolic
// token names of parser and lexer), read in two fresh processes - one creating the parser before the lexer, one the
// other way round - equal each other and equal what the two .g4 files declare. Independent of how the generated source
// spells its tables.
func c19RuntimeVocab() (string, int) {
	n := 0
	g := repoGrammar()
	v := g4.ParseLexerVocab(c19Read("OpenFGALexer.g4"))
	var first map[string][]string
	for _, order := range []string{"parser-first", "lexer-first"} {
		resp, ok := runChild(childReq{Op: "vocab", Text: order}, 60*time.Second)
		if !ok || resp.Panic != "" {
			if resp.Panic != "" {
				return fmt.Sprintf("creating the generated parser and lexer in a fresh process (%s) panicked: %s", order, resp.Panic), n
			}
			return "cannot run the child process for the run-time vocabulary", n
		}
		var tab map[string][]string
		if err := json.Unmarshal([]byte(resp.Result), &tab); err != nil {
			return "cannot parse the child's vocabulary dump", n
		}
		n += 6
		if !eqStrs(tab["parser.rules"], g.Order) {
			return fmt.Sprintf("fresh process, %s: the Go parser reports rule names %v, OpenFGAParser.g4 declares %v", order, tab["parser.rules"], g.Order), n
		}
		for _, half := range []string{"parser", "lexer"} {
			sym := tab[half+".symbolic"]
			if len(sym) < 2 || !eqStrs(sym[1:], v.Tokens) {
				return fmt.Sprintf("fresh process, %s: the Go %s reports symbolic token names %v, OpenFGALexer.g4 declares %v", order, half, sym, v.Tokens), n
			}
			lit := tab[half+".literal"]
			for name, l := range v.Literals {
				for i, s := range sym {
					if s == name && (i >= len(lit) || lit[i] != "'"+l+"'") {
						return fmt.Sprintf("fresh process, %s: the Go %s reports literal %q for token %s, OpenFGALexer.g4 has %q", order, half, safeIdx(lit, i), name, l), n
					}
				}
			}
		}
		if first == nil {
			first = tab
		} else {
			for k := range tab {
				if !eqStrs(tab[k], first[k]) {
					return fmt.Sprintf("the run-time vocabulary %s of the Go package depends on whether parser or lexer is created first: %v vs %v", k, first[k], tab[k]), n
				}
			}
		}
	}
	return "", n
}

func c19Artefacts() (string, int) {
	n := 0
	for _, gr := range []string{"Parser", "Lexer"} {
		goSrc := c19Read(goGen + "openfga_" + strings.ToLower(gr) + ".go")
		tsSrc := c19Read(jsGen + "OpenFGA" + gr + ".ts")
		jaSrc := c19Read(javaGen + "OpenFGA" + gr + ".java")
		if goSrc == "" || tsSrc == "" || jaSrc == "" {
			return "cannot read the generated " + gr + " sources", n
		}
		ref, err := g4.GoATN(goSrc)
		if err != nil || len(ref) < 100 {
			return fmt.Sprintf("Go %s: cannot extract the serialized ATN: %v", gr, err), n
		}
		ts, err := g4.TSATN(tsSrc)
		if err != nil {
			return fmt.Sprintf("JS %s: cannot extract the serialized ATN: %v", gr, err), n
		}
		ja, err := g4.JavaATN(jaSrc)
		if err != nil {
			return fmt.Sprintf("Java %s: cannot decode the serialized ATN: %v", gr, err), n
		}
		n += 2
		if !eqInts(ref, ts) {
			return fmt.Sprintf("%s automaton: Go and JS serialized ATN differ (%s)", gr, firstIntDiff(ref, ts)), n
		}
		if !eqInts(ref, ja) {
			return fmt.Sprintf("%s automaton: Go and Java serialized ATN differ (%s)", gr, firstIntDiff(ref, ja)), n
		}
		goTab, err1 := g4.GoTables(goSrc)
		tsTab, err2 := g4.TSTables(tsSrc)
		jaTab, err3 := g4.JavaTables(jaSrc)
		if err1 != nil || err2 != nil || err3 != nil {
			return fmt.Sprintf("%s: cannot extract name tables: %v %v %v", gr, err1, err2, err3), n
		}
		var tokensRef string
		for _, dir := range []string{goGen, jsGen, javaGen} {
			it := c19Read(dir + "OpenFGA" + gr + ".interp")
			ia, err := g4.InterpATN(it)
			n++
			if err != nil || !eqInts(ref, ia) {
				return fmt.Sprintf("%s automaton: %sOpenFGA%s.interp differs from the Go serialized ATN (%v %s)", gr, dir, gr, err, firstIntDiff(ref, ia)), n
			}
			itab := g4.InterpTables(it)
			n += 3
			if !eqStrs(itab.Symbolic, goTab.Symbolic) || !eqStrs(itab.Rules, goTab.Rules) {
				return fmt.Sprintf("%s: name tables of %sOpenFGA%s.interp differ from the Go tables", gr, dir, gr), n
			}
			var lit []string
			for _, l := range goTab.Literal {
				lit = append(lit, l)
			}
			if !eqStrs(itab.Literal, lit) {
				return fmt.Sprintf("%s: literal names of %sOpenFGA%s.interp differ from the Go table", gr, dir, gr), n
			}
			tk := c19Read(dir + "OpenFGA" + gr + ".tokens")
			n++
			if tk == "" || (tokensRef != "" && tk != tokensRef) {
				return fmt.Sprintf("%s: %sOpenFGA%s.tokens differs from the Go package's .tokens file", gr, dir, gr), n
			}
			tokensRef = tk
		}
		n += 6
		for name, other := range map[string]g4.Tables{"JS": tsTab, "Java": jaTab} {
			if !eqStrs(goTab.Symbolic, other.Symbolic) {
				return fmt.Sprintf("%s: symbolic token names differ between Go and %s", gr, name), n
			}
			if !eqStrs(goTab.Literal, other.Literal) {
				return fmt.Sprintf("%s: literal token names differ between Go and %s", gr, name), n
			}
			if !eqStrs(goTab.Rules, other.Rules) {
				return fmt.Sprintf("%s: rule names differ between Go and %s (%v vs %v)", gr, name, goTab.Rules, other.Rules), n
			}
		}
		// .tokens content vs symbolic names
		for _, l := range strings.Split(strings.TrimSpace(tokensRef), "\n") {
			kv := strings.SplitN(l, "=", 2)
			if len(kv) != 2 || strings.HasPrefix(kv[0], "'") {
				continue
			}
			var idx int
			fmt.Sscanf(kv[1], "%d", &idx)
			if idx <= 0 || idx >= len(goTab.Symbolic) || goTab.Symbolic[idx] != kv[0] {
				return fmt.Sprintf("%s: .tokens says %s but the symbolic name table has %q there", gr, l, safeIdx(goTab.Symbolic, idx)), n
			}
		}
		// against the .g4 sources
		if gr == "Parser" {
			g, err := g4.ParseParserGrammar(c19Read("OpenFGAParser.g4"))
			if err != nil {
				return "cannot parse OpenFGAParser.g4: " + err.Error(), n
			}
			n++
			if !eqStrs(g.Order, goTab.Rules) {
				return fmt.Sprintf("rules declared in OpenFGAParser.g4 %v differ from the generated rule names %v", g.Order, goTab.Rules), n
			}
			known := map[string]bool{}
			for _, s := range goTab.Symbolic {
				known[s] = true
			}
			for _, tkn := range g.Tokens() {
				n++
				if !known[tkn] && tkn != "EOF" {
					return fmt.Sprintf("OpenFGAParser.g4 uses token %s which the generated vocabulary lacks", tkn), n
				}
			}
			// skeletons
			skGo, e1 := g4.ExtractSkeleton("go", goSrc, goTab)
			skTS, e2 := g4.ExtractSkeleton("ts", tsSrc, goTab)
			skJa, e3 := g4.ExtractSkeleton("java", jaSrc, goTab)
			if e1 != nil || e2 != nil || e3 != nil {
				return fmt.Sprintf("cannot extract parser skeletons: %v %v %v", e1, e2, e3), n
			}
			for _, r := range goTab.Rules {
				n += 2
				if len(skGo[r]) < 2 {
					return fmt.Sprintf("skeleton of rule %s is empty (extractor out of date?)", r), n
				}
				if !eqStrs(skGo[r], skTS[r]) {
					return fmt.Sprintf("generated code of rule %s differs between Go and JS: %s", r, firstStrDiff(skGo[r], skTS[r])), n
				}
				if !eqStrs(skGo[r], skJa[r]) {
					return fmt.Sprintf("generated code of rule %s differs between Go and Java: %s", r, firstStrDiff(skGo[r], skJa[r])), n
				}
			}
		} else {
			v := g4.ParseLexerVocab(c19Read("OpenFGALexer.g4"))
			n++
			if !eqStrs(v.Tokens, goTab.Symbolic[1:]) {
				return fmt.Sprintf("tokens declared in OpenFGALexer.g4 %v differ from the generated symbolic names %v", v.Tokens, goTab.Symbolic[1:]), n
			}
			for name, lit := range v.Literals {
				n++
				for i, s := range goTab.Symbolic {
					if s == name && i < len(goTab.Literal) && goTab.Literal[i] != "" && goTab.Literal[i] != "'"+lit+"'" {
						return fmt.Sprintf("literal of token %s: OpenFGALexer.g4 has %q, the generated table %s", name, lit, goTab.Literal[i]), n
					}
				}
			}
			if !eqStrs(goTab.Rules, v.Rules) && len(v.Rules) > 0 {
				// generated lexer rule names = non-fragment rules of all modes in declaration order
				n++
				if strings.Join(goTab.Rules, ",") != strings.Join(v.AllRules, ",") {
					return fmt.Sprintf("lexer rules declared in OpenFGALexer.g4 differ from the generated rule names: %s", firstStrDiff(v.AllRules, goTab.Rules)), n
				}
			}
		}
	}
	// listener methods name existing rules
	p := parser.NewOpenFGAParser(nil)
	rules := map[string]bool{}
	for _, r := range p.RuleNames {
		rules[strings.ToLower(r)] = true
	}
	for _, typ := range []reflect.Type{reflect.TypeOf(&transformer.OpenFgaDslListener{}), reflect.TypeOf(&parser.BaseOpenFGAParserListener{})} {
		for i := 0; i < typ.NumMethod(); i++ {
			name := typ.Method(i).Name
			for _, pre := range []string{"Enter", "Exit"} {
				if strings.HasPrefix(name, pre) && name != "EnterEveryRule" && name != "ExitEveryRule" {
					n++
					if !rules[strings.ToLower(strings.TrimPrefix(name, pre))] {
						return fmt.Sprintf("listener %s has callback %s for a rule that does not exist", typ, name), n
					}
				}
			}
		}
	}
	return "", n
}

func safeIdx(s []string, i int) string {
	if i >= 0 && i < len(s) {
		return s[i]
	}
	return "<out of range>"
}

func firstStrDiff(a, b []string) string {
	for i := 0; i < len(a) && i < len(b); i++ {
		if a[i] != b[i] {
			lo := max(0, i-3)
			return fmt.Sprintf("event %d: %v vs %v", i, a[lo:min(len(a), i+2)], b[lo:min(len(b), i+2)])
		}
	}
	return fmt.Sprintf("lengths %d vs %d", len(a), len(b))
}

// ---- list-backed token source ----------------------------------------------------------------

type listLexer struct {
	*antlr.BaseLexer
	types []int
	texts []string
	pos   int
	pair  *antlr.TokenSourceCharStreamPair
}

func (l *listLexer) NextToken() antlr.Token {
	if l.pos >= len(l.types) {
		t := antlr.CommonTokenFactoryDEFAULT.Create(l.pair, antlr.TokenEOF, "<EOF>", antlr.TokenDefaultChannel, l.pos, l.pos, 1, l.pos)
		return t
	}
	t := antlr.CommonTokenFactoryDEFAULT.Create(l.pair, l.types[l.pos], l.texts[l.pos], antlr.TokenDefaultChannel, l.pos, l.pos, 1, l.pos)
	l.pos++
	return t
}

type ruleRecorder struct {
	*antlr.BaseParseTreeListener
	names []string
	rules []string
}

func (r *ruleRecorder) EnterEveryRule(ctx antlr.ParserRuleContext) {
	r.rules = append(r.rules, r.names[ctx.GetRuleIndex()])
}

type errCounter struct {
	*antlr.DefaultErrorListener
	n     int
	first string
}

func (e *errCounter) SyntaxError(_ antlr.Recognizer, _ interface{}, line, col int, msg string, _ antlr.RecognitionException) {
	if e.n == 0 {
		e.first = fmt.Sprintf("token #%d: %s", col, msg)
	}
	e.n++
}

// c19Parse feeds a token-type sentence to the generated Go parser.
// c19Parse runs the generated Go parser on a token sentence under a watchdog: a parse of a few dozen tokens that
// has not returned after 30 s does not terminate (seeded: a hand-edited token set makes the parser spin). Once that
// happened every later call reports it at once, so that shrinking does not pile up spinning goroutines.
var c19Hung atomic.Bool

func c19Parse(tokens []string) (rules []string, nErr int, first string, panicked string) {
	if c19Hung.Load() {
		return nil, 0, "", "the parser did not return within 30 s on an earlier sentence of this run"
	}
	type res struct {
		rules []string
		nErr  int
		first string
		pan   string
	}
	ch := make(chan res, 1)
	go func() {
		r, n, f, p := c19ParseUnguarded(tokens)
		ch <- res{r, n, f, p}
	}()
	select {
	case r := <-ch:
		return r.rules, r.nErr, r.first, r.pan
	case <-time.After(30 * time.Second):
		c19Hung.Store(true)
		return nil, 0, "", "no result after 30 s (the generated parser does not terminate on this sentence)"
	}
}

func c19ParseUnguarded(tokens []string) (rules []string, nErr int, first string, panicked string) {
	defer func() {
		if r := recover(); r != nil {
			panicked = fmt.Sprint(r)
		}
	}()
	probe := parser.NewOpenFGAParser(nil)
	typeOf := map[string]int{}
	for i, s := range probe.SymbolicNames {
		if s != "" {
			typeOf[s] = i
		}
	}
	ll := &listLexer{BaseLexer: antlr.NewBaseLexer(antlr.NewInputStream("")), pair: &antlr.TokenSourceCharStreamPair{}}
	for _, t := range tokens {
		tt, ok := typeOf[t]
		if !ok {
			return nil, 0, "", "unknown token " + t
		}
		ll.types = append(ll.types, tt)
		txt := strings.ToLower(t)
		if tt < len(probe.LiteralNames) && probe.LiteralNames[tt] != "" {
			txt = strings.Trim(probe.LiteralNames[tt], "'")
		}
		ll.texts = append(ll.texts, txt)
	}
	p := parser.NewOpenFGAParser(antlr.NewCommonTokenStream(ll, antlr.TokenDefaultChannel))
	p.RemoveErrorListeners()
	ec := &errCounter{DefaultErrorListener: antlr.NewDefaultErrorListener()}
	p.AddErrorListener(ec)
	tree := p.Main()
	rec := &ruleRecorder{BaseParseTreeListener: &antlr.BaseParseTreeListener{}, names: p.RuleNames}
	antlr.ParseTreeWalkerDefault.Walk(rec, tree)
	return rec.rules, ec.n, ec.first, ""
}

var c19Ambiguous = map[string]bool{"relationRecurse": true, "relationRecurseNoDirect": true, "relationDef": true, "relationDefNoDirect": true}

func ruleBag(rules []string) string {
	var s []string
	for _, r := range rules {
		if !c19Ambiguous[r] {
			s = append(s, r)
		}
	}
	sort.Strings(s)
	return strings.Join(s, ",")
}

func c19SentenceCheck(in c19Input) string {
	g := repoGrammar()
	toks := append(append([]string{}, in.Tokens...), "EOF")
	derivable := g.Derives("main", toks)
	rules, nErr, first, pan := c19Parse(in.Tokens)
	if pan != "" {
		return "the generated Go parser panicked or hung on a token sentence (" + strings.Join(in.Tokens, " ") + "): " + pan
	}
	if !in.Mutated {
		if !derivable {
			return "" // generator/recogniser disagreement is a harness matter, reported by the caller
		}
		if nErr > 0 {
			return fmt.Sprintf("a sentence derived from OpenFGAParser.g4 is rejected by the generated Go parser (%s): %s", first, strings.Join(in.Tokens, " "))
		}
		if ruleBag(rules) != ruleBag(in.Expected) {
			return fmt.Sprintf("the generated Go parser builds a different tree than the derivation: rules %v vs derivation %v for %s", rules, in.Expected, strings.Join(in.Tokens, " "))
		}
		return ""
	}
	if !derivable && nErr == 0 {
		return fmt.Sprintf("a token sequence the grammar does not derive is accepted by the generated Go parser without syntax error: %s", strings.Join(in.Tokens, " "))
	}
	if derivable && nErr > 0 {
		return fmt.Sprintf("a token sequence the grammar derives is rejected by the generated Go parser (%s): %s", first, strings.Join(in.Tokens, " "))
	}
	return ""
}

type rapidG4Chooser struct{ t *rapid.T }

func (c rapidG4Chooser) Intn(n int, label string) int { return rapid.IntRange(0, n-1).Draw(c.t, label) }

func TestC19(t *testing.T) {
	rec := ev.New("C19", c19Rule)
	defer func() {
		if !rec.Flush() {
			t.Fail()
		}
	}()
	rec.Assume("the JS and Java parsers cannot be executed here (no antlr4 runtime for them offline): their behaviour is tied to Go's by ATN, vocabulary and code-skeleton equality",
		"the lexer artefacts are tied together by ATN/vocabulary equality; their agreement with OpenFGALexer.g4 is exercised through the documents of C01/C03")
	if ev.Shard() == 0 {
		msg, n := c19RuntimeVocab()
		if msg == "" {
			m2, n2 := c19Artefacts()
			msg, n = m2, n+n2
		}
		if msg == "" {
			m2, n2 := c19LexStructure()
			msg, n = m2, n+n2
		}
		if msg == "" {
			m2, n2 := c19LexCoverAlternatives()
			msg, n = m2, n+n2
		}
		rec.Bulk(int64(n), int64(n), map[string]int64{"artefact:comparisons": int64(n)})
		rec.Sample(map[string]any{"artefact_comparisons": n, "what": "ATN x4 per grammar, .interp x6, .tokens x6, name tables, .g4 vocabularies, 27 rule skeletons x3, listener methods"})
		if msg != "" {
			if strings.Contains(msg, "cannot extract") || strings.Contains(msg, "cannot read") || strings.Contains(msg, "cannot decode") || strings.Contains(msg, "extractor out of date") || strings.Contains(msg, "cannot parse") {
				// my extractors do not understand the artefacts (e.g. a new ANTLR version regenerated everywhere): not a verdict
				ev.HarnessError("C19", "%s", msg)
				t.Fatalf("harness: %s", msg)
			}
			rec.Violation(c19Input{Artefact: msg}, msg)
			t.Fatalf("%s", msg)
		}
	}
	g := repoGrammar()
	p := parser.NewOpenFGAParser(nil)
	var tokNames []string
	for _, s := range p.SymbolicNames {
		if s != "" {
			tokNames = append(tokNames, s)
		}
	}
	harness := false
	rapid.Check(t, func(rt *rapid.T) {
		anyTok := func(ex map[string]bool) string {
			for {
				s := rapid.SampledFrom(tokNames).Draw(rt, "anyTok")
				if !ex[s] {
					return s
				}
			}
		}
		budget := rapid.IntRange(4, 9).Draw(rt, "budget")
		toks, tree := g.Generate(rapidG4Chooser{rt}, "main", budget, anyTok)
		if len(toks) > 0 && toks[len(toks)-1] == "EOF" {
			toks = toks[:len(toks)-1]
		}
		in := c19Input{Tokens: toks, Expected: tree.RuleNames()}
		if !g.Derives("main", append(append([]string{}, toks...), "EOF")) {
			if !harness {
				ev.HarnessError("C19", "sentence generator produced a sentence the recogniser rejects: %v", toks)
			}
			harness = true
			rt.Fatalf("harness: generator/recogniser disagree")
		}
		distinct := map[string]bool{}
		for _, r := range in.Expected {
			distinct[r] = true
		}
		cls := []string{"sentence:derived"}
		if rapid.IntRange(0, 2).Draw(rt, "mutate") == 0 && len(toks) > 0 {
			in.Mutated = true
			i := rapid.IntRange(0, len(toks)-1).Draw(rt, "mutAt")
			m := append([]string{}, toks...)
			switch rapid.IntRange(0, 2).Draw(rt, "mutKind") {
			case 0:
				m = append(m[:i], m[i+1:]...)
			case 1:
				m = append(m[:i], append([]string{rapid.SampledFrom(tokNames).Draw(rt, "insTok")}, m[i:]...)...)
			default:
				m[i] = rapid.SampledFrom(tokNames).Draw(rt, "repTok")
			}
			in.Tokens, in.Expected = m, nil
			cls = []string{"sentence:mutated"}
			if g.Derives("main", append(append([]string{}, m...), "EOF")) {
				cls = append(cls, "sentence:mutant-still-grammatical")
			}
		}
		nt := len(distinct) >= 8
		var sample any
		if nt {
			sample = map[string]any{"tokens": strings.Join(in.Tokens, " "), "mutated": in.Mutated}
		}
		rec.Case(strings.Join(in.Tokens, " ")+fmt.Sprint(in.Mutated), nt, sample, cls...)
		if msg := c19SentenceCheck(in); msg != "" {
			rec.Violation(in, msg)
			rt.Fatalf("%s", msg)
		}
	})
	if harness || t.Failed() {
		t.Fail()
		return
	}
	// (4) the other direction: random walks through the automaton (decoded from the Go package's .interp, which
	// the artefact differential ties to all other copies) must be sentences of the .g4 grammar
	interp, err := g4.InterpATN(c19Read(goGen + "OpenFGAParser.interp"))
	if err != nil {
		t.Fatalf("cannot read the parser ATN: %v", err)
	}
	atn, err := g4.ParseATN(interp)
	if err != nil {
		ev.HarnessError("C19", "cannot deserialize the parser ATN: %v", err)
		t.Fatalf("%v", err)
	}
	tokName := func(tt int) string {
		if tt > 0 && tt < len(p.SymbolicNames) && p.SymbolicNames[tt] != "" {
			return p.SymbolicNames[tt]
		}
		return fmt.Sprintf("<%d>", tt)
	}
	t.Run("atn-walks", rapid.MakeCheck(func(rt *rapid.T) {
		anyTok := func(ex map[string]bool) string {
			for {
				s := rapid.SampledFrom(tokNames).Draw(rt, "anyTok")
				if !ex[s] {
					return s
				}
			}
		}
		toks, ok := atn.Walk(rapidG4Chooser{rt}, 0, rapid.IntRange(20, 400).Draw(rt, "budget"), tokName, anyTok)
		if !ok {
			rec.Case(fmt.Sprint("abandoned", len(toks)), false, nil, "walk:abandoned")
			return
		}
		in := c19Input{Tokens: toks, Walk: true}
		if n := len(toks); n > 0 && toks[n-1] == "EOF" {
			in.Tokens = toks[:n-1]
		}
		nt := len(in.Tokens) >= 25
		var sample any
		if nt {
			sample = map[string]any{"atn_walk": strings.Join(in.Tokens, " ")}
		}
		rec.Case("walk:"+strings.Join(in.Tokens, " "), nt, sample, "walk:completed")
		if msg := c19WalkCheck(in); msg != "" {
			rec.Violation(in, msg)
			rt.Fatalf("%s", msg)
		}
	}))
	if t.Failed() {
		return
	}
	// (5) lexer grammar <-> lexer automaton, rule by rule, both directions: strings sampled from the rule as
	// OpenFGALexer.g4 writes it must drive the automaton's rule to its stop state; random walks through the automaton's
	// rule must be in the rule's language by the grammar. No generated code runs here.
	lx := c19LexSetup()
	if lx.err != "" {
		ev.HarnessError("C19", "%s", lx.err)
		t.Fatalf("harness: %s", lx.err)
	}
	t.Run("lexer-rules", rapid.MakeCheck(func(rt *rapid.T) {
		for rep := 0; rep < 8; rep++ {
			r := lx.g.Rules[rapid.IntRange(0, len(lx.g.Rules)-1).Draw(rt, "lexRule")]
			in := c19Input{LexRule: r.Name}
			if rapid.Bool().Draw(rt, "fromGrammar") {
				s, ok := lx.g.Sample(rapidG4Chooser{rt}, r.Name, rapid.IntRange(5, 40).Draw(rt, "lexBudget"))
				if !ok {
					ev.HarnessError("C19", "cannot parse OpenFGALexer.g4: rule %s uses a construct the reader does not support", r.Name)
					rt.Fatalf("harness: unsupported construct in %s", r.Name)
				}
				in.LexText, in.LexFrom = string(s), "g4"
			} else {
				s, ok := lx.atn.WalkChars(rapidG4Chooser{rt}, lx.index[r.Name], rapid.IntRange(5, 60).Draw(rt, "lexBudget"))
				if !ok {
					rec.Case("lex-abandoned:"+r.Name, false, nil, "lexer:walk-abandoned")
					continue
				}
				in.LexText, in.LexFrom = string(s), "atn"
			}
			nt := len([]rune(in.LexText)) >= 3
			var sample any
			if nt {
				sample = map[string]any{"lexer_rule": in.LexRule, "text": in.LexText, "from": in.LexFrom}
			}
			rec.Case("lex:"+in.LexRule+":"+in.LexText, nt, sample, "lexer:from-"+in.LexFrom)
			if msg := c19LexCheck(in); msg != "" {
				rec.Violation(in, msg)
				rt.Fatalf("%s", msg)
			}
		}
	}))
}

// forcedAlt is a chooser that takes the first alternative everywhere except at the target-th alternative it meets,
// where it takes the given branch: enumerating (target, branch) covers every alternative of a rule at least once.
type forcedAlt struct {
	target, branch int
	seen           int
	expanded       int
	arity          int // arity of the target alternative (0 = never reached)
}

func (f *forcedAlt) Intn(n int, label string) int {
	switch label {
	case "alt":
		f.seen++
		if f.seen-1 == f.target {
			f.arity = n
			if f.branch < n {
				return f.branch
			}
		}
	case "opt", "reps":
		// expand optional parts and loops once, so that the alternatives inside them are met (bounded: NEWLINE refers
		// to itself through an optional tail)
		f.expanded++
		if f.expanded <= 60 {
			return 1
		}
	}
	return 0
}

// c19LexCoverAlternatives: every alternative written in a lexer rule of OpenFGALexer.g4 (fragments inlined) yields at
// least one string the automaton's rule must match.
func c19LexCoverAlternatives() (string, int) {
	lx := c19LexSetup()
	if lx.err != "" {
		return lx.err, 0
	}
	n := 0
	for _, r := range lx.g.Rules {
		for target := 0; target < 2000; target++ {
			arity := 1
			for branch := 0; branch < arity; branch++ {
				f := &forcedAlt{target: target, branch: branch}
				s, ok := lx.g.Sample(f, r.Name, 1<<30)
				if !ok {
					return "cannot parse OpenFGALexer.g4: rule " + r.Name + " uses a construct the reader does not support", n
				}
				arity = f.arity
				if arity == 0 {
					break
				}
				n++
				if msg := c19LexCheck(c19Input{LexRule: r.Name, LexText: string(s), LexFrom: "g4"}); msg != "" {
					return msg, n
				}
			}
			if arity == 0 {
				break // fewer than target+1 alternatives are met in this rule: all of them are covered
			}
		}
	}
	return "", n
}

// c19WalkCheck: a path through the generated automaton must be a sentence of the .g4 grammar and
// must be accepted by the generated Go parser.
func c19WalkCheck(in c19Input) string {
	g := repoGrammar()
	if !g.Derives("main", append(append([]string{}, in.Tokens...), "EOF")) {
		return "a path through the generated parser automaton is not a sentence of OpenFGAParser.g4 (grammar edited without regenerating?): " + strings.Join(in.Tokens, " ")
	}
	if _, nErr, first, pan := c19Parse(in.Tokens); pan != "" || nErr > 0 {
		return fmt.Sprintf("a path through the generated automaton is rejected by the generated Go parser code (%s %s): %s", first, pan, strings.Join(in.Tokens, " "))
	}
	return ""
}

// ---- lexer grammar <-> lexer automaton ---------------------------------------------------------

type c19Lex struct {
	g     *g4.LexGrammar
	atn   *g4.ATN
	index map[string]int
	err   string
}

var (
	c19LexOnce sync.Once
	c19LexVal  c19Lex
)

func c19LexSetup() *c19Lex {
	c19LexOnce.Do(func() {
		g, err := g4.ParseLexerGrammar(c19Read("OpenFGALexer.g4"))
		if err != nil {
			c19LexVal.err = "cannot parse OpenFGALexer.g4: " + err.Error()
			return
		}
		data, err := g4.InterpATN(c19Read(goGen + "OpenFGALexer.interp"))
		if err != nil {
			c19LexVal.err = "cannot read the lexer ATN: " + err.Error()
			return
		}
		a, err := g4.ParseATN(data)
		if err != nil {
			c19LexVal.err = "cannot decode the lexer ATN: " + err.Error()
			return
		}
		c19LexVal = c19Lex{g: g, atn: a, index: map[string]int{}}
		for i, r := range g.Rules {
			c19LexVal.index[r.Name] = i
		}
	})
	return &c19LexVal
}

// c19LexStructure: rule for rule, the lexer automaton must carry the modes, token types and lexer commands that
// OpenFGALexer.g4 declares (the rule NAMES are compared by c19Artefacts).
func c19LexStructure() (string, int) {
	lx := c19LexSetup()
	if lx.err != "" {
		return lx.err, 0
	}
	n := 0
	goTab, err := g4.GoTables(c19Read(goGen + "openfga_lexer.go"))
	if err != nil {
		return "cannot extract name tables: " + err.Error(), n
	}
	typeOf := map[string]int{}
	for i, sname := range goTab.Symbolic {
		if sname != "" {
			typeOf[sname] = i
		}
	}
	if lx.atn.GrammarType != 0 || lx.atn.NumRules() != len(lx.g.Rules) {
		return fmt.Sprintf("the lexer automaton has %d rules, OpenFGALexer.g4 declares %d", lx.atn.NumRules(), len(lx.g.Rules)), n
	}
	if len(lx.atn.ModeStart) != len(lx.g.Modes) {
		return fmt.Sprintf("the lexer automaton has %d modes, OpenFGALexer.g4 declares %v", len(lx.atn.ModeStart), lx.g.Modes), n
	}
	modeIdx := map[string]int{}
	for i, m := range lx.g.Modes {
		modeIdx[m] = i
	}
	for mi, mode := range lx.g.Modes {
		var want []int
		for i, r := range lx.g.Rules {
			if !r.Fragment && r.Mode == mode {
				want = append(want, i)
			}
		}
		n++
		if got := lx.atn.ModeRules(mi); fmt.Sprint(got) != fmt.Sprint(want) {
			return fmt.Sprintf("mode %s: the automaton tries rules %v, OpenFGALexer.g4 puts rules %v into this mode", mode, got, want), n
		}
	}
	for i, r := range lx.g.Rules {
		var want [][3]int
		retyped := false
		for _, c := range r.Commands {
			switch c.Name {
			case "type":
				retyped = true
				want = append(want, [3]int{7, typeOf[c.Arg], 0})
			case "pushMode":
				want = append(want, [3]int{5, modeIdx[c.Arg], 0})
			case "popMode":
				want = append(want, [3]int{4, 0, 0})
			case "mode":
				want = append(want, [3]int{2, modeIdx[c.Arg], 0})
			case "skip":
				want = append(want, [3]int{6, 0, 0})
			case "more":
				want = append(want, [3]int{3, 0, 0})
			case "channel":
				ch := map[string]int{"HIDDEN": 1, "DEFAULT_TOKEN_CHANNEL": 0}[c.Arg]
				want = append(want, [3]int{0, ch, 0})
			default:
				return "cannot parse OpenFGALexer.g4: unknown lexer command " + c.Name, n
			}
		}
		n += 2
		if got := lx.atn.RuleActions(i); fmt.Sprint(got) != fmt.Sprint(want) {
			return fmt.Sprintf("lexer rule %s: OpenFGALexer.g4 has commands %v (= actions %v), the automaton executes %v", r.Name, r.Commands, want, got), n
		}
		wantType := 0
		if !r.Fragment && !retyped {
			wantType = typeOf[r.Name]
		}
		if lx.atn.RuleTokenType[i] != wantType {
			return fmt.Sprintf("lexer rule %s: the automaton emits token type %d, OpenFGALexer.g4 implies %d", r.Name, lx.atn.RuleTokenType[i], wantType), n
		}
	}
	return "", n
}

// c19LexCheck: the characters must be in the language of the rule both by the grammar and by the automaton.
func c19LexCheck(in c19Input) string {
	lx := c19LexSetup()
	if lx.err != "" {
		return ""
	}
	i, ok := lx.index[in.LexRule]
	if !ok {
		return ""
	}
	s := []rune(in.LexText)
	byATN := lx.atn.MatchRule(i, s)
	byG4, sup := lx.g.Matches(in.LexRule, s)
	if !sup {
		return ""
	}
	if byATN != byG4 {
		if byG4 {
			return fmt.Sprintf("lexer rule %s: %q is in the language OpenFGALexer.g4 gives the rule, but the generated automaton does not match it (grammar edited without regenerating?)", in.LexRule, in.LexText)
		}
		return fmt.Sprintf("lexer rule %s: the generated automaton matches %q, which is not in the language OpenFGALexer.g4 gives the rule", in.LexRule, in.LexText)
	}
	return ""
}

func TestReplayC19(t *testing.T) {
	for _, f := range ev.ReplayFiles("C19") {
		var in c19Input
		if _, err := ev.LoadReplay(f, &in); err != nil {
			t.Fatalf("%s: %v", f, err)
		}
		rec := ev.New("C19", c19Rule)
		if in.LexRule != "" {
			if msg := c19LexCheck(in); msg != "" {
				rec.Violation(in, msg)
				t.Errorf("%s: %s", f, msg)
			}
			continue
		}
		if in.Artefact != "" || len(in.Tokens) == 0 {
			if msg, _ := c19Artefacts(); msg != "" {
				rec.Violation(in, msg)
				t.Errorf("%s: %s", f, msg)
			}
			continue
		}
		check := c19SentenceCheck
		if in.Walk {
			check = c19WalkCheck
		}
		if msg := check(in); msg != "" {
			rec.Violation(in, msg)
			t.Errorf("%s: %s", f, msg)
		}
	}
}
