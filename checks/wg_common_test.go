package checks

// Shared engine of the weighted-graph properties C04 (weights), C05 (verdict), C06 (determinism),
// C10 (structure) and C11 (wildcards): one model is built by the real Build several times and,
// through the verif hook, under enumerated / sampled depth-first start orders; every build is
// compared with the reference graph of internal/ref.

import (
	"errors"
	"fmt"
	"sort"
	"strings"
	"sync"

	openfgav1 "github.com/openfga/api/proto/openfga/v1"
	"github.com/openfga/language/pkg/go/graph"
	"google.golang.org/protobuf/proto"
	"pgregory.net/rapid"

	"verif/internal/ev"
	"verif/internal/gen"
	"verif/internal/ref"
)

type wgInput struct {
	Model  *gen.Model `json:"model"`
	Orders [][]string `json:"orders,omitempty"`      // hook orders as reference node ids (non-terminal nodes)
	Text   string     `json:"text,omitempty"`        // human readable form of the model
	Prior  *gen.Model `json:"prior_model,omitempty"` // built first with the same builder value (the graph is a function of the model, not of the builder's history)
	// Shared: additionally one builder value is used by four goroutines at once, two building the model and two
	// the prior model; every graph they return for the model is checked like any other build
	Shared bool `json:"shared_builder,omitempty"`
}

type wgFinding struct {
	Aspect string // weights verdict structure wildcards determinism purity
	What   string
	Known  string // id of the listed finding whose exact footprint explains it ("" = violation)
}

type wgResult struct {
	Findings  []wgFinding
	SpecOK    bool
	Reason    string // spec rejection reason
	LibOK     int
	LibErr    int
	Orders    int
	G         *ref.Graph
	Accepted  bool // library accepted in every build
	ErrKinds  map[string]int
	Dump      string // canonical dump of the first accepted build
	HookError string
	OracleBug string // the reference disagrees with its own brute-force self-check
}

func errKind(err error) string {
	switch {
	case errors.Is(err, graph.ErrModelCycle):
		return "ErrModelCycle"
	case errors.Is(err, graph.ErrTupleCycle):
		return "ErrTupleCycle"
	case errors.Is(err, graph.ErrInvalidModel):
		return "ErrInvalidModel"
	}
	return "other"
}

// wgAlignEdges: the property orders operands, not the edges of ONE operand: the direct edges of a direct
// assignment and the TTU edges of one tuple-to-userset are compared as a set. Inside each maximal run of
// reference edges of one operand the library's edges are aligned by target; everything else keeps its
// position. Returns a copy.
func wgAlignEdges(r *ref.Node, in []*graph.WeightedAuthorizationModelEdge) []*graph.WeightedAuthorizationModelEdge {
	es := append([]*graph.WeightedAuthorizationModelEdge(nil), in...)
	if len(es) != len(r.Edges) {
		return es
	}
	for a := 0; a < len(r.Edges); {
		b := a + 1
		if k := r.Edges[a].Kind; k == "direct" || k == "ttu" {
			for b < len(r.Edges) && r.Edges[b].Kind == k && r.Edges[b].TS == r.Edges[a].TS {
				b++
			}
		}
		for i := a; i < b; i++ {
			for j := i; j < b; j++ {
				if es[j].GetTo().GetUniqueLabel() == r.Edges[i].To.ID {
					es[i], es[j] = es[j], es[i]
					break
				}
			}
		}
		a = b
	}
	return es
}

// wgMatch pairs reference nodes with library nodes by walking from the labelled nodes along the
// ordered edge lists. It returns the structural differences (C10 oracle).
func wgMatch(g *ref.Graph, wg *graph.WeightedAuthorizationModelGraph) (map[*ref.Node]*graph.WeightedAuthorizationModelNode, []string) {
	match := map[*ref.Node]*graph.WeightedAuthorizationModelNode{}
	used := map[string]bool{}
	var diffs []string
	kindOf := func(n *graph.WeightedAuthorizationModelNode) string {
		switch n.GetNodeType() {
		case graph.SpecificType:
			return "type"
		case graph.SpecificTypeWildcard:
			return "wild"
		case graph.SpecificTypeAndRelation:
			return "rel"
		case graph.OperatorNode:
			// through the library's own constants: a consistent renaming of an operator label is not a violation
			switch n.GetLabel() {
			case graph.UnionOperator:
				return "union"
			case graph.IntersectionOperator:
				return "intersection"
			case graph.ExclusionOperator:
				return "exclusion"
			}
			return "operator?" + n.GetLabel()
		}
		return "?"
	}
	edgeKind := func(e *graph.WeightedAuthorizationModelEdge) string {
		switch e.GetEdgeType() {
		case graph.DirectEdge:
			return "direct"
		case graph.RewriteEdge:
			return "rewrite"
		case graph.TTUEdge:
			return "ttu"
		case graph.ComputedEdge:
			return "computed"
		}
		return "?"
	}
	var walk func(r *ref.Node, n *graph.WeightedAuthorizationModelNode)
	walk = func(r *ref.Node, n *graph.WeightedAuthorizationModelNode) {
		if _, ok := match[r]; ok {
			return
		}
		match[r] = n
		used[n.GetUniqueLabel()] = true
		if kindOf(n) != r.Kind {
			diffs = append(diffs, fmt.Sprintf("node %s: kind ref=%s impl=%s", r.ID, r.Kind, kindOf(n)))
		}
		if !r.IsOp() && (n.GetLabel() != r.ID || n.GetUniqueLabel() != r.ID) {
			diffs = append(diffs, fmt.Sprintf("node %s: labels impl=%q/%q", r.ID, n.GetLabel(), n.GetUniqueLabel()))
		}
		es := wg.GetEdges()[n.GetUniqueLabel()]
		if len(es) != len(r.Edges) {
			diffs = append(diffs, fmt.Sprintf("node %s: %d outgoing edges, reference has %d", r.ID, len(es), len(r.Edges)))
			return
		}
		es = wgAlignEdges(r, es)
		for i, e := range r.Edges {
			ie := es[i]
			if ie.GetFrom() != n {
				diffs = append(diffs, fmt.Sprintf("edge %s[%d]: From is %s", r.ID, i, ie.GetFrom().GetUniqueLabel()))
			}
			if edgeKind(ie) != e.Kind {
				diffs = append(diffs, fmt.Sprintf("edge %s->%s: kind ref=%s impl=%s", r.ID, e.To.ID, e.Kind, edgeKind(ie)))
			}
			if ie.GetTuplesetRelation() != e.TS {
				diffs = append(diffs, fmt.Sprintf("edge %s->%s: tupleset label ref=%q impl=%q", r.ID, e.To.ID, e.TS, ie.GetTuplesetRelation()))
			}
			if e.Kind != "ttu" { // the property does not define conditions of TTU edges
				if strings.Join(ie.GetConditions(), ",") != strings.Join(e.Conds, ",") {
					diffs = append(diffs, fmt.Sprintf("edge %s->%s: conditions ref=%v impl=%v", r.ID, e.To.ID, e.Conds, ie.GetConditions()))
				}
			}
			if e.To.IsOp() {
				if kindOf(ie.GetTo()) != e.To.Kind {
					diffs = append(diffs, fmt.Sprintf("edge %s[%d]: target ref=%s impl=%s", r.ID, i, e.To.ID, ie.GetTo().GetUniqueLabel()))
					continue
				}
				if prev, ok := match[e.To]; ok && prev != ie.GetTo() {
					diffs = append(diffs, fmt.Sprintf("operator %s reached through two different library nodes", e.To.ID))
					continue
				}
				walk(e.To, ie.GetTo())
			} else if ie.GetTo().GetUniqueLabel() != e.To.ID {
				diffs = append(diffs, fmt.Sprintf("edge %s[%d]: target ref=%s impl=%s", r.ID, i, e.To.ID, ie.GetTo().GetUniqueLabel()))
			}
		}
	}
	for _, id := range g.Order {
		r := g.Nodes[id]
		if r.IsOp() {
			continue
		}
		n, ok := wg.GetNodes()[id]
		if !ok {
			diffs = append(diffs, "missing node "+id)
			continue
		}
		if n2, ok2 := wg.GetNodeByID(id); !ok2 || n2 != n {
			diffs = append(diffs, "GetNodeByID disagrees with GetNodes for "+id)
		}
		walk(r, n)
	}
	for id := range wg.GetNodes() {
		if !used[id] {
			diffs = append(diffs, "extra node "+id)
		}
	}
	for id, es := range wg.GetEdges() {
		if !used[id] && len(es) > 0 {
			diffs = append(diffs, "edges from unknown node "+id)
		}
	}
	return match, diffs
}

func wgCompareWeights(g *ref.Graph, wg *graph.WeightedAuthorizationModelGraph, match map[*ref.Node]*graph.WeightedAuthorizationModelNode) []string {
	var diffs []string
	for _, id := range g.Order {
		r := g.Nodes[id]
		n, ok := match[r]
		if !ok {
			continue
		}
		if !r.Terminal() && ref.FmtW(r.W) != ref.FmtW(n.GetWeights()) {
			diffs = append(diffs, fmt.Sprintf("node %s: weights ref=%s impl=%s", r.ID, ref.FmtW(r.W), ref.FmtW(n.GetWeights())))
		}
		es := wgAlignEdges(r, wg.GetEdges()[n.GetUniqueLabel()])
		if len(es) != len(r.Edges) {
			continue
		}
		for i, e := range r.Edges {
			if ref.FmtW(e.W) != ref.FmtW(es[i].GetWeights()) {
				diffs = append(diffs, fmt.Sprintf("edge %s->%s: weights ref=%s impl=%s", r.ID, e.To.ID, ref.FmtW(e.W), ref.FmtW(es[i].GetWeights())))
			}
		}
	}
	return diffs
}

// wgLocalInvariants: oracle-independent invariants of C04 on an accepted graph.
func wgLocalInvariants(wg *graph.WeightedAuthorizationModelGraph) []string {
	var diffs []string
	for id, n := range wg.GetNodes() {
		terminal := n.GetNodeType() == graph.SpecificType || n.GetNodeType() == graph.SpecificTypeWildcard
		if !terminal && len(n.GetWeights()) == 0 {
			diffs = append(diffs, fmt.Sprintf("node %s has an empty weight map", n.GetLabel()))
		}
		for k, v := range n.GetWeights() {
			if strings.HasPrefix(k, "R#") {
				diffs = append(diffs, fmt.Sprintf("node %s exposes cycle placeholder %s", n.GetLabel(), k))
			}
			if v < 1 {
				diffs = append(diffs, fmt.Sprintf("node %s weight %s=%d < 1", n.GetLabel(), k, v))
			}
			if w2, ok := n.GetWeight(k); !ok || w2 != v {
				diffs = append(diffs, fmt.Sprintf("node %s: GetWeight(%s) disagrees with GetWeights", n.GetLabel(), k))
			}
		}
		if _, ok := n.GetWeight("\x00no-such-type"); ok {
			diffs = append(diffs, fmt.Sprintf("node %s: GetWeight reports a weight for a type that is not in GetWeights", n.GetLabel()))
		}
		if es, ok := wg.GetEdgesFromNode(n); ok != (wg.GetEdges()[id] != nil) || len(es) != len(wg.GetEdges()[id]) {
			diffs = append(diffs, fmt.Sprintf("node %s: GetEdgesFromNode disagrees with GetEdges", n.GetLabel()))
		} else {
			for i := range es {
				if es[i] != wg.GetEdges()[id][i] {
					diffs = append(diffs, fmt.Sprintf("node %s: GetEdgesFromNode[%d] is not GetEdges[%d]", n.GetLabel(), i, i))
				}
			}
		}
		for _, e := range wg.GetEdges()[id] {
			for k, v := range e.GetWeights() {
				if strings.HasPrefix(k, "R#") {
					diffs = append(diffs, fmt.Sprintf("edge %s->%s exposes cycle placeholder %s", n.GetLabel(), e.GetTo().GetLabel(), k))
				}
				if w2, ok := e.GetWeight(k); !ok || w2 != v {
					diffs = append(diffs, fmt.Sprintf("edge %s->%s: GetWeight(%s) disagrees with GetWeights", n.GetLabel(), e.GetTo().GetLabel(), k))
				}
			}
			if _, ok := e.GetWeight("\x00no-such-type"); ok {
				diffs = append(diffs, fmt.Sprintf("edge %s->%s: GetWeight reports a weight for a type that is not in GetWeights", n.GetLabel(), e.GetTo().GetLabel()))
			}
			to := e.GetTo()
			want := map[string]int{}
			switch to.GetNodeType() {
			case graph.SpecificType:
				want[to.GetUniqueLabel()] = 1
			case graph.SpecificTypeWildcard:
				want[strings.TrimSuffix(to.GetUniqueLabel(), ":*")] = 1
			default:
				hop := e.GetEdgeType() == graph.TTUEdge || e.GetEdgeType() == graph.DirectEdge
				for k, v := range to.GetWeights() {
					if hop && v != graph.Infinite {
						v++
					}
					want[k] = v
				}
			}
			if ref.FmtW(want) != ref.FmtW(e.GetWeights()) {
				diffs = append(diffs, fmt.Sprintf("edge %s->%s (type %d): weight %s is not target weight %s (+1 on a hop)", n.GetLabel(), to.GetLabel(), e.GetEdgeType(), ref.FmtW(e.GetWeights()), ref.FmtW(want)))
			}
		}
	}
	sort.Strings(diffs)
	return diffs
}

func wgCompareWildcards(g *ref.Graph, wg *graph.WeightedAuthorizationModelGraph, match map[*ref.Node]*graph.WeightedAuthorizationModelNode) []string {
	var diffs []string
	dup := func(l []string) bool {
		seen := map[string]bool{}
		for _, x := range l {
			if seen[x] {
				return true
			}
			seen[x] = true
		}
		return false
	}
	for _, id := range g.Order {
		r := g.Nodes[id]
		n, ok := match[r]
		if !ok {
			continue
		}
		want := ref.ReachWild(r)
		if ref.FmtSet(want) != ref.FmtList(n.GetWildcards()) || dup(n.GetWildcards()) {
			diffs = append(diffs, fmt.Sprintf("node %s: wildcards ref={%s} impl=%v", r.ID, ref.FmtSet(want), n.GetWildcards()))
		}
		es := wgAlignEdges(r, wg.GetEdges()[n.GetUniqueLabel()])
		if len(es) != len(r.Edges) {
			continue
		}
		for i, e := range r.Edges {
			want := ref.ReachWild(e.To)
			if ref.FmtSet(want) != ref.FmtList(es[i].GetWildcards()) || dup(es[i].GetWildcards()) {
				diffs = append(diffs, fmt.Sprintf("edge %s->%s: wildcards ref={%s} impl=%v", r.ID, e.To.ID, ref.FmtSet(want), es[i].GetWildcards()))
			}
		}
	}
	return diffs
}

// wgDump: canonical, ULID-free dump of a library graph (verdict-independent part of C06).
func wgDump(wg *graph.WeightedAuthorizationModelGraph) string {
	var b strings.Builder
	names := map[string]string{}
	ids := []string{}
	for id, n := range wg.GetNodes() {
		if n.GetNodeType() != graph.OperatorNode {
			ids = append(ids, id)
			names[id] = id
		}
	}
	sort.Strings(ids)
	var dumpNode func(id string)
	dumpNode = func(id string) {
		n := wg.GetNodes()[id]
		fmt.Fprintf(&b, "N %s t=%d w=%s wc={%s}\n", names[id], n.GetNodeType(), ref.FmtW(n.GetWeights()), ref.FmtList(n.GetWildcards()))
		for i, e := range wg.GetEdges()[id] {
			to := e.GetTo()
			tid := to.GetUniqueLabel()
			fresh := false
			if to.GetNodeType() == graph.OperatorNode {
				if _, ok := names[tid]; !ok {
					names[tid] = fmt.Sprintf("%s/%d:%s", names[id], i, to.GetLabel())
					fresh = true
				}
			}
			fmt.Fprintf(&b, "  E %s -> %s k=%d ts=%q c=%v w=%s wc={%s}\n", names[id], names[tid], e.GetEdgeType(), e.GetTuplesetRelation(), e.GetConditions(), ref.FmtW(e.GetWeights()), ref.FmtList(e.GetWildcards()))
			if fresh {
				dumpNode(tid)
			}
		}
	}
	for _, id := range ids {
		dumpNode(id)
	}
	fmt.Fprintf(&b, "nodes=%d\n", len(wg.GetNodes()))
	return b.String()
}

// wgNonTerminal returns the reference ids of nodes the DFS actually starts work from.
func wgNonTerminal(g *ref.Graph) []string {
	var ids []string
	for _, id := range g.Order {
		if !g.Nodes[id].Terminal() {
			ids = append(ids, id)
		}
	}
	sort.Strings(ids)
	return ids
}

func permutations(xs []string, limit int) [][]string {
	var out [][]string
	var rec func(k int)
	a := append([]string{}, xs...)
	rec = func(k int) {
		if len(out) >= limit {
			return
		}
		if k == len(a) {
			out = append(out, append([]string{}, a...))
			return
		}
		for i := k; i < len(a); i++ {
			a[k], a[i] = a[i], a[k]
			rec(k + 1)
			a[k], a[i] = a[i], a[k]
		}
	}
	rec(0)
	return out
}

// wgDrawOrders chooses hook orders: all permutations of the non-terminal nodes when there are at
// most maxExh of them, otherwise nRand random permutations (rapid draws, so they shrink and replay).
func wgDrawOrders(t *rapid.T, g *ref.Graph, maxExh, nRand int) [][]string {
	ids := wgNonTerminal(g)
	if len(ids) == 0 {
		return nil
	}
	if len(ids) <= maxExh {
		return permutations(ids, 1000)
	}
	var out [][]string
	// always include sorted and reverse-sorted
	out = append(out, append([]string{}, ids...))
	rev := append([]string{}, ids...)
	for i, j := 0, len(rev)-1; i < j; i, j = i+1, j-1 {
		rev[i], rev[j] = rev[j], rev[i]
	}
	out = append(out, rev)
	for i := 0; i < nRand; i++ {
		out = append(out, rapid.Permutation(ids).Draw(t, "order"))
	}
	return out
}

type wgOpts struct {
	RealBuilds int
}

// wgEvaluate runs every build of one model and classifies all deviations.
func wgEvaluate(in wgInput, o wgOpts) *wgResult {
	res := &wgResult{ErrKinds: map[string]int{}}
	m := in.Model
	pm := m.Proto()
	before := proto.Clone(pm)

	gSpec := ref.Build(m)
	res.G = gSpec
	res.Reason = gSpec.Weights(ref.Quirks{})
	res.SpecOK = res.Reason == ""
	if res.SpecOK && len(gSpec.Nodes) <= 30 {
		// oracle self-check (brute-force walks); a disagreement is a defect of the reference, not of the library
		if msg := gSpec.CheckWalks(); msg != "" {
			res.OracleBug = msg
		}
	}

	// as-implemented variants (footprints of recorded findings), built lazily
	type variant struct {
		id     string
		q      ref.Quirks
		g      *ref.Graph
		reason string
	}
	var variants []*variant
	getVariants := func() []*variant {
		if variants != nil {
			return variants
		}
		for _, v := range []*variant{
			{id: "W1", q: ref.Quirks{Flatten: true}},
			{id: "W2", q: ref.Quirks{Restart: true}},
			{id: "W1+W2", q: ref.Quirks{Flatten: true, Restart: true}},
		} {
			v.g = ref.Build(m)
			v.reason = v.g.Weights(v.q)
			variants = append(variants, v)
		}
		return variants
	}
	trigger := func() bool {
		if gSpec.Err != "" {
			return false
		}
		if gSpec.W1Trigger() {
			return true
		}
		for _, v := range getVariants() {
			if v.g.W2Trigger() {
				return true
			}
		}
		return gSpec.W2Trigger()
	}
	listed := func(id string, aspect string) bool {
		prop := map[string]string{"weights": "C04", "verdict": "C05", "determinism": "C06"}[aspect]
		for _, part := range strings.Split(id, "+") {
			if !ev.IsKnown(prop, part) {
				return false
			}
		}
		return true
	}

	add := func(aspect, what string) {
		res.Findings = append(res.Findings, wgFinding{Aspect: aspect, What: what})
	}
	addKnown := func(aspect, what, known string) {
		res.Findings = append(res.Findings, wgFinding{Aspect: aspect, What: what, Known: known})
	}

	dumps := map[string]string{} // dump -> first label
	checkBuild := func(label string, wg *graph.WeightedAuthorizationModelGraph, err error) {
		res.Orders++
		if err != nil {
			res.LibErr++
			k := errKind(err)
			res.ErrKinds[k]++
			if k == "other" {
				add("verdict", fmt.Sprintf("%s: error does not wrap ErrModelCycle/ErrTupleCycle/ErrInvalidModel: %v", label, err))
			}
			if wg != nil {
				add("verdict", label+": a graph was returned together with an error")
			}
		} else {
			res.LibOK++
			if wg == nil {
				add("verdict", label+": nil graph and nil error")
				return
			}
		}
		libOK := err == nil
		// --- specification
		var specDiffs []string
		aspect := "verdict"
		if libOK != res.SpecOK {
			if libOK {
				specDiffs = []string{fmt.Sprintf("%s: accepted although the model is not well-founded (%s)", label, res.Reason)}
			} else {
				specDiffs = []string{fmt.Sprintf("%s: rejected (%v) although the model is well-founded", label, err)}
			}
		} else if libOK {
			aspect = "weights"
			match, sd := wgMatch(gSpec, wg)
			for _, d := range sd {
				add("structure", label+": "+d)
			}
			for _, d := range wgCompareWeights(gSpec, wg, match) {
				specDiffs = append(specDiffs, label+": "+d)
			}
			for _, d := range wgCompareWildcards(gSpec, wg, match) {
				add("wildcards", label+": "+d)
			}
		}
		if libOK {
			// "whenever the builder accepts a model": the oracle-free invariants of C04 (no empty weight map, no visible
			// placeholder, edge weight = target weight + hop) hold for every accepted graph, also one that should not
			// have been accepted; they are findings of their own, not subject to the known-finding explanation below
			for _, d := range wgLocalInvariants(wg) {
				add("weights", label+": invariant: "+d)
			}
			d := wgDump(wg)
			if _, ok := dumps[d]; !ok {
				dumps[d] = label
			}
			if res.Dump == "" {
				res.Dump = d
			}
		}
		if len(specDiffs) == 0 {
			return
		}
		// --- does the exact footprint of a listed finding explain it?
		if trigger() {
			for _, v := range getVariants() {
				if !listed(v.id, aspect) {
					continue
				}
				if libOK != (v.reason == "") {
					continue
				}
				if libOK {
					match, sd := wgMatch(v.g, wg)
					if len(sd) > 0 || len(wgCompareWeights(v.g, wg, match)) > 0 {
						continue
					}
					bad := false
					for _, d := range wgLocalInvariants(wg) {
						_ = d
						bad = true
					}
					if bad {
						continue
					}
					// a structural/wildcard comparison against the spec graph did not happen on the
					// verdict path; do it against the variant (same structure)
					if aspect == "verdict" {
						for _, d := range wgCompareWildcards(v.g, wg, match) {
							add("wildcards", label+": "+d)
						}
					}
				}
				addKnown(aspect, specDiffs[0], v.id)
				return
			}
		}
		for _, d := range specDiffs {
			add(aspect, d)
		}
	}

	// every library call runs under recover: a panic is a finding of its own (aspect "panic", relevant to every property
	// that observes Build), recorded with the model like any other finding
	safeBuild := func(label string, b *graph.WeightedAuthorizationModelGraphBuilder, pm *openfgav1.AuthorizationModel) (wg *graph.WeightedAuthorizationModelGraph, err error, ok bool) {
		defer func() {
			if r := recover(); r != nil {
				add("panic", fmt.Sprintf("%s: Build panicked: %v", label, r))
				wg, err, ok = nil, nil, false
			}
		}()
		wg, err = b.Build(pm)
		return wg, err, true
	}
	for i := 0; i < o.RealBuilds; i++ {
		label := fmt.Sprintf("Build#%d", i)
		if wg, err, ok := safeBuild(label, graph.NewWeightedAuthorizationModelGraphBuilder(), pm); ok {
			checkBuild(label, wg, err)
		}
	}
	if in.Prior != nil {
		b := graph.NewWeightedAuthorizationModelGraphBuilder()
		_, _, _ = safeBuild("Build(prior model)", b, in.Prior.Proto())
		if wg, err, ok := safeBuild("Build(with a builder that built another model before)", b, pm); ok {
			checkBuild("Build(with a builder that built another model before)", wg, err)
		}
		if in.Shared {
			sb := graph.NewWeightedAuthorizationModelGraphBuilder()
			ppm := in.Prior.Proto()
			type out struct {
				wg  *graph.WeightedAuthorizationModelGraph
				err error
				pan string
			}
			outs := make([]out, 4)
			var wgrp sync.WaitGroup
			start := make(chan struct{}) // all four begin together, so that their builds overlap
			for i := range outs {
				wgrp.Add(1)
				go func(i int) {
					defer wgrp.Done()
					defer func() {
						if r := recover(); r != nil {
							outs[i].pan = fmt.Sprint(r)
						}
					}()
					<-start
					for k := 0; k < 12; k++ {
						if i%2 == 0 {
							outs[i].wg, outs[i].err = sb.Build(pm)
						} else {
							_, _ = sb.Build(ppm)
						}
					}
				}(i)
			}
			close(start)
			wgrp.Wait()
			for i := range outs {
				if outs[i].pan != "" {
					add("panic", fmt.Sprintf("Build(one builder value shared by 4 goroutines, goroutine %d) panicked: %s", i, outs[i].pan))
				} else if i%2 == 0 {
					checkBuild(fmt.Sprintf("Build(one builder value shared by 4 goroutines, goroutine %d)", i), outs[i].wg, outs[i].err)
				}
			}
		}
	}
	if wgHooks && len(in.Orders) > 0 && gSpec.Err == "" {
		for oi, ord := range in.Orders {
			wg, err := wgBuildUnweighted(pm)
			if err != nil {
				res.HookError = "unweighted build failed although the reference found no construction error: " + err.Error()
				add("verdict", res.HookError)
				break
			}
			match, sd := wgMatch(gSpec, wg)
			if len(sd) > 0 {
				for _, d := range sd {
					add("structure", "unweighted: "+d)
				}
				break
			}
			lib := make([]string, 0, len(ord))
			for _, id := range ord {
				if r, ok := gSpec.Nodes[id]; ok {
					if n, ok := match[r]; ok {
						lib = append(lib, n.GetUniqueLabel())
					}
				}
			}
			err = wgAssignInOrder(wg, lib)
			if err != nil {
				checkBuild(fmt.Sprintf("order#%d%v", oi, ord), nil, err)
			} else {
				checkBuild(fmt.Sprintf("order#%d%v", oi, ord), wg, nil)
			}
		}
	}
	if res.LibOK > 0 && res.LibErr > 0 {
		f := wgFinding{Aspect: "determinism", What: fmt.Sprintf("verdict depends on the traversal order: accepted %d times, rejected %d times (%v)", res.LibOK, res.LibErr, res.ErrKinds)}
		res.Findings = append(res.Findings, f)
	}
	if len(dumps) > 1 {
		var labels []string
		for _, l := range dumps {
			labels = append(labels, l)
		}
		sort.Strings(labels)
		var ds []string
		for d := range dumps {
			ds = append(ds, d)
		}
		sort.Strings(ds)
		f := wgFinding{Aspect: "determinism", What: fmt.Sprintf("accepted builds differ (%d distinct graphs; first seen at %v): %s", len(dumps), labels, firstDiffLine(ds[0], ds[1]))}
		res.Findings = append(res.Findings, f)
	}
	res.Accepted = res.LibErr == 0 && res.LibOK > 0
	if !proto.Equal(before, pm) {
		add("purity", "Build modified the model it was given")
	}
	return res
}

func firstDiffLine(a, b string) string {
	la, lb := strings.Split(a, "\n"), strings.Split(b, "\n")
	for i := 0; i < len(la) && i < len(lb); i++ {
		if la[i] != lb[i] {
			return fmt.Sprintf("%q vs %q", la[i], lb[i])
		}
	}
	return fmt.Sprintf("lengths %d vs %d lines", len(la), len(lb))
}

// wgKnownDeterminism: a determinism finding is explained by a listed finding only when every
// individual build was already explained by it (exact footprints); determinism findings
// themselves are never "known".
var _ = openfgav1.AuthorizationModel{}

type wgClassStats struct {
	Cycle, TupleCycle, Ops, Depth2, W1, MultiTTU, Dedup, Wild int
}

func wgClasses(res *wgResult, m *gen.Model) []string {
	var cls []string
	g := res.G
	if m.Scaled != "" {
		cls = append(cls, "model:scaled", "model:scaled:"+m.Scaled)
	}
	if m.SparseMeta {
		cls = append(cls, "model:sparse-metadata")
	}
	if res.SpecOK {
		cls = append(cls, "spec:accepted")
	} else {
		cls = append(cls, "spec:rejected:"+res.Reason)
	}
	if g.Err == "" {
		if g.HasAnyCycle() {
			cls = append(cls, "model:has-cycle")
			if res.SpecOK {
				cls = append(cls, "model:accepted-with-tuple-cycle")
			}
		}
		if g.W1Trigger() {
			cls = append(cls, "model:multi-edge-operand")
		}
		if g.MultiParentTTU > 0 {
			cls = append(cls, "model:multi-parent-ttu")
		}
		if g.DedupedEdges > 0 {
			cls = append(cls, "model:deduplicated-edge")
		}
	}
	ops, wild := 0, 0
	for _, t := range m.Types {
		for _, r := range t.Rels {
			ops += r.Rw.CountOps()
			for _, x := range r.Restr {
				if x.Wild {
					wild++
				}
			}
		}
	}
	if ops > 0 {
		cls = append(cls, "model:has-operator")
	}
	twins := false
	for _, t := range m.Types {
		for _, r := range t.Rels {
			r.Rw.Walk(func(x *gen.Rewrite, _ int) {
				seen := map[string]bool{}
				for _, k := range x.Kids {
					if k.IsOp() {
						if seen[k.Kind] {
							twins = true
						}
						seen[k.Kind] = true
					}
				}
			})
		}
	}
	if twins {
		cls = append(cls, "model:same-kind-sibling-operators")
	}
	positional := false
	for _, t := range m.Types {
		byName := map[string]*gen.Rewrite{}
		for _, r := range t.Rels {
			byName[r.Name] = r.Rw
		}
		for _, r := range t.Rels {
			i := strings.LastIndex(r.Name, ".")
			if i <= 0 || i != len(r.Name)-2 || r.Name[i+1] < '0' || r.Name[i+1] > '9' || !r.Rw.IsOp() {
				continue
			}
			if base := byName[r.Name[:i]]; base != nil && base.IsOp() {
				if pos := int(r.Name[i+1] - '0'); pos < len(base.Kids) && base.Kids[pos].IsOp() && base.Kids[pos].Kind == r.Rw.Kind {
					positional = true
				}
			}
		}
	}
	if positional {
		cls = append(cls, "names:relation-named-like-a-nested-operator-position")
	}
	if wild > 0 {
		cls = append(cls, "model:has-wildcard")
	}
	if wild >= 2 {
		cls = append(cls, "model:two-or-more-wildcards")
	}
	return cls
}

func wgHasInfinite(res *wgResult) bool {
	for _, n := range res.G.Nodes {
		for _, v := range n.W {
			if v == ref.Infinite {
				return true
			}
		}
	}
	return false
}

func wgMaxFinite(res *wgResult) int {
	mx := 0
	for _, n := range res.G.Nodes {
		for _, v := range n.W {
			if v != ref.Infinite && v > mx {
				mx = v
			}
		}
	}
	return mx
}

func refBuildOnly(m *gen.Model) *ref.Graph { return ref.Build(m) }

// wgAsImplementedMatches: does the library's result for m equal, exactly, what the full
// as-implemented reference (W1 and W2 footprints switched on) predicts? Also reports whether the
// W2 trigger (an intersection whose running key set empties before its last operand) is present.
func wgAsImplementedMatches(m *gen.Model) (matches, w2 bool) {
	g := ref.Build(m)
	reason := g.Weights(ref.Quirks{Flatten: true, Restart: true})
	w2 = g.Err == "" && g.W2Trigger()
	wg, err := graph.NewWeightedAuthorizationModelGraphBuilder().Build(m.Proto())
	if (err == nil) != (reason == "") {
		return false, w2
	}
	if err != nil {
		return true, w2
	}
	match, sd := wgMatch(g, wg)
	if len(sd) > 0 || len(wgCompareWeights(g, wg, match)) > 0 {
		return false, w2
	}
	return true, w2
}

// ---- bounded exhaustive enumeration of a small universe ---------------------------------------
//
// Universe: terminal type user; object type doc with the tupleset relation p: [doc] and two relations
// a and b, each defined by one of 8 leaf forms or a binary operator over two leaf forms:
//   this with [user] / [user:*] / [doc#a] / [user, doc#b], computed a, computed b, a from p, b from p
// (8 + 3*8*8 = 200 definitions per relation, 40 000 models). Every model is checked under ALL
// depth-first start orders of its non-terminal nodes.

type smallLeaf struct {
	rw    *gen.Rewrite
	restr []gen.Restriction
}

func smallLeaves() []smallLeaf {
	th := func(r ...gen.Restriction) smallLeaf { return smallLeaf{&gen.Rewrite{Kind: gen.This}, r} }
	return []smallLeaf{
		th(gen.Restriction{Type: "user"}),
		th(gen.Restriction{Type: "user", Wild: true}),
		th(gen.Restriction{Type: "doc", Rel: "a"}),
		th(gen.Restriction{Type: "user"}, gen.Restriction{Type: "doc", Rel: "b"}),
		{&gen.Rewrite{Kind: gen.Computed, Rel: "a"}, nil},
		{&gen.Rewrite{Kind: gen.Computed, Rel: "b"}, nil},
		{&gen.Rewrite{Kind: gen.TTU, Rel: "a", Tupleset: "p"}, nil},
		{&gen.Rewrite{Kind: gen.TTU, Rel: "b", Tupleset: "p"}, nil},
	}
}

type smallDef struct {
	rw    *gen.Rewrite
	restr []gen.Restriction
}

func smallDefs() []smallDef {
	ls := smallLeaves()
	var out []smallDef
	for _, l := range ls {
		out = append(out, smallDef{l.rw, l.restr})
	}
	for _, k := range []string{gen.Union, gen.Intersection, gen.Difference} {
		for _, x := range ls {
			for _, y := range ls {
				// a relation has one restriction list: when both operands are direct assignments they share x's
				restr := x.restr
				if restr == nil {
					restr = y.restr
				}
				out = append(out, smallDef{&gen.Rewrite{Kind: k, Kids: []*gen.Rewrite{x.rw.Clone(), y.rw.Clone()}}, restr})
			}
		}
	}
	return out
}

// wgSmallModel returns model number idx of the small universe (0 <= idx < wgSmallCount()).
func wgSmallModel(defs []smallDef, idx int) *gen.Model {
	da, db := defs[idx/len(defs)], defs[idx%len(defs)]
	return &gen.Model{Schema: "1.1", Types: []gen.TypeDef{
		{Name: "user"},
		{Name: "doc", Rels: []gen.Relation{
			{Name: "p", Rw: &gen.Rewrite{Kind: gen.This}, Restr: []gen.Restriction{{Type: "doc"}}},
			{Name: "a", Rw: da.rw.Clone(), Restr: append([]gen.Restriction(nil), da.restr...)},
			{Name: "b", Rw: db.rw.Clone(), Restr: append([]gen.Restriction(nil), db.restr...)},
		}},
	}}
}

// ---- second bounded universe: nested operators of the same kind ---------------------------------
//
// user, emp; doc with leaf relations u: [user], e: [emp], m: [user, emp], w: [user:*] and the relation
//
//	twins   (index <  wgTwinCount):  x = OP0( OP1(l1, l2), OP1(l3, l4) )
//	cousins (index >= wgTwinCount):  x = OP0( OPa(OPc(l1, l2), l3), OPb(OPc(l4, l5), l6) ), leaves from a 3-letter alphabet
//
// with OP* over {union, intersection, exclusion} and the leaves over the four (three) leaf relations: sibling and
// cousin occurrences of one operator kind are distinct nodes with their own operands, whatever identity scheme the
// builder uses for operator nodes; whether the intersection operands share a type decides the verdict.
var wgNestOps = []string{gen.Union, gen.Intersection, gen.Difference}
var wgNestLeaves = []string{"u", "e", "m", "w"}

const wgTwinCount = 3 * 3 * 4 * 4 * 4 * 4                   // 2304
const wgCousinCount = 3 * 3 * 3 * 3 * 3 * 3 * 3 * 3 * 3 * 3 // 59049 (3^4 operator choices x 3^6 leaves)

const wgMixedCount = 2 * 3 * 3 * 729 // 13122: x = OP0(OP1(OPk(l1,l2), l3), l4, OPk(l5,l6)), OP0 with three operands
const wgObserverCount = 36 * 36 * 4  // 5184: a, b unions of three leaves that may form cycles; c observes a through a doubled operand

func wgNestedCount() int { return wgTwinCount + wgCousinCount + wgMixedCount + wgObserverCount }

// wgObserverModel: doc with p: [doc]; a = union(x1, x2, x3) with x1 in {[user], b from p, b, a from p} and x2, x3 in
// {b from p, b, a from p}; b symmetrically; c in {a or a, a and a, [user] or a or a, (a or a) but not b}. Cycles of every
// kind between a and b (tuple cycles, rewrite-only cycles, mixed) observed through parallel edges from outside the cycle.
func wgObserverModel(idx int) *gen.Model {
	d := func(n int) int { v := idx % n; idx /= n; return v }
	leaf := func(code int, self, other string) *gen.Rewrite {
		switch code {
		case 0:
			return &gen.Rewrite{Kind: gen.This}
		case 1:
			return &gen.Rewrite{Kind: gen.TTU, Rel: other, Tupleset: "p"}
		case 2:
			return &gen.Rewrite{Kind: gen.Computed, Rel: other}
		}
		return &gen.Rewrite{Kind: gen.TTU, Rel: self, Tupleset: "p"}
	}
	def := func(self, other string) gen.Relation {
		x1, x2, x3 := d(4), 1+d(3), 1+d(3)
		r := gen.Relation{Name: self, Rw: &gen.Rewrite{Kind: gen.Union, Kids: []*gen.Rewrite{leaf(x1, self, other), leaf(x2, self, other), leaf(x3, self, other)}}}
		if x1 == 0 {
			r.Restr = []gen.Restriction{{Type: "user"}}
		}
		return r
	}
	a, b := def("a", "b"), def("b", "a")
	ca := func() *gen.Rewrite { return &gen.Rewrite{Kind: gen.Computed, Rel: "a"} }
	var c gen.Relation
	switch d(4) {
	case 0:
		c = gen.Relation{Name: "c", Rw: &gen.Rewrite{Kind: gen.Union, Kids: []*gen.Rewrite{ca(), ca()}}}
	case 1:
		c = gen.Relation{Name: "c", Rw: &gen.Rewrite{Kind: gen.Intersection, Kids: []*gen.Rewrite{ca(), ca()}}}
	case 2:
		c = gen.Relation{Name: "c", Rw: &gen.Rewrite{Kind: gen.Union, Kids: []*gen.Rewrite{{Kind: gen.This}, ca(), ca()}}, Restr: []gen.Restriction{{Type: "user"}}}
	default:
		c = gen.Relation{Name: "c", Rw: &gen.Rewrite{Kind: gen.Difference, Kids: []*gen.Rewrite{{Kind: gen.Union, Kids: []*gen.Rewrite{ca(), ca()}}, {Kind: gen.Computed, Rel: "b"}}}}
	}
	return &gen.Model{Schema: "1.1", Types: []gen.TypeDef{{Name: "user"}, {Name: "doc", Rels: []gen.Relation{
		{Name: "p", Rw: &gen.Rewrite{Kind: gen.This}, Restr: []gen.Restriction{{Type: "doc"}}}, a, b, c}}}}
}

func wgNestedModel(idx int) *gen.Model {
	leaf := func(name string) *gen.Rewrite { return &gen.Rewrite{Kind: gen.Computed, Rel: name} }
	op := func(kind string, kids ...*gen.Rewrite) *gen.Rewrite { return &gen.Rewrite{Kind: kind, Kids: kids} }
	if idx >= wgTwinCount+wgCousinCount+wgMixedCount {
		return wgObserverModel(idx - wgTwinCount - wgCousinCount - wgMixedCount)
	}
	var x *gen.Rewrite
	if idx >= wgTwinCount+wgCousinCount {
		idx -= wgTwinCount + wgCousinCount
		d := func(n int) int { v := idx % n; idx /= n; return v }
		op0, op1, opk := wgNestOps[d(2)], wgNestOps[d(3)], wgNestOps[d(3)]
		var l []string
		for i := 0; i < 6; i++ {
			l = append(l, wgNestLeaves[d(3)])
		}
		x = op(op0, op(op1, op(opk, leaf(l[0]), leaf(l[1])), leaf(l[2])), leaf(l[3]), op(opk, leaf(l[4]), leaf(l[5])))
	} else if idx < wgTwinCount {
		d := func(n int) int { v := idx % n; idx /= n; return v }
		op0, op1 := wgNestOps[d(3)], wgNestOps[d(3)]
		l := []string{wgNestLeaves[d(4)], wgNestLeaves[d(4)], wgNestLeaves[d(4)], wgNestLeaves[d(4)]}
		x = op(op0, op(op1, leaf(l[0]), leaf(l[1])), op(op1, leaf(l[2]), leaf(l[3])))
	} else {
		idx -= wgTwinCount
		d := func(n int) int { v := idx % n; idx /= n; return v }
		op0, opa, opb, opc := wgNestOps[d(3)], wgNestOps[d(3)], wgNestOps[d(3)], wgNestOps[d(3)]
		var l []string
		for i := 0; i < 6; i++ {
			l = append(l, wgNestLeaves[d(3)])
		}
		x = op(op0, op(opa, op(opc, leaf(l[0]), leaf(l[1])), leaf(l[2])), op(opb, op(opc, leaf(l[3]), leaf(l[4])), leaf(l[5])))
	}
	this := func(restr ...gen.Restriction) (*gen.Rewrite, []gen.Restriction) {
		return &gen.Rewrite{Kind: gen.This}, restr
	}
	rel := func(name string, rw *gen.Rewrite, restr []gen.Restriction) gen.Relation {
		return gen.Relation{Name: name, Rw: rw, Restr: restr}
	}
	ru, tu := this(gen.Restriction{Type: "user"})
	re, te := this(gen.Restriction{Type: "emp"})
	rm, tm := this(gen.Restriction{Type: "user"}, gen.Restriction{Type: "emp"})
	rw, tw := this(gen.Restriction{Type: "user", Wild: true})
	return &gen.Model{Schema: "1.1", Types: []gen.TypeDef{
		{Name: "user"}, {Name: "emp"},
		{Name: "doc", Rels: []gen.Relation{rel("u", ru, tu), rel("e", re, te), rel("m", rm, tm), rel("w", rw, tw), rel("x", x, nil)}},
	}}
}

// wgNamePairModels: a small deterministic family around special name pairs (gen names.go) and long structures.
//   - two object types A, B (a special pair) with one relation m each, on interlocking tuple cycles:
//     A#m: [user, A#m, B#m], B#m: [emp, B#m, A#m]
//   - one object type with two relations a, b (a special pair) on interlocking tuple cycles
//   - chains of 65..1500 computed usersets ending in [user]; rings of 3..300 relations linked by computed usersets,
//     by tuple-to-usersets, or by both
//
// Every model is evaluated like a generated one (real builds, hook orders, reference weights and verdict).
func wgNamePairModels() []*gen.Model {
	var out []*gen.Model
	pairs := [][2]string{{"member", "members"}, {"member", "member_of"}, {"r1", "r10"}, {"group", "subgroup"}, {"team", "subteam"}, {"reader", "proofreader"},
		{"document_viewer", "document_editor"}, {"team1", "team01"}, {"viewer", "Viewer"}, {"team-", "team"}, {"a--b", "a-b"}, {"Repo", "Release"}, {"R", "RR"}, {"ab", "abc"}, {"x.y", "x.y.z"}}
	for i, tw := range gen.HashTwins() {
		if i%12 < 2 { // two pairs per hash function
			pairs = append(pairs, tw)
		}
	}
	for _, p := range pairs {
		for _, sw := range []bool{false, true} {
			a, b := p[0], p[1]
			if sw {
				a, b = b, a
			}
			// two types, one relation name
			out = append(out, &gen.Model{Schema: "1.1", Scaled: "name-pair-family", Types: []gen.TypeDef{{Name: "user"}, {Name: "emp"},
				{Name: a, Rels: []gen.Relation{{Name: "m", Rw: &gen.Rewrite{Kind: gen.This}, Restr: []gen.Restriction{{Type: "user"}, {Type: a, Rel: "m"}, {Type: b, Rel: "m"}}}}},
				{Name: b, Rels: []gen.Relation{{Name: "m", Rw: &gen.Rewrite{Kind: gen.This}, Restr: []gen.Restriction{{Type: "emp"}, {Type: b, Rel: "m"}, {Type: a, Rel: "m"}}}}}}})
			// one type, two relation names
			out = append(out, &gen.Model{Schema: "1.1", Scaled: "name-pair-family", Types: []gen.TypeDef{{Name: "user"}, {Name: "emp"},
				{Name: "doc", Rels: []gen.Relation{
					{Name: a, Rw: &gen.Rewrite{Kind: gen.This}, Restr: []gen.Restriction{{Type: "user"}, {Type: "doc", Rel: a}, {Type: "doc", Rel: b}}},
					{Name: b, Rw: &gen.Rewrite{Kind: gen.This}, Restr: []gen.Restriction{{Type: "emp", Wild: true}, {Type: "doc", Rel: b}, {Type: "doc", Rel: a}}}}}}})
		}
	}
	for _, p := range pairs {
		for _, sw := range []bool{false, true} {
			a, b := p[0], p[1]
			if sw {
				a, b = b, a
			}
			// relation a has no terminal type of its own: everything it reaches, it reaches through the cycles
			out = append(out, &gen.Model{Schema: "1.1", Scaled: "name-pair-family", Types: []gen.TypeDef{{Name: "user"},
				{Name: "doc", Rels: []gen.Relation{
					{Name: a, Rw: &gen.Rewrite{Kind: gen.This}, Restr: []gen.Restriction{{Type: "doc", Rel: a}, {Type: "doc", Rel: b}}},
					{Name: b, Rw: &gen.Rewrite{Kind: gen.This}, Restr: []gen.Restriction{{Type: "user"}, {Type: "doc", Rel: b}, {Type: "doc", Rel: a}}}}}}})
			// two tuple-to-userset operands of one union whose target and tupleset relations are each other's
			out = append(out, &gen.Model{Schema: "1.1", Scaled: "name-pair-family", Types: []gen.TypeDef{{Name: "user"},
				{Name: "doc", Rels: []gen.Relation{
					{Name: a, Rw: &gen.Rewrite{Kind: gen.This}, Restr: []gen.Restriction{{Type: "doc"}}},
					{Name: b, Rw: &gen.Rewrite{Kind: gen.This}, Restr: []gen.Restriction{{Type: "doc"}}},
					{Name: "mir", Rw: &gen.Rewrite{Kind: gen.Union, Kids: []*gen.Rewrite{{Kind: gen.This}, {Kind: gen.TTU, Rel: a, Tupleset: b}, {Kind: gen.TTU, Rel: b, Tupleset: a}}}, Restr: []gen.Restriction{{Type: "user"}}}}}}})
		}
	}
	for _, n := range []int{65, 130, 257, 1030, 1500} {
		td := gen.TypeDef{Name: "doc"}
		for i := 0; i < n; i++ {
			r := gen.Relation{Name: fmt.Sprintf("level%04d", i)}
			if i == n-1 {
				r.Rw, r.Restr = &gen.Rewrite{Kind: gen.This}, []gen.Restriction{{Type: "user"}}
			} else {
				r.Rw = &gen.Rewrite{Kind: gen.Computed, Rel: fmt.Sprintf("level%04d", i+1)}
			}
			td.Rels = append(td.Rels, r)
		}
		out = append(out, &gen.Model{Schema: "1.1", Scaled: "chain-family", Types: []gen.TypeDef{{Name: "user"}, td}})
	}
	for _, n := range []int{3, 64, 129, 130, 257, 300} {
		for mode := 0; mode < 4; mode++ {
			td := gen.TypeDef{Name: "doc", Rels: []gen.Relation{{Name: "p", Rw: &gen.Rewrite{Kind: gen.This}, Restr: []gen.Restriction{{Type: "doc"}}}}}
			nm := func(i int) string { return fmt.Sprintf("rg%03d", i%n) }
			for i := 0; i < n; i++ {
				u := &gen.Rewrite{Kind: gen.Union, Kids: []*gen.Rewrite{{Kind: gen.This}}}
				comp := &gen.Rewrite{Kind: gen.Computed, Rel: nm(i + 1)}
				ttu := &gen.Rewrite{Kind: gen.TTU, Rel: nm(i + 1), Tupleset: "p"}
				switch {
				case mode == 0:
					u.Kids = append(u.Kids, ttu, comp)
				case mode == 1, mode == 2 && i != n/2:
					u.Kids = append(u.Kids, comp)
				default:
					u.Kids = append(u.Kids, ttu)
				}
				td.Rels = append(td.Rels, gen.Relation{Name: nm(i), Rw: u, Restr: []gen.Restriction{{Type: "user"}}})
			}
			out = append(out, &gen.Model{Schema: "1.1", Scaled: "ring-family", Types: []gen.TypeDef{{Name: "user"}, td}})
		}
	}
	return out
}
