package checks

// C08 — no public entry point panics or hangs on any input; work is bounded by a quadratic
// function of the input length; a syntax error is always reported through the returned error.

import (
	"fmt"
	"math"
	"runtime/debug"
	"strings"
	"sync"
	"testing"
	"time"

	openfgav1 "github.com/openfga/api/proto/openfga/v1"
	"github.com/openfga/language/pkg/go/graph"
	"github.com/openfga/language/pkg/go/transformer"
	"github.com/openfga/language/pkg/go/utils"
	"github.com/openfga/language/pkg/go/validation"
	"google.golang.org/protobuf/encoding/protojson"
	"google.golang.org/protobuf/proto"
	"pgregory.net/rapid"

	"verif/internal/ev"
	"verif/internal/g4"
	"verif/internal/gen"
)

type c08Input struct {
	Kind  string   `json:"kind"` // dsl | json | modfile | merge | proto | scaling
	Text  string   `json:"text,omitempty"`
	More  []string `json:"more,omitempty"`
	Proto string   `json:"proto_json,omitempty"` // protojson of a degenerate model
	// scaling
	Op     string `json:"op,omitempty"`
	Family string `json:"family,omitempty"`
	Seed   string `json:"seed_doc,omitempty"`
	At     int    `json:"at,omitempty"`
	Pump   string `json:"pump,omitempty"`
	N      int    `json:"n,omitempty"`
}

const c08Stall = 30 * time.Second

// guarded runs f under recover and a watchdog. It returns a violation text or "".
func guarded(name string, size int, f func()) string {
	done := make(chan string, 1)
	go func() {
		defer func() {
			if r := recover(); r != nil {
				// first frame inside the library, for the report
				where := ""
				for _, l := range strings.Split(string(debug.Stack()), "\n") {
					if strings.Contains(l, "/pkg/go/") && !strings.Contains(l, "/verif/") {
						where = strings.TrimSpace(l)
						if i := strings.Index(where, " +0x"); i > 0 {
							where = where[:i]
						}
						break
					}
				}
				done <- fmt.Sprintf("%s panicked: %v (at %s)", name, r, where)
				return
			}
			done <- ""
		}()
		f()
	}()
	select {
	case msg := <-done:
		return msg
	case <-time.After(c08Stall):
		return fmt.Sprintf("%s did not return within %s on an input of %d bytes", name, c08Stall, size)
	}
}

// c08DSL: totality of the DSL entry points plus the error-reporting oracle.
func c08DSL(text string) string {
	var pm *openfgav1.AuthorizationModel
	var err error
	if msg := guarded("TransformDSLToProto", len(text), func() { pm, err = transformer.TransformDSLToProto(text) }); msg != "" {
		return msg
	}
	if (pm == nil) == (err == nil) {
		return fmt.Sprintf("TransformDSLToProto returned model=%v and error=%v", pm != nil, err)
	}
	var js string
	var errJ error
	if msg := guarded("TransformDSLToJSON", len(text), func() { js, errJ = transformer.TransformDSLToJSON(text) }); msg != "" {
		return msg
	}
	if (errJ == nil) != (err == nil) || (errJ != nil && js != "") {
		return "TransformDSLToJSON and TransformDSLToProto disagree on acceptance"
	}
	var pmM *openfgav1.AuthorizationModel
	var errM error
	if msg := guarded("TransformModularDSLToProto", len(text), func() { pmM, _, errM = transformer.TransformModularDSLToProto(text) }); msg != "" {
		return msg
	}
	if (pmM == nil) == (errM == nil) {
		return fmt.Sprintf("TransformModularDSLToProto returned model=%v and error=%v", pmM != nil, errM)
	}
	// error reporting: certainly ungrammatical => error and no model
	if len(text) < 4000 && (err == nil || errM == nil) {
		ok := false
		if msg := guarded("reference recogniser", len(text), func() { ok = g4.DerivableLenient(repoGrammar(), text) }); msg == "" && !ok {
			return fmt.Sprintf("the document is not derivable from the grammar (independent lexer run + .g4 recogniser) but was accepted (TransformDSLToProto err=%v, modular err=%v)", err, errM)
		}
	}
	if pm != nil {
		if msg := c08Model("parsed model", pm); msg != "" {
			return msg
		}
	}
	if len(text) < 1500 {
		if msg := c08Strings(text); msg != "" {
			return msg
		}
	}
	return ""
}

// c08Model: every model-taking entry point on one protobuf model.
func c08Model(origin string, pm *openfgav1.AuthorizationModel) string {
	size := proto.Size(pm)
	for _, src := range []bool{false, true} {
		if msg := guarded("TransformJSONProtoToDSL", size, func() {
			s, err := transformer.TransformJSONProtoToDSL(proto.Clone(pm).(*openfgav1.AuthorizationModel), transformer.WithIncludeSourceInformation(src))
			if err != nil && s != "" {
				panic("DSL text returned together with an error")
			}
		}); msg != "" {
			return origin + ": " + msg
		}
	}
	if msg := guarded("NewAuthorizationModelGraph", size, func() {
		g, err := graph.NewAuthorizationModelGraph(pm)
		if err != nil || g == nil {
			return
		}
		_ = g.GetDOT()
		r, err := g.Reversed()
		if err == nil && r != nil {
			_ = r.GetDOT()
		}
		nodes := 0
		it := g.Nodes()
		var labels []string
		for it.Next() {
			nodes++
			if n, ok := it.Node().(*graph.AuthorizationModelNode); ok && len(labels) < 6 {
				labels = append(labels, n.Label())
			}
		}
		for _, a := range labels {
			for _, b := range labels {
				_, _ = g.PathExists(a, b)
			}
		}
		_, _ = g.PathExists("", "nosuch")
		if nodes <= 12 {
			_ = g.GetCycles()
		}
	}); msg != "" {
		return origin + ": " + msg
	}
	if msg := guarded("utils", size, func() {
		for _, td := range pm.GetTypeDefinitions() {
			for name, us := range td.GetRelations() {
				_ = utils.IsRelationAssignable(us)
				_, _ = utils.GetModuleForObjectTypeRelation(td, name)
			}
			_, _ = utils.GetModuleForObjectTypeRelation(td, "no-such-relation")
			_ = utils.IsRelationAssignable(nil)
		}
		_, _ = utils.GetModuleForObjectTypeRelation(nil, "x")
	}); msg != "" {
		return origin + ": " + msg
	}
	if msg := guarded("WeightedAuthorizationModelGraphBuilder.Build", size, func() {
		wg, err := graph.NewWeightedAuthorizationModelGraphBuilder().Build(pm)
		if (wg == nil) == (err == nil) {
			panic(fmt.Sprintf("Build returned graph=%v and error=%v", wg != nil, err))
		}
	}); msg != "" {
		return origin + ": " + msg
	}
	return ""
}

func c08JSON(text string) string {
	for _, src := range []bool{false, true} {
		if msg := guarded("TransformJSONStringToDSL", len(text), func() {
			s, err := transformer.TransformJSONStringToDSL(text, transformer.WithIncludeSourceInformation(src))
			if (s == nil) == (err == nil) {
				panic(fmt.Sprintf("returned dsl=%v and error=%v", s != nil, err))
			}
		}); msg != "" {
			return msg
		}
	}
	var pm *openfgav1.AuthorizationModel
	if msg := guarded("LoadJSONStringToProto", len(text), func() { pm, _ = transformer.LoadJSONStringToProto(text) }); msg != "" {
		return msg
	}
	if pm != nil {
		return c08Model("loaded JSON model", pm)
	}
	return ""
}

// c08Strings: validators and line-number helpers on arbitrary strings.
func c08Strings(text string) string {
	return guarded("validators/line-number helpers", len(text), func() {
		lines := strings.Split(text, "\n")
		// every validator call compiles one or two large regexps (~0.7 ms each): a deterministic 1-in-16 sample of
		// the inputs, whole text plus first two lines
		var vs []string
		if len(text)%16 == 0 {
			vs = append([]string{text}, lines[:min(2, len(lines))]...)
		}
		for _, s := range vs {
			if len(s) > 600 {
				s = s[:600]
			}
			_ = validation.ValidateUser(s)
			_ = validation.ValidateObject(s)
			_ = validation.ValidateRelation(s)
			_ = validation.ValidateRelationshipCondition(s)
			_ = validation.ValidateType(s)
			_ = validation.ValidateObjectID(s)
			_ = validation.ValidateUserSet(s)
			_ = validation.ValidateUserWildcard(s)
			_ = validation.ValidateUserObject(s)
		}
		for _, name := range []string{"", "a", lines[0], "doc", "type"} {
			for _, f := range []func(string, []string) int{utils.GetTypeLineNumber, utils.GetExtendedTypeLineNumber, utils.GetRelationLineNumber, utils.GetConditionLineNumber} {
				i := f(name, lines)
				if i < -1 || i >= len(lines) {
					panic(fmt.Sprintf("line lookup returned %d for %d lines", i, len(lines)))
				}
				l, c := utils.ConstructLineAndColumnData(lines, i, name)
				if i >= 0 && (l.Start != i || c.Start < 0 || c.Start > len(lines[i])) {
					panic(fmt.Sprintf("ConstructLineAndColumnData returned line %d column %d for line %d of length %d", l.Start, c.Start, i, len(lines[i])))
				}
			}
			_ = utils.GetExtendedRelationLineNumber(name, "a", lines)
			_, _ = utils.ConstructLineAndColumnData(nil, -1, name)
		}
	})
}

func c08ModFile(text string) string {
	return guarded("TransformModFile", len(text), func() {
		mf, err := transformer.TransformModFile(text)
		if (mf == nil) == (err == nil) {
			panic(fmt.Sprintf("returned modfile=%v and error=%v", mf != nil, err))
		}
	})
}

func c08Merge(texts []string) string {
	files := make([]transformer.ModuleFile, len(texts))
	n := 0
	// distinct file names, some of which differ only in case, in a "./" prefix or in the kind of slash
	names := []string{"core.fga", "Core.fga", "./core.fga", "CORE.FGA", "modules/../core.fga", "modules\\core.fga"}
	for i, t := range texts {
		files[i] = transformer.ModuleFile{Name: fmt.Sprintf("f%d.fga", i), Contents: t}
		if len(texts) <= len(names) && len(texts)%2 == 0 {
			files[i].Name = names[i]
		}
		n += len(t)
	}
	var merr error
	if msg := guarded("TransformModuleFilesToModel", n, func() {
		m, err := transformer.TransformModuleFilesToModel(files, "1.2")
		merr = err
		if (m == nil) == (err == nil) {
			panic(fmt.Sprintf("returned model=%v and error=%v", m != nil, err))
		}
	}); msg != "" {
		return msg
	}
	// a syntax error in ANY of the files is reported through the returned error
	if merr == nil {
		for i, t := range texts {
			if len(t) >= 4000 {
				continue
			}
			ok := true
			if msg := guarded("reference recogniser", len(t), func() { ok = g4.DerivableLenient(repoGrammar(), t) }); msg == "" && !ok {
				return fmt.Sprintf("module file #%d (%s) is not derivable from the grammar (independent lexer run + .g4 recogniser) but the merge returned no error", i, files[i].Name)
			}
		}
	}
	return ""
}

// ---- degenerate protobuf models -------------------------------------------------------------

func degenUserset(t *rapid.T, depth int) *openfgav1.Userset {
	k := rapid.IntRange(0, 13).Draw(t, "dkind")
	if depth >= 3 && k >= 6 {
		k %= 6
	}
	kids := func() []*openfgav1.Userset {
		n := rapid.IntRange(0, 3).Draw(t, "dn")
		var out []*openfgav1.Userset
		for i := 0; i < n; i++ {
			out = append(out, degenUserset(t, depth+1))
		}
		return out // nil when n == 0
	}
	name := func() string { return rapid.SampledFrom([]string{"a", "b", "p", "", "zz"}).Draw(t, "dname") }
	switch k {
	case 0:
		return &openfgav1.Userset{} // no rewrite at all
	case 1:
		return &openfgav1.Userset{Userset: &openfgav1.Userset_This{}} // oneof set, message nil
	case 2:
		return &openfgav1.Userset{Userset: &openfgav1.Userset_This{This: &openfgav1.DirectUserset{}}}
	case 3:
		return &openfgav1.Userset{Userset: &openfgav1.Userset_ComputedUserset{ComputedUserset: &openfgav1.ObjectRelation{Relation: name()}}}
	case 4:
		return &openfgav1.Userset{Userset: &openfgav1.Userset_ComputedUserset{}} // nil object relation
	case 5:
		ttu := &openfgav1.TupleToUserset{}
		if rapid.Bool().Draw(t, "dts") {
			ttu.Tupleset = &openfgav1.ObjectRelation{Relation: name()}
		}
		if rapid.Bool().Draw(t, "dcu") {
			ttu.ComputedUserset = &openfgav1.ObjectRelation{Relation: name()}
		}
		return &openfgav1.Userset{Userset: &openfgav1.Userset_TupleToUserset{TupleToUserset: ttu}}
	case 6:
		return &openfgav1.Userset{Userset: &openfgav1.Userset_TupleToUserset{}}
	case 7, 8:
		return &openfgav1.Userset{Userset: &openfgav1.Userset_Union{Union: &openfgav1.Usersets{Child: kids()}}}
	case 9:
		return &openfgav1.Userset{Userset: &openfgav1.Userset_Union{}} // nil Usersets
	case 10:
		return &openfgav1.Userset{Userset: &openfgav1.Userset_Intersection{Intersection: &openfgav1.Usersets{Child: kids()}}}
	case 11:
		return &openfgav1.Userset{Userset: &openfgav1.Userset_Intersection{}}
	case 12:
		d := &openfgav1.Difference{}
		if rapid.IntRange(0, 3).Draw(t, "dbase") > 0 {
			d.Base = degenUserset(t, depth+1)
		}
		if rapid.IntRange(0, 3).Draw(t, "dsub") > 0 {
			d.Subtract = degenUserset(t, depth+1)
		}
		return &openfgav1.Userset{Userset: &openfgav1.Userset_Difference{Difference: d}}
	default:
		return &openfgav1.Userset{Userset: &openfgav1.Userset_Difference{}}
	}
}

func degenModel(t *rapid.T) *openfgav1.AuthorizationModel {
	pm := &openfgav1.AuthorizationModel{SchemaVersion: rapid.SampledFrom([]string{"1.1", "", "1.2"}).Draw(t, "dschema")}
	if rapid.Bool().Draw(t, "did") {
		pm.Id = "01HVMMBCMGZNT3SED4Z17ECXCA"
	}
	types := []string{"user", "doc", "", "doc"}
	nT := rapid.IntRange(0, 4).Draw(t, "dnTypes")
	for i := 0; i < nT; i++ {
		td := &openfgav1.TypeDefinition{Type: rapid.SampledFrom(types).Draw(t, "dtype")}
		nR := rapid.IntRange(0, 3).Draw(t, "dnRels")
		if nR > 0 || rapid.Bool().Draw(t, "demptyMap") {
			td.Relations = map[string]*openfgav1.Userset{}
		}
		for j := 0; j < nR; j++ {
			td.Relations[rapid.SampledFrom([]string{"a", "b", "p", ""}).Draw(t, "drel")] = degenUserset(t, 0)
		}
		switch rapid.IntRange(0, 3).Draw(t, "dmeta") {
		case 0: // no metadata
		case 1:
			td.Metadata = &openfgav1.Metadata{} // nil relations map
		default:
			td.Metadata = &openfgav1.Metadata{Relations: map[string]*openfgav1.RelationMetadata{}, Module: rapid.SampledFrom([]string{"", "m"}).Draw(t, "dmod")}
			for r := range td.Relations {
				switch rapid.IntRange(0, 3).Draw(t, "drm") {
				case 0: // missing entry
				case 1:
					td.Metadata.Relations[r] = &openfgav1.RelationMetadata{}
				default:
					rm := &openfgav1.RelationMetadata{}
					n := rapid.IntRange(0, 3).Draw(t, "dnRestr")
					for k := 0; k < n; k++ {
						ref := &openfgav1.RelationReference{Type: rapid.SampledFrom(types).Draw(t, "drt"), Condition: rapid.SampledFrom([]string{"", "c", "nosuch"}).Draw(t, "drc")}
						switch rapid.IntRange(0, 4).Draw(t, "drk") {
						case 0:
							ref.RelationOrWildcard = &openfgav1.RelationReference_Wildcard{}
						case 1:
							ref.RelationOrWildcard = &openfgav1.RelationReference_Wildcard{Wildcard: &openfgav1.Wildcard{}}
						case 2:
							ref.RelationOrWildcard = &openfgav1.RelationReference_Relation{Relation: rapid.SampledFrom([]string{"a", "", "zz"}).Draw(t, "drr")}
						}
						rm.DirectlyRelatedUserTypes = append(rm.DirectlyRelatedUserTypes, ref)
					}
					if rapid.Bool().Draw(t, "dsi") {
						rm.SourceInfo = &openfgav1.SourceInfo{}
					}
					td.Metadata.Relations[r] = rm
				}
			}
			if rapid.Bool().Draw(t, "dextra") {
				td.Metadata.Relations["ghost"] = &openfgav1.RelationMetadata{}
			}
		}
		pm.TypeDefinitions = append(pm.TypeDefinitions, td)
	}
	nC := rapid.IntRange(0, 2).Draw(t, "dnConds")
	if nC > 0 || rapid.Bool().Draw(t, "demptyConds") {
		pm.Conditions = map[string]*openfgav1.Condition{}
	}
	for i := 0; i < nC; i++ {
		name := rapid.SampledFrom([]string{"c", "d", ""}).Draw(t, "dcname")
		c := &openfgav1.Condition{Name: name, Expression: rapid.SampledFrom([]string{"x > 1", "", "}", "\n"}).Draw(t, "dexpr")}
		if rapid.IntRange(0, 5).Draw(t, "dmismatch") == 0 {
			c.Name = "other"
		}
		nP := rapid.IntRange(0, 3).Draw(t, "dnParams")
		if nP > 0 {
			c.Parameters = map[string]*openfgav1.ConditionParamTypeRef{}
		}
		for j := 0; j < nP; j++ {
			ref := &openfgav1.ConditionParamTypeRef{TypeName: openfgav1.ConditionParamTypeRef_TypeName(rapid.IntRange(0, 13).Draw(t, "dptype"))}
			switch rapid.IntRange(0, 3).Draw(t, "dgen") {
			case 0: // list/map without element type
			case 1:
				ref.GenericTypes = []*openfgav1.ConditionParamTypeRef{{TypeName: openfgav1.ConditionParamTypeRef_TYPE_NAME_STRING}}
			case 2:
				ref.GenericTypes = []*openfgav1.ConditionParamTypeRef{{}, {}}
			default:
				ref.GenericTypes = []*openfgav1.ConditionParamTypeRef{{TypeName: openfgav1.ConditionParamTypeRef_TYPE_NAME_LIST}}
			}
			c.Parameters[rapid.SampledFrom([]string{"x", "y", ""}).Draw(t, "dpname")] = ref
		}
		if rapid.Bool().Draw(t, "dcmeta") {
			c.Metadata = &openfgav1.ConditionMetadata{}
		}
		pm.Conditions[name] = c
	}
	return pm
}

// ---- work scaling ---------------------------------------------------------------------------

var c08PumpAlphabet = []string{" ", "\t", "\n", "\r", "\r\n", "#", " #", "(", ")", "[", "]", "{", "}", ",", ":", "*", "\"", "'", "/", "//", "a", "a ", "a.", "-", ".", "<", "1", " or a", " and a", "\na", "\n#", "x,", "(a", "a)", "[a", "%", "\\", "é", "\x00", "b\"", "'''", "&&", "!", "?"}

// c08Family builds parametric DSL models of size n for the model-level entry points.
const c08T5Text = "runs of form feeds, or of alternating CR and LF (blank CRLF lines), lex in more than quadratic time in a cold process (the NEWLINE lexer rule is ambiguous: its alternatives overlap and WHITESPACE matches \\f too)"

// isT5Pump: the exact trigger of recorded finding T5: a pump made only of blank/newline characters
// that contains a form feed, or both CR and LF.
func isT5Pump(p string) bool {
	if strings.Trim(p, " \t\r\n\f") != "" {
		return false
	}
	return strings.Contains(p, "\f") || (strings.Contains(p, "\r") && strings.Contains(p, "\n"))
}

func c08Family(name string, n int) string {
	var b strings.Builder
	b.WriteString("model\n  schema 1.1\ntype user\n")
	switch name {
	case "chain":
		b.WriteString("type doc\n  relations\n")
		for i := 0; i < n; i++ {
			fmt.Fprintf(&b, "    define r%d: r%d\n", i, i+1)
		}
		fmt.Fprintf(&b, "    define r%d: [user]\n", n)
	case "diamond-ladder":
		b.WriteString("type doc\n  relations\n")
		for i := 0; i < n; i++ {
			fmt.Fprintf(&b, "    define r%d: a%d or b%d\n    define a%d: r%d\n    define b%d: r%d\n", i, i, i, i, i+1, i, i+1)
		}
		fmt.Fprintf(&b, "    define r%d: [user]\n", n)
	case "diamond-ladder-and":
		b.WriteString("type doc\n  relations\n")
		for i := 0; i < n; i++ {
			fmt.Fprintf(&b, "    define r%d: a%d and b%d\n    define a%d: r%d\n    define b%d: [user] or r%d\n", i, i, i, i, i+1, i, i+1)
		}
		fmt.Fprintf(&b, "    define r%d: [user]\n", n)
	case "wide-union":
		b.WriteString("type doc\n  relations\n    define top: a0")
		for i := 1; i < n; i++ {
			fmt.Fprintf(&b, " or a%d", i)
		}
		b.WriteString("\n")
		for i := 0; i < n; i++ {
			fmt.Fprintf(&b, "    define a%d: [user]\n", i)
		}
	case "deep-parens":
		b.WriteString("type doc\n  relations\n    define a: [user]\n    define b: [user]\n    define top: ")
		b.WriteString(strings.Repeat("(", n) + "a" + strings.Repeat(" or b)", n) + "\n")
	case "deep-parens-tail":
		// the nesting stands behind an operator (a non-first operand), closed by n parentheses in a row
		b.WriteString("type doc\n  relations\n    define a: [user]\n    define b: [user]\n    define top: a")
		b.WriteString(strings.Repeat(" or (b", n) + strings.Repeat(")", n) + "\n")
	case "ttu-types":
		for i := 0; i < n; i++ {
			fmt.Fprintf(&b, "type t%d\n  relations\n    define parent: [t%d]\n    define viewer: [user] or viewer from parent\n", i, (i+1)%n)
		}
	case "many-restrictions":
		b.WriteString("type doc\n  relations\n    define r: [user")
		for i := 0; i < n; i++ {
			fmt.Fprintf(&b, ", user with c%d", i%3)
		}
		b.WriteString("]\n")
		for i := 0; i < 3; i++ {
			fmt.Fprintf(&b, "condition c%d(x: int) {\n  x > %d\n}\n", i, i)
		}
	case "userset-ladder":
		b.WriteString("type doc\n  relations\n")
		for i := 0; i < n; i++ {
			fmt.Fprintf(&b, "    define r%d: [doc#r%d, doc#r%d]\n", i, i+1, i+1)
		}
		fmt.Fprintf(&b, "    define r%d: [user]\n", n)
	case "tuple-cycles":
		b.WriteString("type doc\n  relations\n")
		for i := 0; i < n; i++ {
			fmt.Fprintf(&b, "    define r%d: [user, doc#r%d] or r%d\n", i, (i+1)%n, (i+2)%(n+1))
		}
		fmt.Fprintf(&b, "    define r%d: [user]\n", n)
	}
	return b.String()
}

var c08Families = []string{"chain", "diamond-ladder", "diamond-ladder-and", "wide-union", "deep-parens", "deep-parens-tail", "ttu-types", "many-restrictions", "userset-ladder", "tuple-cycles"}

type scaleResult struct {
	work     [3]uint64  // allocations
	cpu      [3]float64 // CPU seconds
	ok       [3]bool
	killed   [3]bool // exceeded the CPU budget (kernel limit in the child)
	panicked string
}

const (
	c08Floor    = 40000 // allocations below this are start-up noise
	c08CPUFloor = 0.5   // CPU seconds below this are start-up noise
)

func c08Measure(op string, docs [3]string) scaleResult {
	var res scaleResult
	for i, d := range docs {
		resp, ok := runChild(childReq{Op: op, Text: d}, 240*time.Second)
		if !ok {
			break // could not be measured at all (wall limit, spawn failure): inconclusive
		}
		if resp.CPUKilled {
			res.killed[i] = true
			break
		}
		if resp.Panic != "" {
			res.panicked = resp.Panic
			break
		}
		res.ok[i], res.work[i], res.cpu[i] = true, resp.Mallocs, float64(resp.CPUNanos)/1e9
	}
	return res
}

// c08ScalingVerdict: growth exponent between consecutive sizes (sizes double each step), taken over
// two load-independent work proxies: allocations and CPU time of the cold child.
func c08ScalingVerdict(r scaleResult) (exponent float64, msg string) {
	for i := 1; i < 3; i++ {
		if r.ok[i] && r.ok[i-1] && r.work[i] >= c08Floor && r.work[i-1] > 0 {
			if e := math.Log2(float64(r.work[i]) / float64(r.work[i-1])); e > exponent {
				exponent = e
			}
		}
		if r.ok[i] && r.ok[i-1] && r.cpu[i] >= c08CPUFloor && r.cpu[i-1] > 0 {
			// the smaller size is charged at least 20 ms so that start-up noise cannot fake growth
			if e := math.Log2(r.cpu[i] / math.Max(r.cpu[i-1], 0.02)); e > exponent+0.8 {
				exponent = e - 0.8 // CPU time is noisier than allocation counts: demand a clearer excess
			}
		}
	}
	for i := 1; i < 3; i++ {
		// the doubled input exhausted the CPU budget (40 s) although the previous size needed under 2 s: factor > 20
		if r.ok[i-1] && r.killed[i] && r.cpu[i-1] < 2.0 {
			return math.Inf(1), fmt.Sprintf("doubling the input exhausts the %d s CPU budget although the previous size needed %.2f s CPU (%d allocations)", childCPULimitSeconds, r.cpu[i-1], r.work[i-1])
		}
	}
	if r.killed[0] {
		return math.Inf(1), fmt.Sprintf("the smallest input already exhausts the %d s CPU budget", childCPULimitSeconds)
	}
	if exponent > 2.5 {
		return exponent, fmt.Sprintf("work grows with exponent %.2f when the input doubles (allocations %v, CPU seconds %.2f); quadratic = 2", exponent, r.work, r.cpu)
	}
	return exponent, ""
}

func c08ScalingDocs(in c08Input) [3]string {
	var docs [3]string
	for i := 0; i < 3; i++ {
		n := in.N << i
		if in.Family != "" {
			docs[i] = c08Family(in.Family, n)
		} else {
			at := in.At
			if at > len(in.Seed) {
				at = len(in.Seed)
			}
			docs[i] = in.Seed[:at] + strings.Repeat(in.Pump, n) + in.Seed[at:]
		}
	}
	return docs
}

func c08Scaling(in c08Input) (float64, string, bool) {
	r := c08Measure(in.Op, c08ScalingDocs(in))
	if r.panicked != "" {
		return 0, "panic in a cold child: " + r.panicked, true
	}
	e, msg := c08ScalingVerdict(r)
	return e, msg, r.ok[1]
}

const c08Rule = "(a) totality: rapid-drawn mutants/splices/hostile insertions over the repository corpus (model files, module files, syntax cases, JSON goldens, fga.mod cases) and over " +
	"rendered documents, for TransformDSLToProto/JSON, TransformModularDSLToProto, TransformJSONStringToDSL, LoadJSONStringToProto, TransformModFile and the module merge (1-3 files); " +
	"(b) rapid-generated degenerate protobuf models (unset rewrites, nil/empty child lists, nil difference operands, nil object relations, missing/empty metadata, list/map parameter " +
	"without or with nested element type, empty and duplicate names) for the printer (both options), utils.IsRelationAssignable / GetModuleForObjectTypeRelation, plain graph (+DOT, reversal, path queries, cycles on <= 12 nodes) and weighted Build; " +
	"every call under recover and a 30 s watchdog; (c) error reporting: a document whose token sequence (independent lexer run) is not derivable from OpenFGAParser.g4 must be rejected; " +
	"(d) boundedness: work (allocations, a deterministic proxy) of cold child processes for pumped inputs at sizes n,2n,4n (byte pumps over the corpus, n=64; 9 parametric model families " +
	"for parse+graph builders, n=6..12) must not grow faster than exponent 2.5; thorough adds native fuzzing. Form feeds are excluded from pumps and mutants (recorded finding T5, " +
	"re-measured each run). Non-trivial = input with >= 1 syntax error reaching the listeners / degenerate model / scaling case above the noise floor; distinct by input."

func TestC08(t *testing.T) {
	rec := ev.New("C08", c08Rule)
	defer func() {
		if !rec.Flush() {
			t.Fail()
		}
	}()
	rec.Assume("work is measured in a fresh child process (ANTLR caches cold) by two load-independent proxies: allocation count and CPU time (getrusage), with a kernel-enforced CPU budget of 40 s; wall-clock is a verdict only as a 30 s stall of an in-process call on inputs of a few KB",
		"a panic inside the library is classified by being recovered at the call site; no panic is currently listed as known")
	corp := gen.LoadCorpus(ev.Repo())
	if len(corp.DSL) < 10 {
		ev.HarnessError("C08", "corpus not found")
		t.Fatal("no corpus")
	}
	allDSL := append(append(append([]string{}, corp.DSL...), corp.Modules...), corp.Syntax...)

	// T5: recorded finding, re-measured on its committed witnesses
	if ev.Shard() == 0 && ev.IsKnown("C08", "T5") {
		for _, pump := range []string{"\f", "\r\n"} {
			in := c08Input{Kind: "scaling", Op: "dsl", Seed: "model\n  schema 1.1\ntype user\n", At: 27, Pump: pump, N: 40}
			if e, msg, _ := c08Scaling(in); msg != "" {
				ev.PrintKnown("C08", "T5", c08T5Text)
				rec.Known("T5")
				rec.Note("T5 witness re-measured: exponent %.2f for %q x 40/80/160", e, pump)
			} else {
				rec.Note("T5 witness %q does not reproduce in this run (exponent %.2f)", pump, e)
			}
		}
	}

	t.Run("totality", rapid.MakeCheck(func(rt *rapid.T) {
		var in c08Input
		strip := func(s string) string {
			if strings.Count(s, "\f") > 4 {
				rec.Excluded("form feeds (T5)")
				s = strings.ReplaceAll(s, "\f", " ")
			}
			if strings.Contains(s, "\r\n\r\n\r\n\r\n\r\n\r\n") || strings.Contains(s, "\n\r\n\r\n\r\n\r\n\r\n\r") {
				rec.Excluded("run of alternating CR LF (T5)")
				s = strings.ReplaceAll(s, "\r", "")
			}
			return s
		}
		switch rapid.IntRange(0, 12).Draw(rt, "entry") {
		case 0, 1, 2, 3:
			in = c08Input{Kind: "dsl", Text: strip(gen.Mutate(rt, rapid.SampledFrom(allDSL).Draw(rt, "doc"), allDSL, 4))}
		case 4:
			m := gen.DSLModel(rt, gen.DSLOpts{Rich: true, Conditions: true, MaxTypes: 3, MaxRels: 3, Scale: true})
			in = c08Input{Kind: "dsl", Text: strip(gen.Mutate(rt, gen.Render(m, &rapidChooser{t: rt}, gen.RenderOpts{}).Text, allDSL, 3))}
		case 5, 6:
			in = c08Input{Kind: "json", Text: gen.Mutate(rt, rapid.SampledFrom(corp.JSON).Draw(rt, "json"), corp.JSON, 3)}
		case 7:
			base := rapid.SampledFrom(append(append([]string{}, corp.ModYAML...), "schema: '1.2'\ncontents:\n  - a.fga\n")).Draw(rt, "mod")
			in = c08Input{Kind: "modfile", Text: gen.Mutate(rt, base, corp.ModYAML, 3)}
		case 8:
			in = c08Input{Kind: "modfile", Text: c15GenManifest(rt).Text}
		case 12:
			// tiny documents: nothing at all, blanks, comments only, a few hostile constants in a row
			var b strings.Builder
			for i, n := 0, rapid.IntRange(0, 3).Draw(rt, "nTiny"); i < n; i++ {
				b.WriteString(rapid.SampledFrom(gen.Hostile).Draw(rt, "tiny"))
			}
			in = c08Input{Kind: "dsl", Text: strip(b.String())}
		case 9:
			// generated module sets with injected conflicts in random layouts (tabs, form feeds, comments, CRLF):
			// the error paths of the merge locate declarations in the raw text
			ms := gen.Modules(rt, gen.ModOpts{MaxConflicts: 3, MaxFiles: 4, Layout: true, Decoys: true, MultiDup: true, Scale: true})
			for _, f := range ms.Files {
				in.More = append(in.More, f.Text)
			}
			in.Kind = "merge"
		default:
			n := rapid.IntRange(1, 3).Draw(rt, "nFiles")
			for i := 0; i < n; i++ {
				f := rapid.SampledFrom(corp.Modules).Draw(rt, "moduleDoc")
				if rapid.Bool().Draw(rt, "mutateFile") {
					f = strip(gen.Mutate(rt, f, allDSL, 2))
				}
				in.More = append(in.More, f)
			}
			in.Kind = "merge"
		}
		msg := c08CheckInput(in)
		nt := false
		cls := []string{"totality:" + in.Kind}
		if in.Kind == "dsl" {
			accepted := func() (ok bool) {
				defer func() { _ = recover() }() // a panic is c08CheckInput's finding (msg), reported below
				_, err := transformer.TransformDSLToProto(in.Text)
				return err == nil
			}
			if !accepted() {
				nt = true
				cls = append(cls, "totality:dsl-rejected")
			} else {
				cls = append(cls, "totality:dsl-accepted")
			}
		} else {
			nt = true
		}
		var sample any
		if nt {
			sample = map[string]any{"kind": in.Kind, "text": in.Text, "files": in.More}
		}
		rec.Case(in, nt, sample, cls...)
		if msg != "" {
			rec.Violation(in, msg)
			rt.Fatalf("%s\n%q", msg, in.Text)
		}
	}))
	if t.Failed() {
		return
	}
	t.Run("degenerate", rapid.MakeCheck(func(rt *rapid.T) {
		pm := degenModel(rt)
		js, err := protojson.Marshal(pm)
		in := c08Input{Kind: "proto"}
		if err == nil {
			in.Proto = string(js)
		}
		rec.Case(fingerprint(pm), true, map[string]any{"proto": in.Proto}, "degenerate:model")
		if msg := c08Model("degenerate model", pm); msg != "" {
			rec.Violation(in, msg)
			rt.Fatalf("%s\n%s", msg, in.Proto)
		}
		if in.Proto != "" {
			if msg := c08JSON(in.Proto); msg != "" {
				rec.Violation(in, msg)
				rt.Fatalf("%s\n%s", msg, in.Proto)
			}
		}
	}))
	if t.Failed() {
		return
	}
	// boundary sizes: every parametric family once at sizes just past a byte (257, 300 elements or levels): a fixed array
	// of 256 entries, an 8-bit counter or index inside any entry point shows as a panic or as a lost element here. One
	// process (shard 0) does it; each document goes through the totality oracle of the DSL entry points and, when it is
	// accepted, through both graph builders and the printer.
	if ev.Shard() == 0 {
		var n int64
		for _, fam := range c08Families {
			for _, size := range []int{257, 300} {
				doc := c08Family(fam, size)
				n++
				msg := c08DSL(doc)
				if msg == "" {
					msg = guarded("graph builders and printer on a "+fam+" document", len(doc), func() { _ = runOp("dslgraph", doc, nil) })
				}
				if msg != "" {
					in := c08Input{Kind: "dsl", Text: doc}
					msg = fmt.Sprintf("family %s at size %d: %s", fam, size, msg)
					rec.Violation(in, msg)
					t.Fatalf("%s", msg)
				}
			}
		}
		rec.Bulk(n, n, map[string]int64{"boundary-size:family-documents": n})
	}
	// scaling: a fixed number of triples per process, drawn with rapid (own small check count)
	nTriples := 36
	if ev.Thorough() {
		nTriples = 60
	}
	var cases []c08Input
	// every parametric family once per process (size varies with seed and shard), pumps are drawn
	for i, fam := range c08Families {
		cases = append(cases, c08Input{Kind: "scaling", Op: "dslgraph", Family: fam, N: 6 + int((ev.Seed()+int64(ev.Shard())+int64(i))%6)})
	}
	t.Run("scaling-draw", func(t *testing.T) {
		seen := 0
		rapid.Check(t, func(rt *rapid.T) {
			if seen >= nTriples {
				return
			}
			seen++
			if rapid.IntRange(0, 2).Draw(rt, "familyOrPump") == 0 {
				cases = append(cases, c08Input{Kind: "scaling", Op: "dslgraph", Family: rapid.SampledFrom(c08Families).Draw(rt, "family"), N: rapid.IntRange(6, 12).Draw(rt, "n")})
				return
			}
			seed := rapid.SampledFrom(allDSL).Draw(rt, "seedDoc")
			if len(seed) > 700 {
				seed = seed[:700]
			}
			op := rapid.SampledFrom([]string{"dsl", "dsl", "modular", "json", "modfile"}).Draw(rt, "op")
			if op == "json" {
				seed = rapid.SampledFrom(corp.JSON).Draw(rt, "seedJSON")
				if len(seed) > 700 {
					seed = seed[:700]
				}
			}
			if op == "modfile" {
				seed = "schema: '1.2'\ncontents:\n  - a.fga\n"
			}
			pump := rapid.SampledFrom(c08PumpAlphabet).Draw(rt, "pump")
			at := rapid.IntRange(0, len(seed)).Draw(rt, "at")
			if isT5Pump(pump) && op != "json" && op != "modfile" {
				rec.Excluded("pump made of form feeds / alternating CR LF (T5)")
				return
			}
			// a CR pumped next to an LF of the seed (or vice versa) is still a single alternation, not a run
			cases = append(cases, c08Input{Kind: "scaling", Op: op, Seed: seed, At: at, Pump: pump, N: 64})
		})
	})
	var mu sync.Mutex
	var wg sync.WaitGroup
	sem := make(chan struct{}, max(2, 16/ev.Shards()))
	for _, in := range cases {
		wg.Add(1)
		sem <- struct{}{}
		go func(in c08Input) {
			defer wg.Done()
			defer func() { <-sem }()
			e, msg, measurable := c08Scaling(in)
			mu.Lock()
			defer mu.Unlock()
			cls := []string{"scaling:case"}
			if in.Family != "" {
				cls = append(cls, "scaling:family:"+in.Family)
			} else {
				cls = append(cls, "scaling:pump:"+in.Op)
			}
			if !measurable {
				cls = append(cls, "scaling:inconclusive")
			}
			nt := e > 0
			var sample any
			if nt {
				sample = map[string]any{"op": in.Op, "family": in.Family, "pump": in.Pump, "at": in.At, "n": in.N, "exponent": math.Round(e*100) / 100}
			}
			rec.Case(in, nt, sample, cls...)
			if msg != "" && !t.Failed() {
				rec.Violation(in, msg)
				t.Errorf("scaling: %s (%+v)", msg, in)
			}
		}(in)
	}
	wg.Wait()
}

func c08CheckInput(in c08Input) string {
	switch in.Kind {
	case "dsl":
		return c08DSL(in.Text)
	case "json":
		return c08JSON(in.Text)
	case "modfile":
		return c08ModFile(in.Text)
	case "merge":
		return c08Merge(in.More)
	case "proto":
		pm := &openfgav1.AuthorizationModel{}
		if err := protojson.Unmarshal([]byte(in.Proto), pm); err != nil {
			return ""
		}
		if msg := c08Model("degenerate model", pm); msg != "" {
			return msg
		}
		return c08JSON(in.Proto)
	case "scaling":
		_, msg, _ := c08Scaling(in)
		return msg
	}
	return ""
}

func TestReplayC08(t *testing.T) {
	for _, f := range ev.ReplayFiles("C08") {
		var in c08Input
		what, err := ev.LoadReplay(f, &in)
		if err != nil {
			t.Fatalf("%s: %v", f, err)
		}
		rec := ev.New("C08", c08Rule)
		msg := c08CheckInput(in)
		if strings.HasPrefix(what, "T5 (known)") {
			if msg != "" && ev.IsKnown("C08", "T5") && in.Kind == "scaling" && isT5Pump(in.Pump) {
				ev.PrintKnown("C08", "T5", c08T5Text)
				continue
			}
		}
		if msg != "" {
			rec.Violation(in, msg)
			t.Errorf("%s: %s", f, msg)
		}
	}
}
