package checks

// C15 — fga.mod: accepted file paths are safe, verbatim and correctly located; rule-violating
// manifests are rejected with one error per offending entry.

import (
	"encoding/json"
	"errors"
	"fmt"
	"regexp"
	"sort"
	"strconv"
	"strings"
	"testing"
	"unicode/utf8"

	"github.com/openfga/language/pkg/go/transformer"
	"pgregory.net/rapid"

	"verif/internal/ev"
)

// ---- reference rules (own percent decoder, no net/url) --------------------------------------

func c15Hex(c byte) int {
	switch {
	case c >= '0' && c <= '9':
		return int(c - '0')
	case c >= 'a' && c <= 'f':
		return int(c-'a') + 10
	case c >= 'A' && c <= 'F':
		return int(c-'A') + 10
	}
	return -1
}

// c15Decode: query-component unescaping ('+' is a blank, %XX a byte); ok=false for a malformed escape.
func c15Decode(s string) (string, bool) {
	var b strings.Builder
	for i := 0; i < len(s); i++ {
		switch s[i] {
		case '%':
			if i+2 >= len(s) {
				return "", false
			}
			h, l := c15Hex(s[i+1]), c15Hex(s[i+2])
			if h < 0 || l < 0 {
				return "", false
			}
			b.WriteByte(byte(h<<4 | l))
			i += 2
		case '+':
			b.WriteByte(' ')
		default:
			b.WriteByte(s[i])
		}
	}
	return b.String(), true
}

// c15RefVerdict: must the entry be rejected according to the stated rules? norm is the value an
// accepting library has to return.
func c15RefVerdict(raw string) (reject bool, norm string, why string) {
	dec, ok := c15Decode(raw)
	if !ok {
		return true, "", "undecodable escape"
	}
	norm = strings.ReplaceAll(dec, "\\", "/")
	if strings.HasPrefix(norm, "/") {
		return true, norm, "absolute path"
	}
	for _, seg := range strings.Split(norm, "/") {
		if seg == ".." {
			return true, norm, "'..' segment"
		}
	}
	if !strings.HasSuffix(norm, ".fga") {
		return true, norm, "suffix"
	}
	return false, norm, ""
}

// c15Unsafe: the safety half, evaluated on a value the library returned.
func c15Unsafe(v string) string {
	if strings.HasPrefix(v, "/") {
		return "starts with '/'"
	}
	if strings.Contains(v, "\\") {
		return "contains a backslash"
	}
	for _, seg := range strings.Split(v, "/") {
		if seg == ".." {
			return "contains a '..' segment"
		}
	}
	if !strings.HasSuffix(v, ".fga") {
		return "does not end in .fga"
	}
	return ""
}

// ---- manifest model ------------------------------------------------------------------------

type c15Entry struct {
	Raw       string `json:"raw"`                  // logical string value ("" with NonString set)
	NonString string `json:"non_string,omitempty"` // YAML text of a non-string item
	Line      int    `json:"line"`
	Col       int    `json:"col"`
}

type c15Input struct {
	Text        string     `json:"text"`
	Entries     []c15Entry `json:"entries"`
	SchemaOK    bool       `json:"schema_ok"`   // schema present, string, "1.2"
	SchemaLine  int        `json:"schema_line"` // position of the schema value (when present)
	SchemaCol   int        `json:"schema_col"`
	HasContents bool       `json:"has_contents"` // contents key present with a sequence value
	ContLine    int        `json:"contents_line"`
	ContCol     int        `json:"contents_col"`
	CheckPos    bool       `json:"check_positions"`
	// Alias: the contents list (or one of its items) is written as a YAML alias of an anchored node. The property does
	// not say whether such a manifest is accepted; if it is, every denoted entry must be returned and be safe.
	Alias bool `json:"alias,omitempty"`
	// Earlier: a manifest that is transformed first; the value returned for it is kept and must still read the same
	// after the calls made for this manifest (results are values: a later call does not change an earlier result)
	Earlier string `json:"earlier_manifest,omitempty"`
}

var c15ReErr = regexp.MustCompile(`^validation error at line=(\d+), column=(\d+): (.*)$`)

type c15Err struct {
	line, col int
	msg       string
}

func c15Errors(err error) ([]c15Err, bool) {
	var me *transformer.ModFileValidationMultipleError
	if !errors.As(err, &me) {
		return nil, false
	}
	var out []c15Err
	for _, e := range me.Errors {
		var ve *transformer.ModFileValidationError
		if errors.As(e, &ve) {
			out = append(out, c15Err{ve.Line, ve.Column, ve.Msg})
		} else {
			return nil, false
		}
	}
	return out, true
}

// c15Check evaluates one manifest. It returns the violation ("" = held) and the indices of the
// entries the library did not reject (for the second phase).
func c15Check(in c15Input) (string, []int) {
	if in.Earlier != "" {
		held, herr := transformer.TransformModFile(in.Earlier)
		if herr == nil && held != nil {
			snap, _ := json.Marshal(held)
			e2 := in
			e2.Earlier = ""
			msg, idx := c15Check(e2)
			for i := 0; i < 3; i++ {
				_, _ = transformer.TransformModFile(in.Text)
			}
			if now, _ := json.Marshal(held); string(now) != string(snap) && msg == "" {
				return fmt.Sprintf("the result returned for an earlier manifest was changed by later calls: it read %s, now it reads %s", snap, now), nil
			}
			return msg, idx
		}
	}
	mf, err := transformer.TransformModFile(in.Text)
	var refRejected []int
	for i, e := range in.Entries {
		if e.NonString != "" {
			refRejected = append(refRejected, i)
			continue
		}
		if rej, _, _ := c15RefVerdict(e.Raw); rej {
			refRejected = append(refRejected, i)
		}
	}
	mustReject := !in.SchemaOK || !in.HasContents || len(refRejected) > 0
	if err == nil {
		if mf == nil {
			return "nil result and nil error", nil
		}
		if mustReject {
			why := "schema/contents invalid"
			if len(refRejected) > 0 {
				e := in.Entries[refRejected[0]]
				_, _, w := c15RefVerdict(e.Raw)
				why = fmt.Sprintf("entry #%d %q violates a rule (%s%s)", refRejected[0], e.Raw, w, e.NonString)
			}
			got := []string{}
			for _, v := range mf.Contents.Value {
				got = append(got, v.Value)
			}
			return fmt.Sprintf("manifest accepted although %s; returned contents %q", why, got), nil
		}
		if mf.Schema.Value != "1.2" {
			return fmt.Sprintf("accepted manifest reports schema %q", mf.Schema.Value), nil
		}
		if len(mf.Contents.Value) != len(in.Entries) {
			return fmt.Sprintf("accepted manifest returns %d paths for %d entries (something was dropped or invented)", len(mf.Contents.Value), len(in.Entries)), nil
		}
		for i, v := range mf.Contents.Value {
			e := in.Entries[i]
			if u := c15Unsafe(v.Value); u != "" {
				return fmt.Sprintf("accepted path #%d %q (from %q) %s", i, v.Value, e.Raw, u), nil
			}
			_, norm, _ := c15RefVerdict(e.Raw)
			// The statement leaves open what a literal '+' denotes (the library has read it as a blank, the JS
			// package keeps it); either reading is accepted, the safety clauses above hold for what is returned.
			_, normPlus, _ := c15RefVerdict(strings.ReplaceAll(e.Raw, "+", "%2B"))
			if v.Value != norm && v.Value != normPlus {
				return fmt.Sprintf("accepted path #%d: returned %q, the manifest entry %q denotes %q", i, v.Value, e.Raw, norm), nil
			}
			if !strings.ContainsAny(e.Raw, "%+\\") && v.Value != e.Raw {
				return fmt.Sprintf("path #%d %q is not returned verbatim (%q)", i, e.Raw, v.Value), nil
			}
			if in.CheckPos && (v.Line != e.Line || v.Column != e.Col) {
				return fmt.Sprintf("path #%d %q reported at line=%d column=%d, it stands at line=%d column=%d", i, e.Raw, v.Line, v.Column, e.Line, e.Col), nil
			}
		}
		if in.CheckPos {
			if mf.Schema.Line != in.SchemaLine || mf.Schema.Column != in.SchemaCol {
				return fmt.Sprintf("schema value reported at line=%d column=%d, it stands at line=%d column=%d", mf.Schema.Line, mf.Schema.Column, in.SchemaLine, in.SchemaCol), nil
			}
			if mf.Contents.Line != in.ContLine || mf.Contents.Column != in.ContCol {
				return fmt.Sprintf("contents reported at line=%d column=%d, it stands at line=%d column=%d", mf.Contents.Line, mf.Contents.Column, in.ContLine, in.ContCol), nil
			}
		}
		all := make([]int, len(in.Entries))
		for i := range all {
			all[i] = i
		}
		return "", all
	}
	if mf != nil {
		return "a result was returned together with an error", nil
	}
	if in.Alias {
		return "", nil // rejecting an aliased list is within the property
	}
	errs, ok := c15Errors(err)
	if !ok {
		// YAML syntax error etc.: only acceptable when the generator did not promise well-formed YAML
		return "well-formed manifest rejected with a non-validation error: " + describe(err), nil
	}
	if !mustReject {
		// Over-rejection is tolerated only where safety is at stake: every error must sit on an entry whose
		// decoded form contains ".." (the library rejects the substring "../", e.g. "a../x.fga").
		entryAt0 := map[[2]int]int{}
		for i, e := range in.Entries {
			entryAt0[[2]int{e.Line, e.Col}] = i
		}
		for _, e := range errs {
			i, ok := entryAt0[[2]int{e.line, e.col}]
			if !ok {
				return "rule-abiding manifest rejected: " + describe(err), nil
			}
			if _, norm, _ := c15RefVerdict(in.Entries[i].Raw); !strings.Contains(norm, "..") {
				return fmt.Sprintf("rule-abiding entry %q rejected: %s", in.Entries[i].Raw, describe(err)), nil
			}
		}
	}
	// every reference-rejected entry must have its own error at its position
	at := map[[2]int]int{}
	for _, e := range errs {
		at[[2]int{e.line, e.col}]++
	}
	entryAt := map[[2]int]int{}
	for i, e := range in.Entries {
		entryAt[[2]int{e.Line, e.Col}] = i
	}
	libRejected := map[int]bool{}
	entryErrors := 0
	for _, e := range errs {
		if i, ok := entryAt[[2]int{e.line, e.col}]; ok && in.HasContents {
			if libRejected[i] {
				return fmt.Sprintf("two errors for the single entry #%d", i), nil
			}
			libRejected[i] = true
			entryErrors++
		}
	}
	if in.HasContents && in.CheckPos {
		for _, i := range refRejected {
			if !libRejected[i] {
				e := in.Entries[i]
				_, _, w := c15RefVerdict(e.Raw)
				return fmt.Sprintf("offending entry #%d %q%s (%s) has no error at its position line=%d column=%d; errors: %s", i, e.Raw, e.NonString, w, e.Line, e.Col, describe(err)), nil
			}
		}
	}
	if in.HasContents && len(errs) < len(refRejected) {
		return fmt.Sprintf("%d offending entries but only %d errors: %s", len(refRejected), len(errs), describe(err)), nil
	}
	var rest []int
	for i := range in.Entries {
		if !libRejected[i] {
			rest = append(rest, i)
		}
	}
	return "", rest
}

// ---- exhaustive path enumeration (phase 1 batch, phase 2 survivors) ---------------------------

var c15Alphabet = []string{".", "/", "\\", "%", "2", "5", "e", "E", "f", "F", "c", "C", "+", "a", "g"}
var c15Suffixes = []string{".fga", "%2Efga", ".FGA", ""}

func c15QuoteSingle(s string) string { return "'" + strings.ReplaceAll(s, "'", "''") + "'" }

func c15BatchManifest(paths []string) c15Input {
	var b strings.Builder
	b.WriteString("schema: '1.2'\ncontents:\n")
	in := c15Input{SchemaOK: true, SchemaLine: 0, SchemaCol: 8, HasContents: true, ContLine: 2, ContCol: 2, CheckPos: true}
	for i, p := range paths {
		b.WriteString("  - " + c15QuoteSingle(p) + "\n")
		in.Entries = append(in.Entries, c15Entry{Raw: p, Line: 2 + i, Col: 4})
	}
	in.Text = b.String()
	return in
}

// c15TwoPhase: batch -> survivors must be accepted in a manifest of their own.
func c15TwoPhase(paths []string) (string, c15Input) {
	in := c15BatchManifest(paths)
	msg, rest := c15Check(in)
	if msg != "" {
		return msg, in
	}
	if len(rest) == len(paths) || len(rest) == 0 {
		return "", in
	}
	var surv []string
	for _, i := range rest {
		surv = append(surv, paths[i])
	}
	in2 := c15BatchManifest(surv)
	if _, err := transformer.TransformModFile(in2.Text); err != nil {
		return "entries that drew no error inside a rejected manifest are rejected when listed alone: " + describe(err), in2
	}
	msg, _ = c15Check(in2)
	return msg, in2
}

func c15Enumerate(maxLen int, f func(string)) {
	var rec func(prefix string, d int)
	rec = func(prefix string, d int) {
		for _, s := range c15Suffixes {
			f(prefix + s)
		}
		if d == maxLen {
			return
		}
		for _, a := range c15Alphabet {
			rec(prefix+a, d+1)
		}
	}
	rec("", 0)
}

// ---- rapid manifests --------------------------------------------------------------------------

type c15W struct {
	b    strings.Builder
	line int
	col  int
	eol  string
}

func (w *c15W) emit(s string) {
	w.b.WriteString(s)
	for _, r := range s {
		if r == '\n' {
			w.line++
			w.col = 0
		} else {
			w.col++
		}
	}
}

var c15PlainSafe = regexp.MustCompile(`^[A-Za-z_./\\][A-Za-z0-9_./%+\\-]*$`)

func c15PlainOK(s string) bool {
	if !c15PlainSafe.MatchString(s) {
		return false
	}
	switch strings.ToLower(s) {
	case "true", "false", "null", "yes", "no", "on", "off", "y", "n", ".inf", ".nan":
		return false
	}
	if _, err := strconv.ParseFloat(s, 64); err == nil {
		return false
	}
	return !strings.HasPrefix(s, ".") || !regexp.MustCompile(`^\.[0-9eE]+$`).MatchString(s)
}

func c15DQuote(s string) string {
	var b strings.Builder
	b.WriteByte('"')
	for _, r := range s {
		switch {
		case r == '"':
			b.WriteString(`\"`)
		case r == '\\':
			b.WriteString(`\\`)
		case r == '\n':
			b.WriteString(`\n`)
		case r == '\t':
			b.WriteString(`\t`)
		case r < 0x20 || r == 0x7f:
			fmt.Fprintf(&b, `\x%02x`, r)
		default:
			b.WriteRune(r)
		}
	}
	b.WriteByte('"')
	return b.String()
}

var c15PathParts = []string{"a", "core", "dir", "team1", ".", "..", "...", "..a", "a..", "%2e", "%2E", "%2e%2e", ".%2E", "%2e.", "%252e%252e", "+", "a+b", "%20", "é", "x y", "%", "%zz", "%2", "%g0", "C:", "~", "-", "_"}
var c15Seps = []string{"/", "/", "/", "\\", "%2f", "%2F", "%5c", "%5C", "//", ""}
var c15Exts = []string{".fga", ".fga", ".fga", ".fga", "%2Efga", ".FGA", ".fg", "", ".fga ", ".fga/", ".yaml", ".fga%00"}

func c15GenPath(t *rapid.T) string {
	n := rapid.IntRange(0, 4).Draw(t, "nparts")
	if rapid.IntRange(0, 7).Draw(t, "longPath") == 0 {
		// entries around and beyond 64 / 128 / 256 bytes
		n = rapid.SampledFrom([]int{10, 12, 16, 20, 24, 32, 40, 64, 128, 512, 700, 1024}).Draw(t, "npartsLong") // to beyond 4 096 bytes
	}
	s := rapid.SampledFrom([]string{"", "", "", "/", "\\", "%2f", "%5C", "./", "../", "..\\"}).Draw(t, "lead")
	if rapid.IntRange(0, 5).Draw(t, "blankLead") == 0 {
		// blanks and control characters (escaped) in front of everything: whatever is cut off later must not turn a
		// checked value into an unchecked one
		s = rapid.SampledFrom([]string{"%0A", "%0d%0a", "%09", "%20", "+", "%00", "%0B", "%0C", "%C2%A0", " "}).Draw(t, "blank") + s
	}
	long := n >= 10
	for i := 0; i < n; i++ {
		if long && rapid.IntRange(0, 2*n-1).Draw(t, "riskyPart") != 0 { // about one risky segment in every second long entry
			// long entries consist mostly of harmless segments (otherwise some segment always gets them rejected and the
			// rules are never seen at work on a long entry); the separators stay mixed
			s += rapid.SampledFrom([]string{"a", "core", "dir", "team1", "sub-dir", "x_y", "v2", "é"}).Draw(t, "plainPart")
			if i < n-1 {
				s += rapid.SampledFrom([]string{"/", "/", "/", "%5c", "%5C", "%2f", "%2F", "\\"}).Draw(t, "plainSep")
			}
			continue
		}
		s += rapid.SampledFrom(c15PathParts).Draw(t, "part")
		if i < n-1 {
			s += rapid.SampledFrom(c15Seps).Draw(t, "sep")
		}
	}
	if n == 0 {
		s += "f"
	}
	return s + rapid.SampledFrom(c15Exts).Draw(t, "ext")
}

func c15GenManifest(t *rapid.T) c15Input {
	w := &c15W{eol: "\n"}
	if rapid.IntRange(0, 5).Draw(t, "crlf") == 0 {
		w.eol = "\r\n"
	}
	in := c15Input{CheckPos: true}
	flowJSON := rapid.IntRange(0, 7).Draw(t, "json") == 0
	comment := func() {
		if !flowJSON && rapid.IntRange(0, 4).Draw(t, "cmt") == 0 {
			w.emit("# " + rapid.SampledFrom([]string{"c", "schema: x", "- a.fga", "é"}).Draw(t, "cmtText") + w.eol)
		}
	}
	lastBlock := false
	// scalar writes a string value in a drawn style at the current position and returns where the node starts
	scalar := func(v string, allowBlock bool, indent int) (int, int) {
		styles := []int{1, 2}
		if c15PlainOK(v) {
			styles = append(styles, 0, 0, 5, 6)
		}
		if allowBlock && v != "" && !strings.ContainsAny(v, "\n\r") && !strings.HasPrefix(v, " ") && !strings.HasSuffix(v, " ") && !strings.HasPrefix(v, "\t") && utf8.ValidString(v) && !flowJSON {
			styles = append(styles, 3, 4)
		}
		if flowJSON {
			styles = []int{2}
		}
		l, c := w.line, w.col
		st := rapid.SampledFrom(styles).Draw(t, "style")
		lastBlock = st == 3 || st == 4
		switch st {
		case 0:
			w.emit(v)
		case 1:
			w.emit(c15QuoteSingle(v))
		case 2:
			w.emit(c15DQuote(v))
		case 3:
			w.emit("|-" + w.eol + strings.Repeat(" ", indent+2) + v)
		case 4:
			w.emit(">-" + w.eol + strings.Repeat(" ", indent+2) + v)
		case 5:
			w.emit("&a" + strconv.Itoa(w.line) + " " + v)
		default:
			w.emit("!!str " + v)
		}
		return l, c
	}
	writeSchema := func() {
		kind := rapid.IntRange(0, 19).Draw(t, "schemaKind")
		if kind == 0 {
			return // missing
		}
		if flowJSON {
			w.emit(`"schema":` + rapid.SampledFrom([]string{"", " "}).Draw(t, "sp"))
		} else {
			w.emit("schema:" + rapid.SampledFrom([]string{" ", "  ", "   "}).Draw(t, "sp"))
		}
		switch kind {
		case 1:
			in.SchemaLine, in.SchemaCol = w.line, w.col
			w.emit("1.2") // float, not a string
		case 2:
			in.SchemaLine, in.SchemaCol = scalar(rapid.SampledFrom([]string{"1.1", "1.20", " 1.2", "1.2 ", "", "2", "01.2", "1.02", "001.002", "+1.2", "1.+2", "1.2.0", "v1.2", "1,2", "1.2e0", "１.２", "1.２"}).Draw(t, "badSchema"), false, 0)
		default:
			in.SchemaLine, in.SchemaCol = scalar("1.2", false, 0)
			in.SchemaOK = true
		}
	}
	writeContents := func() {
		kind := rapid.IntRange(0, 19).Draw(t, "contentsKind")
		if kind == 0 {
			return
		}
		n := rapid.IntRange(0, 6).Draw(t, "nEntries")
		entries := make([]c15Entry, n)
		allValid := rapid.Bool().Draw(t, "allValid")
		for i := range entries {
			if allValid && rapid.IntRange(0, 9).Draw(t, "longValid") == 0 {
				// a plain, rule-abiding path of a length around and beyond 4 096 and 65 536 bytes
				ln := rapid.SampledFrom([]int{1000, 4091, 4092, 4095, 4096, 4097, 5000, 65535, 65536, 70000}).Draw(t, "longValidLen")
				seg := rapid.SampledFrom([]string{"dir/", "a/", "team1/sub-dir/", "x_y/"}).Draw(t, "longValidSeg")
				p := strings.Repeat(seg, ln/len(seg)+1)[:ln-4]
				if strings.HasSuffix(p, "/") {
					p = p[:len(p)-1] + "a"
				}
				entries[i].Raw = p + ".fga"
				continue
			}
			if allValid {
				entries[i].Raw = rapid.SampledFrom([]string{"core.fga", "team1/board.fga", "a%2Fb.fga", "dir\\x.fga", "a+b.fga", "%41.fga", "x%2Efga", "a/./b.fga",
					"a%20b.fga", "%252e%252e%252fx.fga", "...fga", "é/ü.fga", "a%5Cb%5cc.fga", ".hidden/x.fga", "a..b/x.fga"}).Draw(t, "validV")
				continue
			}
			if rapid.IntRange(0, 7).Draw(t, "nonStr") == 0 {
				entries[i].NonString = rapid.SampledFrom([]string{"1", "1.5", "true", "~", "null", "[x.fga]", "{a: b.fga}"}).Draw(t, "nonStrV")
			} else if rapid.IntRange(0, 2).Draw(t, "safe") == 0 {
				entries[i].Raw = rapid.SampledFrom([]string{"core.fga", "team1/board.fga", "a/b/c.fga", "wiki.fga", "x-y_z.fga", "é/ü.fga"}).Draw(t, "safeV")
			} else {
				entries[i].Raw = c15GenPath(t)
			}
		}
		if kind == 1 && !flowJSON {
			w.emit("contents: " + rapid.SampledFrom([]string{"a.fga", "{a: b}", "3"}).Draw(t, "badContents"))
			return // not a sequence
		}
		if kind == 2 && !flowJSON && n > 0 {
			// the list stands under another key with an anchor; "contents" is an alias of it
			w.emit("x-files: &files [")
			for i, e := range entries {
				if i > 0 {
					w.emit(", ")
				}
				if e.NonString != "" {
					w.emit(e.NonString)
				} else {
					w.emit(c15DQuote(e.Raw))
				}
			}
			w.emit("]" + w.eol + "contents: *files")
			in.HasContents, in.Entries, in.Alias, in.CheckPos = true, entries, true, false
			return
		}
		in.HasContents = true
		flow := flowJSON || rapid.IntRange(0, 3).Draw(t, "flow") == 0
		if kind == 3 && !flowJSON && n >= 2 && entries[0].NonString == "" {
			// one item is an alias of an anchored earlier item
			flow = true
			entries[n-1] = c15Entry{Raw: entries[0].Raw}
			in.Alias, in.CheckPos = true, false
		}
		if flow {
			if flowJSON {
				w.emit(`"contents": `)
			} else {
				w.emit("contents: ")
			}
			in.ContLine, in.ContCol = w.line, w.col
			w.emit("[")
			for i := range entries {
				if i > 0 {
					w.emit(",")
				}
				w.emit(rapid.SampledFrom([]string{"", " ", "  "}).Draw(t, "fsp"))
				if !flowJSON && rapid.IntRange(0, 5).Draw(t, "fnl") == 0 {
					w.emit(w.eol + "   ")
				}
				e := &entries[i]
				if e.NonString != "" {
					e.Line, e.Col = w.line, w.col
					if flowJSON && (e.NonString == "~" || strings.HasPrefix(e.NonString, "{a")) {
						e.NonString = "null"
					}
					if flowJSON && e.NonString == "[x.fga]" {
						e.NonString = `["x.fga"]`
					}
					w.emit(e.NonString)
				} else {
					// inside a flow sequence plain scalars must not contain flow indicators; quote always
					l, c := w.line, w.col
					if in.Alias && i == 0 {
						w.emit("&e0 ")
					}
					if in.Alias && i == n-1 {
						w.emit("*e0")
					} else if rapid.Bool().Draw(t, "fq") || flowJSON {
						w.emit(c15DQuote(e.Raw))
					} else {
						w.emit(c15QuoteSingle(e.Raw))
					}
					e.Line, e.Col = l, c
				}
			}
			w.emit("]")
		} else {
			w.emit("contents:" + rapid.SampledFrom([]string{"", " ", "  # c"}).Draw(t, "csp") + w.eol)
			if n == 0 {
				// "contents:" with nothing is null, not a sequence
				in.HasContents = false
				in.Entries = nil
				return
			}
			ind := rapid.IntRange(0, 4).Draw(t, "ind")
			for i := range entries {
				comment()
				w.emit(strings.Repeat(" ", ind))
				if i == 0 {
					in.ContLine, in.ContCol = w.line, w.col
				}
				w.emit("-" + strings.Repeat(" ", rapid.IntRange(1, 4).Draw(t, "dashsp")))
				e := &entries[i]
				if e.NonString != "" {
					e.Line, e.Col = w.line, w.col
					w.emit(e.NonString)
				} else {
					e.Line, e.Col = scalar(e.Raw, true, ind)
				}
				if e.NonString != "" {
					lastBlock = false
				}
				if rapid.IntRange(0, 5).Draw(t, "tc") == 0 && !lastBlock {
					w.emit("   # trailing")
				}
				w.emit(w.eol)
			}
		}
		in.Entries = entries
	}
	extra := func() {
		if rapid.IntRange(0, 4).Draw(t, "extra") == 0 {
			if flowJSON {
				w.emit(`"other": 1, `)
			} else {
				w.emit("other: " + rapid.SampledFrom([]string{"1", "[a.fga]", "'x'"}).Draw(t, "extraV") + w.eol)
			}
		}
	}
	// leading material: blank lines, whitespace-only lines, a document start marker (positions are positions in
	// the caller's text, so they shift with it)
	if !flowJSON {
		switch rapid.IntRange(0, 7).Draw(t, "lead") {
		case 0:
			w.emit(w.eol)
		case 1:
			w.emit(w.eol + "   " + w.eol + w.eol)
		case 2:
			w.emit("---" + w.eol)
		case 3:
			w.emit(w.eol + w.eol + "---" + w.eol)
		}
	} else if rapid.IntRange(0, 3).Draw(t, "leadJSON") == 0 {
		w.emit(w.eol + "  ")
	}
	if flowJSON {
		w.emit("{")
		extra()
		first := rapid.Bool().Draw(t, "order")
		before := w.b.Len()
		if first {
			writeSchema()
		} else {
			writeContents()
		}
		if w.b.Len() > before {
			w.emit(", ")
		}
		before = w.b.Len()
		if first {
			writeContents()
		} else {
			writeSchema()
		}
		if w.b.Len() == before {
			w.emit(`"z": 0`)
		}
		w.emit("}")
	} else {
		comment()
		extra()
		if rapid.Bool().Draw(t, "order") {
			writeSchema()
			if w.col > 0 {
				w.emit(w.eol)
			}
			comment()
			writeContents()
		} else {
			writeContents()
			if w.col > 0 {
				w.emit(w.eol)
			}
			comment()
			writeSchema()
		}
		if w.col > 0 && rapid.Bool().Draw(t, "finalNL") {
			w.emit(w.eol)
		}
	}
	in.Text = w.b.String()
	return in
}

const c15Rule = "exhaustive: every path over the 15-symbol alphabet {. / \\ % 2 5 e E f F c C + a g} up to length 4 (quick) / 5 (thorough, sharded) x 4 suffixes, listed 64 per " +
	"single-quoted manifest; entries that drew no error are re-listed alone and must be accepted with safe, correctly decoded values (two-phase). rapid: manifests built with " +
	"plain/single/double-quoted/literal/folded/anchored/tagged scalars, block and flow sequences, JSON style, CRLF, comments, key order, extra keys, non-string items, schema " +
	"variants, paths assembled from traversal/encoding fragments. Oracle: own percent decoder and rule set; accepted => schema 1.2, every path relative, no '..' segment, no " +
	"backslash, suffix .fga, value = decoded+normalised entry (verbatim without % + \\), count and order preserved, line/rune-column of every node = where the generator wrote it; " +
	"offending entry => rejected with an error at that entry's position and at least one error per offending entry. Over-rejection is allowed. Non-trivial = path with an escape " +
	"or backslash, or a non-plain YAML style; distinct by manifest text."

// the last accepted manifest of this process (its result is held across the calls of a later case)
var c15LastAccepted string

func TestC15(t *testing.T) {
	rec := ev.New("C15", c15Rule)
	defer func() {
		if !rec.Flush() {
			t.Fail()
		}
	}()
	rec.Assume("YAML node positions follow yaml.v3: first character of the node including its anchor/tag; a block sequence reports its first '-', a flow sequence its '['",
		"'+' decodes to a blank (query-component unescaping), as the library documents by using url.QueryUnescape")
	failed := false
	// (a) exhaustive enumeration
	maxLen := 4
	if ev.Thorough() {
		maxLen = 5
	}
	var batch []string
	var idx, evals, nontriv int64
	flush := func() {
		if len(batch) == 0 || failed {
			batch = nil
			return
		}
		msg, in := c15TwoPhase(batch)
		if msg != "" {
			failed = true
			rec.Violation(in, msg)
			t.Errorf("enumeration: %s", msg)
		}
		batch = nil
	}
	c15Enumerate(maxLen, func(p string) {
		idx++
		if (idx/64)%int64(ev.Shards()) != int64(ev.Shard()) {
			return
		}
		evals++
		if strings.ContainsAny(p, "%\\+") {
			nontriv++
		}
		batch = append(batch, p)
		if len(batch) == 64 {
			flush()
		}
	})
	flush()
	rec.Bulk(evals, nontriv, map[string]int64{"enum:paths": evals})
	rec.Note("enumerated every path of length <= %d over 15 symbols x 4 suffixes (this process: %d paths)", maxLen, evals)
	rec.Sample(map[string]any{"enumerated_paths": []string{"..%5C.fga", "%2E%2e/.fga", ".%2E\\a.fga", "\\a.fga", "%2f.fga"}})
	// (b)+(c) rapid manifests
	if !failed {
		t.Run("manifests", rapid.MakeCheck(func(rt *rapid.T) {
			noiseCall(rt) // one case in three is preceded by an unrelated, mostly failing call (see noise_test.go)
			in := c15GenManifest(rt)
			if c15LastAccepted != "" && rapid.Bool().Draw(rt, "holdEarlier") {
				in.Earlier = c15LastAccepted
			}
			nt := false
			cls := []string{}
			for _, e := range in.Entries {
				if strings.ContainsAny(e.Raw, "%\\+") {
					nt = true
				}
				if e.NonString != "" {
					cls = append(cls, "manifest:non-string-item")
				}
			}
			for _, mark := range []string{"|-", ">-", "&a", "!!str", "{", "[", "\r\n", "#"} {
				if strings.Contains(in.Text, mark) {
					nt = true
					cls = append(cls, "style:"+strings.TrimSpace(strings.ReplaceAll(mark, "\r\n", "crlf")))
				}
			}
			msg, _ := c15Check(in)
			switch {
			case !in.SchemaOK:
				cls = append(cls, "manifest:bad-schema")
			case !in.HasContents:
				cls = append(cls, "manifest:bad-contents")
			}
			_, err := transformer.TransformModFile(in.Text)
			if err == nil {
				c15LastAccepted = in.Text
				cls = append(cls, "verdict:accepted")
			} else {
				cls = append(cls, "verdict:rejected")
			}
			sort.Strings(cls)
			var sample any
			if nt {
				sample = map[string]any{"manifest": in.Text, "accepted": err == nil}
			}
			rec.Case(in.Text, nt, sample, cls...)
			if msg != "" {
				rec.Violation(in, msg)
				rt.Fatalf("%s\n--- manifest:\n%s", msg, in.Text)
			}
		}))
	}
	if n := rec.Count("verdict:accepted") + rec.Count("verdict:rejected"); n >= 200 && (rec.Count("verdict:accepted")*20 < n || rec.Count("verdict:rejected")*20 < n) {
		ev.HarnessError("C15", "manifest generator starved: accepted=%d rejected=%d", rec.Count("verdict:accepted"), rec.Count("verdict:rejected"))
		t.Fail()
	}
}

func TestReplayC15(t *testing.T) {
	for _, f := range ev.ReplayFiles("C15") {
		var in c15Input
		if _, err := ev.LoadReplay(f, &in); err != nil {
			t.Fatalf("%s: %v", f, err)
		}
		rec := ev.New("C15", c15Rule)
		msg, rest := c15Check(in)
		if msg == "" && len(rest) > 0 && len(rest) < len(in.Entries) {
			var surv []string
			for _, i := range rest {
				if in.Entries[i].NonString == "" {
					surv = append(surv, in.Entries[i].Raw)
				}
			}
			in2 := c15BatchManifest(surv)
			if _, err := transformer.TransformModFile(in2.Text); err != nil {
				msg = "entries that drew no error inside a rejected manifest are rejected when listed alone: " + describe(err)
			} else {
				msg, _ = c15Check(in2)
			}
		}
		if msg != "" {
			rec.Violation(in, msg)
			t.Errorf("%s: %s", f, msg)
		}
	}
}
