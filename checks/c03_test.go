package checks

// C03 — every grammatical layout of a model parses, and to exactly the model written.
// Domain: gen.DSLModel (dsl profile, rich identifiers, conditions) x gen.Render with rapid-drawn
// layout, model files and module files. Every rendered document is first validated against the
// repository's .g4 grammar by the independent recogniser (strict comment stripping): a rendering
// the grammar does not derive is a harness error, never a violation.

import (
	"fmt"
	"strings"
	"testing"

	"github.com/openfga/language/pkg/go/transformer"
	"google.golang.org/protobuf/proto"
	"pgregory.net/rapid"

	"verif/internal/ev"
	"verif/internal/g4"
	"verif/internal/gen"
)

const c03Rule = "rapid-generated DSL-expressible models (0-4 types, 0-4 relations, operator nesting depth <= 3, identifiers from every lexer shape incl. the six keywords " +
	"usable as names, conditions with all parameter types, single- and multi-line expressions) rendered by an independent renderer whose every layout choice is a rapid " +
	"draw (indentation spaces/tabs/none, blank and whitespace-only lines, CRLF, optional/extra blanks at every WHITESPACE position, multi-line restrictions, full-line and " +
	"trailing comments, redundant parentheses, trailing whitespace, no final newline); model files and module files (with extend type). Each rendering is checked to be " +
	"derivable from OpenFGAParser.g4 by an independent recogniser. Oracle: the parsed model equals the rendered AST (types in order, rewrite trees, restrictions in order, " +
	"conditions, parameter types, expressions modulo whitespace, module attribution, extension map) and equals the parse of the canonical layout. Additionally, for every " +
	"model all single deviations from the canonical layout are enumerated (one factor at a time). Non-trivial = layout uses >= 3 feature classes; distinct by document text."

// c03Check returns (violation, harnessError).
func c03Check(in layoutInput) (string, string, *gen.Rendered) {
	if in.After != "" {
		_, _ = transformer.TransformDSLToProto(in.After)
		_, _, _ = transformer.TransformModularDSLToProto(in.After)
	}
	r := in.render()
	g := repoGrammar()
	// "Layout the grammar allows" = the documented pre-pass (comment lines blanked, trailing " #..." cut, trailing blanks
	// and tabs and final newlines removed) followed by derivability from OpenFGAParser.g4.
	// The renderer writes what was legal at the pinned commit (every feature it uses is named in the property); a
	// document is in the domain when the grammar as pinned OR the grammar as it stands derives it. If neither does, the
	// renderer is unsound (harness error). A grammar that was narrowed after the pinned commit therefore shows up as a
	// rejected grammatical layout, not as an inconclusive self-check.
	if !g4.DerivablePinnedLenient(r.Text) && !g4.DerivableLenient(g, r.Text) {
		return "", fmt.Sprintf("renderer produced a document the grammar does not derive:\n%q", r.Text), r
	}
	want := expectedFromAST(in.Model, in.Module, in.Extend)
	opts := gen.DiffOpts{Expr: gen.NormExprLoose}
	if in.Module == "" {
		pm, err := transformer.TransformDSLToProto(r.Text)
		if err != nil {
			return fmt.Sprintf("TransformDSLToProto rejected a grammatical layout: %s", describe(err)), "", r
		}
		if pm == nil {
			return "TransformDSLToProto returned nil model and nil error", "", r
		}
		if d := gen.Diff(want, gen.FromProto(pm), opts); d != "" {
			return "parsed model differs from the model written (written vs parsed): " + d, "", r
		}
		// same through the JSON path
		js, err := transformer.TransformDSLToJSON(r.Text)
		if err != nil {
			return "TransformDSLToJSON rejected what TransformDSLToProto accepted: " + describe(err), "", r
		}
		pm2, err := transformer.LoadJSONStringToProto(js)
		if err != nil {
			return "JSON produced by TransformDSLToJSON does not load: " + describe(err), "", r
		}
		if d := gen.Diff(want, gen.FromProto(pm2), opts); d != "" {
			return "model parsed through the JSON API differs from the model written: " + d, "", r
		}
		// metamorphic: canonical layout of the same model
		canon := gen.Render(in.Model, gen.Canonical{}, gen.RenderOpts{})
		pc, err := transformer.TransformDSLToProto(canon.Text)
		if err != nil {
			return "canonical layout rejected: " + describe(err), "", r
		}
		if !proto.Equal(normaliseExprs(pc), normaliseExprs(pm)) {
			return "two layouts of one model parse to different models (proto.Equal, expressions modulo whitespace)", "", r
		}
		return "", "", r
	}
	pm, ext, err := transformer.TransformModularDSLToProto(r.Text)
	if err != nil {
		return fmt.Sprintf("TransformModularDSLToProto rejected a grammatical layout: %s", describe(err)), "", r
	}
	if d := gen.Diff(want, gen.FromProto(pm), opts); d != "" {
		return "parsed module differs from the module written (written vs parsed): " + d, "", r
	}
	wantExt := map[string]bool{}
	for i, t := range in.Model.Types {
		if in.Extend[i] {
			wantExt[t.Name] = true
		}
	}
	if len(ext) != len(wantExt) {
		return fmt.Sprintf("extension map has keys %v, the file extends %v", sortedKeys(ext), sortedKeys(wantExt)), "", r
	}
	for k, td := range ext {
		if !wantExt[k] || td.GetType() != k {
			return fmt.Sprintf("extension map has keys %v, the file extends %v", sortedKeys(ext), sortedKeys(wantExt)), "", r
		}
	}
	canon := gen.Render(in.Model, gen.Canonical{}, gen.RenderOpts{Module: in.Module, Extend: in.Extend})
	pc, _, err := transformer.TransformModularDSLToProto(canon.Text)
	if err != nil {
		return "canonical module layout rejected: " + describe(err), "", r
	}
	if !proto.Equal(normaliseExprs(pc), normaliseExprs(pm)) {
		return "two layouts of one module parse to different models", "", r
	}
	return "", "", r
}

// c03DrawInput draws model, file kind and layout.
func c03DrawInput(rt *rapid.T) (layoutInput, *gen.Rendered) {
	m := gen.DSLModel(rt, gen.DSLOpts{Rich: true, Conditions: true, MultiLine: true, Scale: true})
	in := layoutInput{Model: m}
	if rapid.IntRange(0, 3).Draw(rt, "modular") == 0 {
		in.Module = gen.Ident(rt, gen.IdentKeywordOK, true, "module")
		in.Extend = map[int]bool{}
		for i, t := range m.Types {
			// an extension must have relations to make sense; names must be unique among extensions
			if len(t.Rels) > 0 && rapid.IntRange(0, 2).Draw(rt, "ext") == 0 {
				in.Extend[i] = true
			}
		}
	}
	ch := &rapidChooser{t: rt}
	r := gen.Render(m, ch, gen.RenderOpts{Module: in.Module, Extend: in.Extend})
	in.Choices = ch.rec
	return in, r
}

func TestC03(t *testing.T) {
	rec := ev.New("C03", c03Rule)
	defer func() {
		if !rec.Flush() {
			t.Fail()
		}
	}()
	rec.Assume("the .g4 recogniser in internal/g4 and the strict comment stripper define 'layout the grammar allows'; comment lines are indented with spaces only",
		"condition bodies carry no comments ('#' inside a condition is outside the property's domain)")
	for _, c := range []string{"layout:tabs", "layout:crlf", "layout:comment-lines", "layout:trailing-comments", "layout:multi-line-restrictions", "layout:redundant-parens", "model:keyword-identifier", "layout:trailing-whitespace", "layout:no-final-newline", "file:module"} {
		rec.Require(c, 0.03)
	}
	rec.Require("model:scaled", 0.05)
	harness := false
	// boundary models (fixed, legal, at the edges of the input space), canonical layout
	if ev.Shard()%4 == 0 {
		for _, b := range gen.BoundaryModels() {
			in := layoutInput{Model: b.Model}
			msg, herr, _ := c03Check(in)
			rec.Case("boundary: "+b.Name, true, nil, "origin:boundary")
			if herr != "" {
				ev.HarnessError("C03", "boundary model %s: %s", b.Name, herr)
				t.Fatalf("harness: %s", herr)
			}
			if msg != "" {
				rec.Violation(layoutInput{Text: "boundary model: " + b.Name}, "boundary model ("+b.Name+"): "+msg)
				t.Fatalf("boundary model %s: %.2000s", b.Name, msg)
			}
		}
	}
	rapid.Check(t, func(rt *rapid.T) {
		noiseCall(rt) // one case in three is preceded by an unrelated, mostly failing call (see noise_test.go)
		in, r0 := c03DrawInput(rt)
		msg, herr, r := c03Check(in)
		if r.Text != r0.Text {
			herr = "replayed layout differs from the drawn one (renderer is not a function of the choice vector)"
		}
		cls := append(featureList(r), modelClasses(in.Model)...)
		if in.Module != "" {
			cls = append(cls, "file:module")
			if len(in.Extend) > 0 {
				cls = append(cls, "file:module-with-extend")
			}
		} else {
			cls = append(cls, "file:model")
		}
		nt := r.CountFeatures() >= 3
		var sample any
		if nt {
			sample = map[string]any{"dsl": r.Text, "features": featureList(r)}
		}
		rec.Case(r.Text, nt, sample, cls...)
		if herr != "" {
			if !harness {
				ev.HarnessError("C03", "%s", herr)
			}
			harness = true
			rt.Fatalf("harness: %s", herr)
		}
		if msg != "" {
			in.Text = r.Text
			rec.Violation(in, msg)
			rt.Fatalf("%s\n%s", msg, r.Text)
		}
		// checksum twins: this document, then a different model in the same layout, made equal to it in length, CRC-32
		// and CRC-64 by a trailing comment line; the second parse must return the second model
		if rapid.IntRange(0, 7).Draw(rt, "twin") == 0 {
			m2 := in.Model.Clone()
			m2.Types = append(m2.Types, gen.TypeDef{Name: "zz-twin"})
			in2 := layoutInput{Model: m2, Module: in.Module, Extend: in.Extend, Choices: in.Choices}
			if a2, b2, ok := gen.ChecksumTwins(r.Text, in2.render().Text); ok {
				in2.After, in2.Suffix = a2, b2[len(in2.render().Text):]
				msg2, herr2, r2 := c03Check(in2)
				rec.Class("history:checksum-twin-parsed-after-its-twin", 1)
				if herr2 != "" {
					harness = true
					ev.HarnessError("C03", "checksum twin: %s", herr2)
					rt.Fatalf("harness: %s", herr2)
				}
				if msg2 != "" {
					in2.Text = r2.Text
					rec.Violation(in2, "document parsed right after a different document of the same length and checksums: "+msg2)
					rt.Fatalf("checksum twin: %s\n%s", msg2, r2.Text)
				}
			}
		}
		// one-factor-at-a-time enumeration around the canonical layout for a subset of cases
		nRels := 0
		for _, td := range in.Model.Types {
			nRels += len(td.Rels)
		}
		if nRels <= 2 && len(in.Model.Conds) <= 1 && rapid.IntRange(0, 3).Draw(rt, "ofat") == 0 {
			base := &vectorChooser{}
			gen.Render(in.Model, base, gen.RenderOpts{Module: in.Module, Extend: in.Extend})
			n := 0
			for i, radix := range base.radices {
				for v := 1; v < radix; v++ {
					vec := make([]int, i+1)
					vec[i] = v
					in2 := layoutInput{Model: in.Model, Module: in.Module, Extend: in.Extend, Choices: vec}
					msg, herr, r2 := c03Check(in2)
					n++
					if herr != "" {
						harness = true
						ev.HarnessError("C03", "%s", herr)
						rt.Fatalf("harness: %s", herr)
					}
					if msg != "" {
						in2.Text = r2.Text
						rec.Violation(in2, msg)
						rt.Fatalf("single-deviation layout: %s\n%s", msg, r2.Text)
					}
				}
			}
			rec.Class("layout:single-deviation-layouts-enumerated", int64(n))
		}
	})
	if harness {
		t.Fail()
	}
}

func TestReplayC03(t *testing.T) {
	for _, f := range ev.ReplayFiles("C03") {
		var in layoutInput
		if _, err := ev.LoadReplay(f, &in); err != nil {
			t.Fatalf("%s: %v", f, err)
		}
		rec := ev.New("C03", c03Rule)
		name := in.Text
		if in.Model == nil && strings.HasPrefix(in.Text, "boundary model: ") {
			for _, b := range gen.BoundaryModels() {
				if "boundary model: "+b.Name == in.Text {
					in = layoutInput{Model: b.Model}
				}
			}
		}
		if in.Model == nil {
			t.Fatalf("%s: no model", f)
		}
		msg, herr, _ := c03Check(in)
		if herr != "" {
			ev.HarnessError("C03", "%s: %s", f, herr)
			t.Errorf("%s: harness: %s", f, herr)
		}
		if msg != "" {
			if strings.HasPrefix(name, "boundary model: ") {
				in = layoutInput{Text: name}
			}
			rec.Violation(in, msg)
			t.Errorf("%s: %.2000s", f, msg)
		}
	}
}
