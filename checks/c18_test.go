package checks

// C18 — tuple-field validators accept only unambiguously decomposable strings; length limits are
// exact; the five rule strings equal those of the JS and Java packages.
//
// Oracle = the property statement itself, evaluated with the validators (decomposition laws) and
// with hand-written rune predicates (no regexp) for whitespace / forbidden characters / lengths.
// Nothing is demanded about *which* well-formed strings must be accepted beyond the length
// boundaries on plain letter/digit fillers, so a consistent, benign change of a rule in all
// three packages does not raise an alarm.

import (
	"fmt"
	"os"
	"path/filepath"
	"regexp"
	"runtime"
	"strconv"
	"strings"
	"sync"
	"testing"

	"github.com/openfga/language/pkg/go/validation"
	"pgregory.net/rapid"

	"verif/internal/ev"
)

type c18Input struct {
	Bytes  []byte `json:"bytes"`  // the string under test (base64 in JSON, may be invalid UTF-8)
	Quoted string `json:"quoted"` // %q rendering for the reader
}

func c18In(s string) c18Input { return c18Input{Bytes: []byte(s), Quoted: strconv.Quote(s)} }

// RE2's \s class.
func c18IsSpace(r rune) bool { return r == ' ' || r == '\t' || r == '\n' || r == '\f' || r == '\r' }

func c18HasSpace(s string) bool {
	for _, r := range s {
		if c18IsSpace(r) {
			return true
		}
	}
	return false
}

type c18Verdicts struct {
	object, userSet, userObject, userWildcard, user, typ, relation, id, cond bool
}

func c18Eval(s string) c18Verdicts {
	return c18Verdicts{
		object:       validation.ValidateObject(s),
		userSet:      validation.ValidateUserSet(s),
		userObject:   validation.ValidateUserObject(s),
		userWildcard: validation.ValidateUserWildcard(s),
		user:         validation.ValidateUser(s),
		typ:          validation.ValidateType(s),
		relation:     validation.ValidateRelation(s),
		id:           validation.ValidateObjectID(s),
		cond:         validation.ValidateRelationshipCondition(s),
	}
}

func (v c18Verdicts) accepted() int {
	n := 0
	for _, b := range []bool{v.object, v.userSet, v.userObject, v.userWildcard, v.user, v.typ, v.relation, v.id, v.cond} {
		if b {
			n++
		}
	}
	return n
}

// c18Check evaluates every law of the property on one string; "" = holds.
func c18Check(s string) (string, c18Verdicts) {
	v := c18Eval(s)
	runes := len([]rune(s))
	colons, hashes := strings.Count(s, ":"), strings.Count(s, "#")

	objectLaw := func(name, x string) string {
		if strings.Count(x, ":") != 1 {
			return fmt.Sprintf("%s accepted %q which has %d ':'", name, x, strings.Count(x, ":"))
		}
		i := strings.IndexByte(x, ':')
		if !validation.ValidateType(x[:i]) {
			return fmt.Sprintf("%s accepted %q but its type part %q is not an accepted type", name, x, x[:i])
		}
		if !validation.ValidateObjectID(x[i+1:]) {
			return fmt.Sprintf("%s accepted %q but its id part %q is not an accepted object id", name, x, x[i+1:])
		}
		return ""
	}
	if v.object {
		if m := objectLaw("ValidateObject", s); m != "" {
			return m, v
		}
		if runes < 2 || runes > 256 {
			return fmt.Sprintf("ValidateObject accepted a string of %d characters (limit 2..256)", runes), v
		}
		if c18HasSpace(s) {
			return fmt.Sprintf("ValidateObject accepted %q which contains whitespace", s), v
		}
	}
	if v.userObject {
		if m := objectLaw("ValidateUserObject", s); m != "" {
			return m, v
		}
		if runes < 2 || runes > 256 {
			return fmt.Sprintf("ValidateUserObject accepted a string of %d characters (limit 2..256)", runes), v
		}
	}
	if v.userSet {
		if hashes != 1 || colons != 1 {
			return fmt.Sprintf("ValidateUserSet accepted %q which has %d '#' and %d ':'", s, hashes, colons), v
		}
		h := strings.IndexByte(s, '#')
		if m := objectLaw("ValidateUserSet(object part)", s[:h]); m != "" {
			return m, v
		}
		if !validation.ValidateRelation(s[h+1:]) {
			return fmt.Sprintf("ValidateUserSet accepted %q but %q is not an accepted relation", s, s[h+1:]), v
		}
	}
	if v.userWildcard {
		if !strings.HasSuffix(s, ":*") || !validation.ValidateType(strings.TrimSuffix(s, ":*")) {
			return fmt.Sprintf("ValidateUserWildcard accepted %q which is not <accepted type>:*", s), v
		}
	}
	// user <=> exactly one of userset / object / wildcard
	n := 0
	for _, b := range []bool{v.userSet, v.object, v.userWildcard} {
		if b {
			n++
		}
	}
	if v.user && n != 1 {
		return fmt.Sprintf("ValidateUser accepted %q but %d of userset/object/wildcard accept it (userset=%v object=%v wildcard=%v)", s, n, v.userSet, v.object, v.userWildcard), v
	}
	if !v.user && n >= 1 {
		return fmt.Sprintf("ValidateUser rejected %q although userset=%v object=%v wildcard=%v", s, v.userSet, v.object, v.userWildcard), v
	}
	if n > 1 {
		return fmt.Sprintf("%q is accepted as more than one of userset/object/wildcard", s), v
	}
	// whitespace and forbidden characters
	for _, c := range []struct {
		name string
		ok   bool
		bad  string
		max  int
	}{
		{"ValidateType", v.typ, ":#@*", 254},
		{"ValidateRelation", v.relation, ":#@*", 50},
		{"ValidateObjectID", v.id, "", 0},
		{"ValidateRelationshipCondition", v.cond, "", 50},
	} {
		if !c.ok {
			continue
		}
		if c18HasSpace(s) {
			return fmt.Sprintf("%s accepted %q which contains whitespace", c.name, s), v
		}
		if c.bad != "" && strings.ContainsAny(s, c.bad) {
			return fmt.Sprintf("%s accepted %q which contains one of %q", c.name, s, c.bad), v
		}
		if runes == 0 {
			return fmt.Sprintf("%s accepted the empty string", c.name), v
		}
		if c.max > 0 && runes > c.max {
			return fmt.Sprintf("%s accepted a string of %d characters (limit %d)", c.name, runes, c.max), v
		}
	}
	return "", v
}

// one representative per character class the rules distinguish
var c18Alphabet = []string{":", "#", "@", "*", " ", "\t", "\n", "\r", "\f", "a", "7", "_", "|", ".", "+", "-", "/", "é", "\U0001F600", "\xff"}

// reduced alphabet for one extra length in the thorough tier
var c18Reduced = []string{":", "#", "@", "*", " ", "a", "7", "|", "é", "\xff"}

func c18Enumerate(alphabet []string, minLen, maxLen int, shard, shards int, f func(string)) int64 {
	var n int64
	var rec func(prefix string, depth int)
	k := len(alphabet)
	idx := int64(0)
	rec = func(prefix string, depth int) {
		if depth >= minLen {
			if idx%int64(shards) == int64(shard) {
				f(prefix)
				n++
			}
			idx++
		}
		if depth == maxLen {
			return
		}
		for i := 0; i < k; i++ {
			rec(prefix+alphabet[i], depth+1)
		}
	}
	rec("", 0)
	return n
}

const c18Rule = "exhaustive: every string over an 20-symbol character-class alphabet (one representative per class the rules " +
	"distinguish: : # @ * space tab newline letter digit _ | . + - / é emoji invalid-byte) up to length 3 (quick) / 4 (thorough, plus " +
	"length 5 over a 10-symbol sub-alphabet); " +
	"boundary lengths {0,1,2,49,50,51,253,254,255,256,257} x filler classes x field positions; rapid: random unicode and " +
	"structured type:id#relation strings. Non-trivial = accepted by at least one and rejected by at least one of the nine " +
	"validators (the string separates validators), distinct by content."

func TestC18(t *testing.T) {
	rec := ev.New("C18", c18Rule)
	defer func() {
		if !rec.Flush() {
			t.Fail()
		}
	}()
	rec.Assume("whitespace = RE2's \\s class {space,\\t,\\n,\\f,\\r} (the rules' own class; \\v and NBSP are not whitespace for Go's regexp)",
		"lengths are counted in Unicode code points (Go regexp semantics)",
		"JS/Java rule strings are compared as source literals after unescaping; JS and Java are not executed")
	failed := false
	report := func(s, what string) {
		rec.Violation(c18In(s), what)
		failed = true
	}

	// (1) rule-string identity, exhaustive over the 15 strings
	if ev.Shard() == 0 {
		if msg := c18RuleIdentity(rec); msg != "" {
			report("", msg)
			t.Errorf("%s", msg)
		}
	}

	// (2) exhaustive enumeration over the class alphabet
	// the library compiles 1-2 regexps with {1,254}/{2,256} repetitions per call (~0.7 ms each, ~13 per
	// string), which bounds the enumeration: quick = length <= 3 (8 421 strings), thorough = length <= 4
	// (168 421) plus length 5 over a reduced 10-symbol alphabet (100 000).
	maxLen := 3
	if ev.Thorough() {
		maxLen = 4
	}
	workers := runtime.NumCPU() / ev.Shards()
	if workers < 1 {
		workers = 1
	}
	var mu sync.Mutex
	var firstBad, firstMsg string
	ch := make(chan string, 4096)
	var wg sync.WaitGroup
	var evals, nontriv int64
	classes := map[string]int64{}
	var samples []c18Input
	for w := 0; w < workers; w++ {
		wg.Add(1)
		go func() {
			defer wg.Done()
			var le, ln int64
			lc := map[string]int64{}
			for s := range ch {
				msg, v := c18Check(s)
				le++
				a := v.accepted()
				if a > 0 && a < 9 {
					ln++
					if v.object {
						lc["enum:accepted_object"]++
					}
					if v.userSet {
						lc["enum:accepted_userset"]++
					}
					if v.userWildcard {
						lc["enum:accepted_wildcard"]++
					}
					if v.typ {
						lc["enum:accepted_type"]++
					}
					if v.id {
						lc["enum:accepted_id"]++
					}
				}
				if msg != "" {
					mu.Lock()
					if firstBad == "" || len(s) < len(firstBad) {
						firstBad, firstMsg = s, msg
					}
					mu.Unlock()
				}
			}
			mu.Lock()
			evals += le
			nontriv += ln
			for k, v := range lc {
				classes[k] += v
			}
			mu.Unlock()
		}()
	}
	feed := func(s string) {
		ch <- s
		if len(samples) < 3 && (s == "a:7" || s == "a:7#a" || s == "a:*") {
			samples = append(samples, c18In(s))
		}
	}
	c18Enumerate(c18Alphabet, 0, maxLen, ev.Shard(), ev.Shards(), feed)
	if ev.Thorough() {
		c18Enumerate(c18Reduced, 5, 5, ev.Shard(), ev.Shards(), feed)
	}
	close(ch)
	wg.Wait()
	rec.Bulk(evals, nontriv, classes)
	for _, s := range samples {
		rec.Sample(s)
	}
	rec.Note("enumerated all strings of length <= %d over %d class representatives (this process: %d strings)", maxLen, len(c18Alphabet), evals)
	if firstBad != "" {
		report(firstBad, firstMsg)
		t.Errorf("enumeration: %s", firstMsg)
	}

	// (3) boundary lengths, shard 0 only (cheap, deterministic)
	if ev.Shard() == 0 {
		if s, msg := c18Boundaries(rec); msg != "" {
			report(s, msg)
			t.Errorf("boundaries: %s", msg)
		}
	}

	// (3b) glued keys: a verdict must not depend on calls made before. The nine validators have names that are prefixes of
	// one another (User / UserSet / UserObject / UserWildcard, Object / ObjectID); anything inside the package that files
	// results under <validator name> + <value> without a separator confuses validator A on x+s with validator B = A+x on
	// s. Every such pair of calls is made, in both orders, over a small set of values, and the second value is then
	// checked like any other string.
	if ev.Shard() == 0 && !failed {
		type namedV struct {
			name string
			f    func(string) bool
		}
		vs := []namedV{{"User", validation.ValidateUser}, {"UserSet", validation.ValidateUserSet}, {"UserObject", validation.ValidateUserObject}, {"UserWildcard", validation.ValidateUserWildcard},
			{"Object", validation.ValidateObject}, {"ObjectID", validation.ValidateObjectID}, {"Type", validation.ValidateType}, {"Relation", validation.ValidateRelation},
			{"RelationshipCondition", validation.ValidateRelationshipCondition}}
		values := []string{":a#member", ":1", ":*", "a:1", "a:b#c", "a:*", "1", "a", "#a", ":a", "a#b", ":", ""}
		var n int64
	glued:
		for _, a := range vs {
			for _, b := range vs {
				if a.name == b.name || !strings.HasPrefix(strings.ToLower(b.name), strings.ToLower(a.name)) {
					continue
				}
				rest := b.name[len(a.name):]
				for _, x := range []string{strings.ToLower(rest), rest, strings.ToUpper(rest)} {
					for _, v := range values {
						n += 2
						_ = a.f(x + v)
						if msg, _ := c18Check(v); msg != "" {
							msg = fmt.Sprintf("after Validate%s(%q): %s", a.name, x+v, msg)
							report(v, msg)
							t.Errorf("glued keys: %s", msg)
							break glued
						}
						_ = b.f(v)
						if msg, _ := c18Check(x + v); msg != "" {
							msg = fmt.Sprintf("after Validate%s(%q): %s", b.name, v, msg)
							report(x+v, msg)
							t.Errorf("glued keys: %s", msg)
							break glued
						}
					}
				}
			}
		}
		rec.Bulk(n, n, map[string]int64{"glued-keys:call-pairs": n})
	}

	// (4) random search
	if !failed {
		t.Run("random", rapid.MakeCheck(func(rt *rapid.T) {
			noiseCall(rt) // one case in three is preceded by an unrelated, mostly failing call (see noise_test.go)
			s := c18GenString(rt)
			msg, v := c18Check(s)
			a := v.accepted()
			cls := "random:rejected_by_all"
			if a > 0 {
				cls = "random:accepted_by_some"
			}
			rec.Case(s, a > 0 && a < 9, c18In(s), cls)
			if msg != "" {
				rec.Violation(c18In(s), msg)
				rt.Fatalf("%s", msg)
			}
		}))
	}
}

func c18GenString(t *rapid.T) string {
	part := func(label string) string {
		switch rapid.IntRange(0, 5).Draw(t, label+"kind") {
		case 0:
			return rapid.StringMatching(`[a-zA-Z0-9_]{0,6}`).Draw(t, label)
		case 1:
			return rapid.StringOfN(rapid.SampledFrom([]rune(":#@* \t\n\r\fa7_|.+-/é \u000b 😀\u212a\u0130\u017f\u0085ß")), 0, 6, -1).Draw(t, label)
		case 2:
			return rapid.String().Draw(t, label)
		case 3:
			n := rapid.SampledFrom([]int{1, 2, 49, 50, 51, 253, 254, 255, 256}).Draw(t, label+"n")
			return strings.Repeat(rapid.SampledFrom([]string{"a", "7", "_", "é", "|"}).Draw(t, label+"f"), n)
		case 4:
			b := rapid.SliceOfN(rapid.Byte(), 0, 5).Draw(t, label)
			return string(b)
		default:
			return rapid.StringMatching(`[a-z|*@.+]{1,4}`).Draw(t, label)
		}
	}
	switch rapid.IntRange(0, 5).Draw(t, "shape") {
	case 5:
		// an otherwise valid object / userset / wildcard with one character of a special class inserted at a drawn place
		// (form feed, vertical tab, NEL, NBSP, KELVIN SIGN, dotted capital I, long s, a delimiter)
		base := rapid.SampledFrom([]string{"document:1", "document:1#viewer", "group:eng#member", "user:*", "doc:x_y|z", "folder:a.b+c@d"}).Draw(t, "skeleton")
		ins := rapid.SampledFrom([]string{"\f", "\v", "\u0085", "\u00a0", "\u212a", "\u0130", "\u017f", "\t", " ", ":", "#", "*", "@", "\r", "\n"}).Draw(t, "insert")
		at := rapid.IntRange(0, len(base)).Draw(t, "insertAt")
		return base[:at] + ins + base[at:]
	case 0:
		return part("whole")
	case 1:
		return part("t") + ":" + part("i")
	case 2:
		return part("t") + ":" + part("i") + "#" + part("r")
	case 3:
		return part("t") + rapid.SampledFrom([]string{":*", ":**", "*:", ":* ", "::*", ":*#a"}).Draw(t, "w")
	default:
		seps := rapid.SliceOfN(rapid.SampledFrom([]string{":", "#", "@", "*", " ", ""}), 1, 4).Draw(t, "seps")
		s := ""
		for i, sep := range seps {
			s += part("p"+strconv.Itoa(i)) + sep
		}
		return s
	}
}

// c18Boundaries: length limits are enforced exactly, for every filler class and split position.
func c18Boundaries(rec *ev.Rec) (string, string) {
	// ASCII fillers plus BMP multi-byte fillers: Go counts code points, JS and Java count UTF-16 units,
	// which coincide on the BMP, so "characters" is unambiguous for these
	fillers := []string{"a", "Z", "7", "_", "é", "д", "中"}
	lens := []int{0, 1, 2, 49, 50, 51, 253, 254, 255, 256, 257}
	var n int64
	for _, f := range fillers {
		for _, l := range lens {
			s := strings.Repeat(f, l)
			n += 3
			if got, want := validation.ValidateType(s), l >= 1 && l <= 254; got != want {
				return s, fmt.Sprintf("ValidateType(%d x %q) = %v, documented limit 1..254", l, f, got)
			}
			if got, want := validation.ValidateRelation(s), l >= 1 && l <= 50; got != want {
				return s, fmt.Sprintf("ValidateRelation(%d x %q) = %v, documented limit 1..50", l, f, got)
			}
			if got, want := validation.ValidateRelationshipCondition(s), l >= 1 && l <= 50; got != want {
				return s, fmt.Sprintf("ValidateRelationshipCondition(%d x %q) = %v, documented limit 1..50", l, f, got)
			}
		}
		// objects: total length boundary 256 with every type/id split at the boundary lengths
		for _, tl := range []int{1, 2, 50, 127, 200, 253, 254, 255} {
			for _, total := range []int{3, 4, 255, 256, 257, 258} {
				il := total - tl - 1
				if il < 1 {
					continue
				}
				s := strings.Repeat(f, tl) + ":" + strings.Repeat(f, 1) + strings.Repeat("a", il-1)
				want := tl <= 254 && total <= 256
				n += 3
				if got := validation.ValidateObject(s); got != want {
					return s, fmt.Sprintf("ValidateObject(type %d + ':' + id %d = %d chars) = %v, want %v (type <= 254, object 2..256)", tl, il, total, got, want)
				}
				if got := validation.ValidateUserObject(s); got != want {
					return s, fmt.Sprintf("ValidateUserObject(type %d + ':' + id %d = %d chars) = %v, want %v", tl, il, total, got, want)
				}
				if got := validation.ValidateUser(s); got != want {
					return s, fmt.Sprintf("ValidateUser(object of %d chars) = %v, want %v", total, got, want)
				}
			}
		}
		// usersets: relation boundary 50, type boundary 254
		for _, rl := range []int{1, 49, 50, 51} {
			for _, tl := range []int{1, 254, 255} {
				s := strings.Repeat(f, tl) + ":x#" + strings.Repeat(f, rl)
				want := rl <= 50 && tl <= 254
				n++
				if got := validation.ValidateUserSet(s); got != want {
					return s, fmt.Sprintf("ValidateUserSet(type %d, relation %d) = %v, want %v", tl, rl, got, want)
				}
			}
		}
		for _, tl := range []int{1, 253, 254, 255} {
			s := strings.Repeat(f, tl) + ":*"
			n++
			if got, want := validation.ValidateUserWildcard(s), tl <= 254; got != want {
				return s, fmt.Sprintf("ValidateUserWildcard(type %d) = %v, want %v", tl, got, want)
			}
		}
	}
	rec.Bulk(n, n, map[string]int64{"boundary:cases": n})
	rec.Sample(map[string]any{"boundary": "ValidateObject(254 x 'a' + ':' + 'a') accepted, (255 x 'a' + ':' ...) rejected; relation 50/51; type 254/255"})
	return "", ""
}

var (
	c18ReTS   = regexp.MustCompile(`(?m)^\s*(type|relation|condition|id|object):\s*("(?:[^"\\]|\\.)*")\s*,`)
	c18ReJava = regexp.MustCompile(`(?m)String\s+(TYPE|RELATION|CONDITION|ID|OBJECT)\s*=\s*("(?:[^"\\]|\\.)*")\s*;`)
)

func c18Unescape(lit string) (string, error) {
	// Go's Unquote handles the escapes that occur in JS/Java double-quoted literals (\\ \" \n \t \uXXXX)
	return strconv.Unquote(lit)
}

func c18RuleIdentity(rec *ev.Rec) string {
	goRules := map[string]string{
		"type": string(validation.RuleType), "relation": string(validation.RuleRelation),
		"condition": string(validation.RuleCondition), "id": string(validation.RuleID), "object": string(validation.RuleObject),
	}
	read := func(rel string, re *regexp.Regexp) (map[string]string, string) {
		b, err := os.ReadFile(filepath.Join(ev.Repo(), rel))
		if err != nil {
			return nil, fmt.Sprintf("cannot read %s: %v", rel, err)
		}
		out := map[string]string{}
		for _, m := range re.FindAllStringSubmatch(string(b), -1) {
			v, err := c18Unescape(m[2])
			if err != nil {
				return nil, fmt.Sprintf("%s: cannot unescape %s", rel, m[2])
			}
			out[strings.ToLower(m[1])] = v
		}
		return out, ""
	}
	ts, msg := read("pkg/js/validator/validate-rules.ts", c18ReTS)
	if msg != "" {
		return msg
	}
	jv, msg := read("pkg/java/src/main/java/dev/openfga/language/validation/Validator.java", c18ReJava)
	if msg != "" {
		return msg
	}
	for k, g := range goRules {
		if t, ok := ts[k]; !ok || t != g {
			return fmt.Sprintf("rule %q differs: Go %q vs JS %q (found=%v)", k, g, t, ok)
		}
		if j, ok := jv[k]; !ok || j != g {
			return fmt.Sprintf("rule %q differs: Go %q vs Java %q (found=%v)", k, g, j, ok)
		}
	}
	rec.Bulk(15, 5, map[string]int64{"rules:strings_compared": 15})
	rec.Sample(map[string]any{"rule_strings": goRules})
	return ""
}

func TestReplayC18(t *testing.T) {
	for _, f := range ev.ReplayFiles("C18") {
		var in c18Input
		if _, err := ev.LoadReplay(f, &in); err != nil {
			t.Fatalf("%s: %v", f, err)
		}
		rec := ev.New("C18", c18Rule)
		if msg, _ := c18Check(string(in.Bytes)); msg != "" {
			rec.Violation(in, msg)
			t.Errorf("%s: %s", f, msg)
		}
		if string(in.Bytes) == "" {
			if msg := c18RuleIdentity(rec); msg != "" {
				rec.Violation(in, msg)
				t.Errorf("%s: %s", f, msg)
			}
		}
	}
}
