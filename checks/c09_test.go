package checks

// C09 — structurally invalid DSL is always rejected, wherever the defect occurs; and C16's
// exact-position half for listener-raised errors (the same injected documents are used).

import (
	"fmt"
	"regexp"
	"strconv"
	"strings"
	"testing"

	"github.com/openfga/language/pkg/go/transformer"
	"pgregory.net/rapid"

	"verif/internal/ev"
	"verif/internal/g4"
	"verif/internal/gen"
)

type injection struct {
	Kind     string `json:"kind"`
	Site     string `json:"site"`               // human readable site description
	Grammar  bool   `json:"grammar_level"`      // must be non-derivable (else: derivable, listener must reject)
	Offender string `json:"offender,omitempty"` // source-map key of the name the error must point at (listener-level)
	Depth    int    `json:"depth"`              // nesting depth of the site
	Late     bool   `json:"late"`               // not in the first relation of the first type
}

type c09Input struct {
	Model   *gen.Model   `json:"model"` // the model AFTER injection (renderer input)
	Module  string       `json:"module,omitempty"`
	Extend  map[int]bool `json:"extend,omitempty"`
	Header  string       `json:"header,omitempty"`
	Inj     injection    `json:"injection"`
	Choices []int        `json:"choices"`
	Text    string       `json:"text,omitempty"`
	// checksum twins (gen.ChecksumTwins): After is an ACCEPTABLE document of the same length and the same CRC-32 / CRC-64
	// checksums as the injected one; it is parsed first. Suffix is the comment line that makes the injected document its twin.
	After  string `json:"parsed_first,omitempty"`
	Suffix string `json:"suffix,omitempty"`
}

func (in c09Input) render() *gen.Rendered {
	r := gen.Render(in.Model, &vectorChooser{digits: in.Choices}, gen.RenderOpts{Module: in.Module, Extend: in.Extend, Header: in.Header})
	r.Text += in.Suffix
	return r
}

var injectionKinds = []string{
	"mixed-operators", "this-not-first", "mixed-operators", "this-not-first", "empty-restrictions", "wildcard-with-relation", "duplicate-relation", "duplicate-condition",
	"duplicate-parameter", "extend-in-model", "type-extended-twice", "both-headers", "no-header", "container-bare", "container-nested",
}

// opNodes lists the operator nodes of a rewrite with their depth.
func opNodes(r *gen.Rewrite) (nodes []*gen.Rewrite, depths []int) {
	r.Walk(func(x *gen.Rewrite, d int) {
		if x.IsOp() {
			nodes = append(nodes, x)
			depths = append(depths, d)
		}
	})
	return
}

func otherOp(t *rapid.T, kind string) string {
	var c []string
	for _, k := range []string{gen.Union, gen.Intersection, gen.Difference} {
		if k != kind {
			c = append(c, k)
		}
	}
	return rapid.SampledFrom(c).Draw(t, "otherOp")
}

// c09Inject draws a valid model, applies exactly one injection and returns the renderer input.
// atThreshold: one injection in four happens at a position next to a power of two (the 8th/9th, 16th/17th, 32nd/33rd or
// last element) of a container that is first grown to hold that many elements. It returns the wanted length and index.
func atThreshold(t *rapid.T, label string) (grow, idx int, ok bool) {
	if rapid.IntRange(0, 3).Draw(t, label+"AtThreshold") != 0 {
		return 0, 0, false
	}
	grow = rapid.SampledFrom([]int{9, 10, 17, 18, 33, 34}).Draw(t, label+"Grow")
	var cands []int
	for _, c := range []int{7, 8, 15, 16, 31, 32, grow - 1} {
		if c < grow {
			cands = append(cands, c)
		}
	}
	return grow, rapid.SampledFrom(cands).Draw(t, label+"Idx"), true
}

func c09Inject(t *rapid.T) (c09Input, bool) {
	m := gen.DSLModel(t, gen.DSLOpts{Rich: true, Conditions: true, MultiLine: true, MaxTypes: 4, MaxRels: 4, Scale: true})
	in := c09Input{Model: m}
	kind := rapid.SampledFrom(injectionKinds).Draw(t, "injKind")
	inj := injection{Kind: kind}
	// make sure the model offers a site
	ensureRel := func() (int, int) {
		var sites [][2]int
		for ti, td := range m.Types {
			for ri := range td.Rels {
				sites = append(sites, [2]int{ti, ri})
			}
		}
		if len(sites) == 0 {
			if len(m.Types) == 0 {
				m.Types = append(m.Types, gen.TypeDef{Name: "doc"})
			}
			m.Types[0].Rels = append(m.Types[0].Rels, gen.Relation{Name: "viewer", Rw: &gen.Rewrite{Kind: gen.Computed, Rel: "x"}})
			return 0, 0
		}
		s := rapid.SampledFrom(sites).Draw(t, "relSite")
		return s[0], s[1]
	}
	ensureCond := func() int {
		if len(m.Conds) == 0 {
			m.Conds = append(m.Conds, gen.Condition{Name: "cnd", Params: []gen.Param{{Name: "x", Type: "int"}}, Expr: "x > 1"})
		}
		return rapid.IntRange(0, len(m.Conds)-1).Draw(t, "condSite")
	}
	switch kind {
	case "mixed-operators":
		ti, ri := ensureRel()
		rel := &m.Types[ti].Rels[ri]
		ops, depths := opNodes(rel.Rw)
		if len(ops) == 0 {
			// a leaf definition: make it "leaf op1 x op2 y"
			first := rel.Rw
			rel.Rw = &gen.Rewrite{Kind: rapid.SampledFrom([]string{gen.Union, gen.Intersection}).Draw(t, "k"), Kids: []*gen.Rewrite{first, {Kind: gen.Computed, Rel: "m1"}, {Kind: gen.Computed, Rel: "m2"}}}
			ops, depths = []*gen.Rewrite{rel.Rw}, []int{0}
		}
		i := rapid.IntRange(0, len(ops)-1).Draw(t, "opSite")
		if j := rapid.IntRange(0, len(ops)-1).Draw(t, "opSite2"); depths[j] > depths[i] {
			i = j // prefer deeper sites
		}
		op := ops[i]
		if op.Kind == gen.Difference {
			// "a but not b <op> c"
			op.Kids = append(op.Kids, &gen.Rewrite{Kind: gen.Computed, Rel: "m3"})
			op.Mixed = rapid.SampledFrom([]string{gen.Union, gen.Intersection, gen.Difference}).Draw(t, "mixWith")
		} else {
			if len(op.Kids) < 3 {
				op.Kids = append(op.Kids, &gen.Rewrite{Kind: gen.Computed, Rel: "m3"})
			}
			op.Mixed = otherOp(t, op.Kind)
		}
		inj.Grammar, inj.Depth, inj.Late = true, depths[i], ti > 0 || ri > 0
		inj.Site = fmt.Sprintf("%s#%s operator #%d at depth %d", m.Types[ti].Name, rel.Name, i, depths[i])
	case "this-not-first":
		ti, ri := ensureRel()
		rel := &m.Types[ti].Rels[ri]
		// remove an existing direct assignment, then put one at a non-first position
		rel.Rw.Walk(func(x *gen.Rewrite, _ int) {
			if x.Kind == gen.This {
				x.Kind, x.Rel = gen.Computed, "was_this"
			}
		})
		if len(rel.Restr) == 0 {
			rel.Restr = []gen.Restriction{{Type: "user"}}
		}
		ops, depths := opNodes(rel.Rw)
		this := &gen.Rewrite{Kind: gen.This}
		if len(ops) == 0 {
			rel.Rw = &gen.Rewrite{Kind: rapid.SampledFrom([]string{gen.Union, gen.Intersection, gen.Difference}).Draw(t, "k"), Kids: []*gen.Rewrite{rel.Rw, this}}
			inj.Depth = 0
		} else {
			i := rapid.IntRange(0, len(ops)-1).Draw(t, "opSite")
			if j := rapid.IntRange(0, len(ops)-1).Draw(t, "opSite2"); depths[j] > depths[i] {
				i = j
			}
			op := ops[i]
			inj.Depth = depths[i]
			if op.Kind == gen.Difference {
				op.Kids[1] = this
			} else {
				pos := rapid.IntRange(1, len(op.Kids)).Draw(t, "operandPos")
				op.Kids = append(op.Kids[:pos:pos], append([]*gen.Rewrite{this}, op.Kids[pos:]...)...)
			}
		}
		inj.Grammar, inj.Late = true, ti > 0 || ri > 0
		inj.Site = fmt.Sprintf("%s#%s depth %d", m.Types[ti].Name, rel.Name, inj.Depth)
	case "empty-restrictions", "wildcard-with-relation":
		ti, ri := ensureRel()
		rel := &m.Types[ti].Rels[ri]
		if rel.Rw.CountThis() == 0 {
			// give the relation a direct assignment in first position
			if rel.Rw.IsOp() && rel.Rw.Kind != gen.Difference {
				rel.Rw.Kids = append([]*gen.Rewrite{{Kind: gen.This}}, rel.Rw.Kids...)
			} else {
				rel.Rw = &gen.Rewrite{Kind: gen.Union, Kids: []*gen.Rewrite{{Kind: gen.This}, rel.Rw}}
			}
		}
		if kind == "empty-restrictions" {
			rel.Restr = nil
		} else {
			if len(rel.Restr) == 0 {
				rel.Restr = []gen.Restriction{{Type: "user"}}
			}
			i := rapid.IntRange(0, len(rel.Restr)-1).Draw(t, "restrSite")
			rel.Restr[i].Wild, rel.Restr[i].Rel = true, "member"
			inj.Site = fmt.Sprintf("restriction #%d", i)
		}
		inj.Grammar, inj.Late = true, ti > 0 || ri > 0
		inj.Site = fmt.Sprintf("%s#%s %s", m.Types[ti].Name, rel.Name, inj.Site)
	case "duplicate-relation":
		ti, ri := ensureRel()
		td := &m.Types[ti]
		if grow, idx, ok := atThreshold(t, "dupRel"); ok {
			have := map[string]bool{}
			for _, r := range td.Rels {
				have[r.Name] = true
			}
			for i := 0; len(td.Rels) < grow; i++ {
				if nm := fmt.Sprintf("g%02d", i); !have[nm] {
					td.Rels = append(td.Rels, gen.Relation{Name: nm, Rw: &gen.Rewrite{Kind: gen.Computed, Rel: "x"}})
				}
			}
			ri = idx
		}
		dup := td.Rels[ri]
		dup.Rw = dup.Rw.Clone()
		if rapid.Bool().Draw(t, "otherDef") {
			dup.Rw = &gen.Rewrite{Kind: gen.Computed, Rel: "other"}
			dup.Restr = nil
		}
		pos := rapid.IntRange(ri+1, len(td.Rels)).Draw(t, "dupPos")
		td.Rels = append(td.Rels[:pos:pos], append([]gen.Relation{dup}, td.Rels[pos:]...)...)
		inj.Offender = fmt.Sprintf("rel:%d:%d", ti, pos)
		inj.Late = ti > 0 || pos > 1
		inj.Site = fmt.Sprintf("%s#%s repeated as relation #%d", td.Name, dup.Name, pos)
	case "duplicate-condition":
		ci := ensureCond()
		if grow, idx, ok := atThreshold(t, "dupCond"); ok {
			have := map[string]bool{}
			for _, c := range m.Conds {
				have[c.Name] = true
			}
			for i := 0; len(m.Conds) < grow; i++ {
				if nm := fmt.Sprintf("gc%02d", i); !have[nm] {
					m.Conds = append(m.Conds, gen.Condition{Name: nm, Params: []gen.Param{{Name: "x", Type: "int"}}, Expr: "x > 1"})
				}
			}
			ci = idx
		}
		dup := m.Conds[ci]
		dup.Params = append([]gen.Param(nil), dup.Params...)
		pos := rapid.IntRange(ci+1, len(m.Conds)).Draw(t, "dupPos")
		m.Conds = append(m.Conds[:pos:pos], append([]gen.Condition{dup}, m.Conds[pos:]...)...)
		inj.Offender = fmt.Sprintf("cond:%d", pos)
		inj.Late = pos > 1
		inj.Site = fmt.Sprintf("condition %s repeated as #%d", dup.Name, pos)
	case "duplicate-parameter":
		ci := ensureCond()
		cd := &m.Conds[ci]
		pi := rapid.IntRange(0, len(cd.Params)-1).Draw(t, "paramSite")
		if grow, idx, ok := atThreshold(t, "dupParam"); ok {
			have := map[string]bool{}
			for _, p := range cd.Params {
				have[p.Name] = true
			}
			for i := 0; len(cd.Params) < grow; i++ {
				if nm := fmt.Sprintf("gp%02d", i); !have[nm] {
					cd.Params = append(cd.Params, gen.Param{Name: nm, Type: "int"})
				}
			}
			pi = idx
		}
		dup := cd.Params[pi]
		if rapid.Bool().Draw(t, "otherType") {
			dup.Type, dup.Elem = "bool", ""
		}
		pos := rapid.IntRange(pi+1, len(cd.Params)).Draw(t, "dupPos")
		cd.Params = append(cd.Params[:pos:pos], append([]gen.Param{dup}, cd.Params[pos:]...)...)
		inj.Offender = fmt.Sprintf("param:%d:%d", ci, pos)
		inj.Late = ci > 0 || pos > 1
		inj.Site = fmt.Sprintf("parameter %s of %s repeated as #%d", dup.Name, cd.Name, pos)
	case "extend-in-model":
		if len(m.Types) == 0 {
			m.Types = append(m.Types, gen.TypeDef{Name: "doc"})
		}
		ti := rapid.IntRange(0, len(m.Types)-1).Draw(t, "typeSite")
		in.Extend = map[int]bool{ti: true}
		inj.Offender = fmt.Sprintf("type:%d", ti)
		inj.Late = ti > 0
		inj.Site = "extend type " + m.Types[ti].Name + " in a model file"
	case "type-extended-twice":
		if len(m.Types) == 0 {
			m.Types = append(m.Types, gen.TypeDef{Name: "doc"})
		}
		ti := rapid.IntRange(0, len(m.Types)-1).Draw(t, "typeSite")
		if grow, idx, ok := atThreshold(t, "dupExt"); ok {
			have := map[string]bool{}
			for _, x := range m.Types {
				have[x.Name] = true
			}
			for i := 0; len(m.Types) < grow; i++ {
				if nm := fmt.Sprintf("gt%02d", i); !have[nm] {
					m.Types = append(m.Types, gen.TypeDef{Name: nm})
				}
			}
			ti = idx
		}
		dup := gen.TypeDef{Name: m.Types[ti].Name}
		if rapid.Bool().Draw(t, "withRel") {
			dup.Rels = []gen.Relation{{Name: "extra_rel", Rw: &gen.Rewrite{Kind: gen.Computed, Rel: "x"}}}
		}
		pos := rapid.IntRange(ti+1, len(m.Types)).Draw(t, "dupPos")
		m.Types = append(m.Types[:pos:pos], append([]gen.TypeDef{dup}, m.Types[pos:]...)...)
		in.Module = gen.Ident(t, gen.IdentKeywordOK, true, "module")
		in.Extend = map[int]bool{ti: true, pos: true}
		inj.Offender = fmt.Sprintf("type:%d", pos)
		inj.Late = pos > 1
		inj.Site = "type " + dup.Name + " extended twice in one module file"
	case "both-headers":
		in.Header, inj.Grammar, inj.Site = "both", true, "model header followed by module header"
	case "no-header":
		in.Header, inj.Grammar, inj.Site = "neither", true, "no header"
		// the boundary: nothing but blank lines and comments (or nothing at all) has no header either
		if rapid.IntRange(0, 2).Draw(t, "emptyBody") == 0 {
			m.Types, m.Conds = nil, nil
			inj.Site = "no header, empty body"
		}
	case "container-bare", "container-nested":
		ci := ensureCond()
		cd := &m.Conds[ci]
		pi := rapid.IntRange(0, len(cd.Params)-1).Draw(t, "paramSite")
		cont := rapid.SampledFrom([]string{"list", "map"}).Draw(t, "container")
		cd.Params[pi].Type = cont
		if kind == "container-bare" {
			cd.Params[pi].Elem = ""
		} else {
			cd.Params[pi].Elem = rapid.SampledFrom([]string{"list<string>", "map<int>", "list", "map"}).Draw(t, "nested")
		}
		inj.Grammar, inj.Late = true, ci > 0 || pi > 0
		inj.Site = fmt.Sprintf("parameter %s of condition %s", cd.Params[pi].Name, cd.Name)
	}
	// module files as well as model files: the listener checks must not depend on the header or on "extend"
	if in.Module == "" && in.Header == "" && kind != "extend-in-model" && rapid.IntRange(0, 2).Draw(t, "asModule") == 0 {
		in.Module = gen.Ident(t, gen.IdentKeywordOK, true, "module")
		in.Extend = map[int]bool{}
		for ti, td := range m.Types {
			if len(td.Rels) > 0 && rapid.Bool().Draw(t, "extendIt") {
				in.Extend[ti] = true
			}
		}
		inj.Site += " (module file" + map[bool]string{true: ", inside extend type", false: ""}[len(in.Extend) > 0] + ")"
	}
	in.Inj = inj
	ch := &rapidChooser{t: t}
	gen.Render(m, ch, gen.RenderOpts{Module: in.Module, Extend: in.Extend, Header: in.Header})
	in.Choices = ch.rec
	return in, true
}

// bare container types are written by Param.TypeString as "list<>" when Elem is empty? No: the
// renderer writes Type alone only for scalars, so spell the injected forms out here.
func c09FixParamText(in c09Input, text string) string { return text }

var reSyntaxErr = regexp.MustCompile(`syntax error at line=(-?\d+), column=(-?\d+): `)

type errPos struct{ line, col int }

func parseErrPositions(err error) []errPos {
	// through the verif accessor when the build has it (robust against a reworded message), else from the
	// stable "syntax error at line=L, column=C:" prefix
	if ps, ok := syntaxPositionsHook(err); ok {
		return ps
	}
	var out []errPos
	for _, m := range reSyntaxErr.FindAllStringSubmatch(err.Error(), -1) {
		l, _ := strconv.Atoi(m[1])
		c, _ := strconv.Atoi(m[2])
		out = append(out, errPos{l, c})
	}
	return out
}

// c09Check returns (C09 violation, C16 violation, harness error).
func c09Check(in c09Input) (string, string, string, *gen.Rendered) {
	if in.After != "" {
		_, _ = transformer.TransformDSLToProto(in.After)
		_, _, _ = transformer.TransformModularDSLToProto(in.After)
		_, _ = transformer.TransformDSLToJSON(in.After)
	}
	r := in.render()
	// The injector is validated against the grammar as pinned when it was written: the catalogue of rule
	// violations is defined by the property, not by whatever the repository's .g4 says today (a seeded change
	// edited the .g4 and the Go parser together so that "a or ([user])" became derivable).
	g := g4.PinnedGrammar()
	derivable := g4.DerivableLenient(g, r.Text)
	if in.Inj.Grammar && derivable {
		return "", "", fmt.Sprintf("injector %s produced a document the grammar derives:\n%q", in.Inj.Kind, r.Text), r
	}
	if !in.Inj.Grammar && !g4.DerivableLenient(g, r.Text) {
		return "", "", fmt.Sprintf("listener-level injection %s produced an ungrammatical document:\n%q", in.Inj.Kind, r.Text), r
	}
	var err error
	var nilModel bool
	if in.Module != "" {
		pm, ext, e := transformer.TransformModularDSLToProto(r.Text)
		err, nilModel = e, pm == nil && ext == nil
	} else {
		pm, e := transformer.TransformDSLToProto(r.Text)
		err, nilModel = e, pm == nil
		if e == nil {
			// also the modular entry point must reject a broken model file
			if _, _, e2 := transformer.TransformModularDSLToProto(r.Text); e2 != nil {
				return fmt.Sprintf("TransformDSLToProto accepts a document with %s (%s) that TransformModularDSLToProto rejects", in.Inj.Kind, in.Inj.Site), "", "", r
			}
		}
	}
	if err == nil {
		return fmt.Sprintf("document with %s (%s) was accepted", in.Inj.Kind, in.Inj.Site), "", "", r
	}
	if !nilModel {
		return fmt.Sprintf("document with %s rejected but a model was returned together with the error", in.Inj.Kind), "", "", r
	}
	if js, e := transformer.TransformDSLToJSON(r.Text); in.Module == "" && (e == nil || js != "") {
		return fmt.Sprintf("TransformDSLToJSON accepts a document with %s that TransformDSLToProto rejects", in.Inj.Kind), "", "", r
	}
	// C16 exactness for listener-raised errors
	c16 := ""
	if in.Inj.Offender != "" {
		want, ok := r.Pos[in.Inj.Offender]
		if !ok {
			return "", "", "source map lacks " + in.Inj.Offender, r
		}
		found := false
		ps := parseErrPositions(err)
		for _, p := range ps {
			if p.line == want.Line && p.col == want.Col {
				found = true
			}
		}
		if !found {
			c16 = fmt.Sprintf("%s: the offending name stands at line=%d column=%d but the reported positions are %v (%s)", in.Inj.Kind, want.Line, want.Col, ps, describe(err))
		}
	}
	return "", c16, "", r
}

const c09Rule = "rapid-generated valid DSL models (rich identifiers, conditions, operator nesting to depth 3) with exactly ONE injected rule violation from the catalogue of the property " +
	"(13 kinds) at a rapid-drawn site (type, relation, operator node at any depth, operand position, restriction, condition, parameter), rendered under rapid-drawn layout incl. comments; " +
	"grammar-level injections are confirmed non-derivable by the independent .g4 recogniser (otherwise harness error), listener-level ones confirmed derivable. Oracle: non-nil error and nil " +
	"model from TransformDSLToProto / TransformModularDSLToProto / TransformDSLToJSON. Non-trivial = injection not in the first relation of the first type, or at nesting depth >= 1; " +
	"distinct by document text."

func c09Run(t *testing.T, prop string, rec *ev.Rec, which int) {
	harness := false
	rapid.Check(t, func(rt *rapid.T) {
		noiseCall(rt) // one case in three is preceded by an unrelated, mostly failing call (see noise_test.go)
		in, ok := c09Inject(rt)
		if !ok {
			return
		}
		if which == 9 && rapid.IntRange(0, 7).Draw(rt, "twin") == 0 {
			// checksum twins: an acceptable document of the same length, CRC-32 and CRC-64 as the injected one is parsed
			// first; the injected one must still be rejected
			valid := "model\n  schema 1.1\ntype user\ntype doc\n  relations\n    define viewer: [user] or (editor and owner)\n    define editor: [user]\n    define owner: [user]\n"
			if in.Module != "" {
				valid = "module core\ntype user\ntype doc\n  relations\n    define viewer: [user]\n"
			}
			if a2, b2, ok := gen.ChecksumTwins(valid, in.render().Text); ok {
				in.After, in.Suffix = a2, b2[len(in.render().Text):]
				rec.Class("history:checksum-twin-parsed-after-its-twin", 1)
			}
		}
		v09, v16, herr, r := c09Check(in)
		cls := append([]string{"inject:" + in.Inj.Kind}, featureList(r)...)
		if in.Inj.Depth >= 1 {
			cls = append(cls, "site:nested")
		}
		if in.Inj.Late {
			cls = append(cls, "site:late")
		}
		nt := in.Inj.Late || in.Inj.Depth >= 1
		if which == 16 {
			nt = in.Inj.Offender != "" && (r.Features["comment-lines"] || r.Features["blank-lines"])
			if in.Inj.Offender != "" {
				cls = append(cls, "exact-position-checked")
			}
		}
		var sample any
		if nt {
			sample = map[string]any{"injection": in.Inj, "dsl": r.Text}
		}
		rec.Case(r.Text, nt, sample, cls...)
		if herr != "" {
			if !harness {
				ev.HarnessError(prop, "%s", herr)
			}
			harness = true
			rt.Fatalf("harness: %s", herr)
		}
		msg := v09
		if which == 16 {
			msg = v16
		}
		if msg != "" {
			in.Text = r.Text
			rec.Violation(in, msg)
			rt.Fatalf("%s\n%s", msg, r.Text)
		}
	})
	if harness {
		t.Fail()
	}
}

func TestC09(t *testing.T) {
	rec := ev.New("C09", c09Rule)
	defer func() {
		if !rec.Flush() {
			t.Fail()
		}
	}()
	rec.Assume("the catalogue is the one listed in the property; sites are drawn, not enumerated; the .g4 recogniser decides whether an injection is grammar-level")
	for _, k := range injectionKinds {
		rec.Require("inject:"+k, 0.03)
	}
	rec.Require("site:nested", 0.03)
	c09Run(t, "C09", rec, 9)
}

func TestReplayC09(t *testing.T) {
	for _, f := range ev.ReplayFiles("C09") {
		var in c09Input
		if _, err := ev.LoadReplay(f, &in); err != nil {
			t.Fatalf("%s: %v", f, err)
		}
		rec := ev.New("C09", c09Rule)
		v09, _, herr, _ := c09Check(in)
		if herr != "" {
			ev.HarnessError("C09", "%s: %s", f, herr)
			t.Errorf("%s: harness: %s", f, herr)
		}
		if v09 != "" {
			rec.Violation(in, v09)
			t.Errorf("%s: %s", f, v09)
		}
	}
}

var _ = strings.Contains
