package checks

// C14 — DSL output is canonical (a function of the model's content only) and source-info comments
// are inert.

import (
	"bytes"
	"encoding/json"
	"fmt"
	"sort"
	"strings"
	"testing"

	openfgav1 "github.com/openfga/api/proto/openfga/v1"
	"github.com/openfga/language/pkg/go/transformer"
	"google.golang.org/protobuf/encoding/protojson"
	"google.golang.org/protobuf/proto"
	"pgregory.net/rapid"

	"verif/internal/ev"
	"verif/internal/gen"
)

type c14Input struct {
	Model    *gen.Model `json:"model"`
	TypePerm []int      `json:"type_perm,omitempty"`
	AllPerms bool       `json:"all_type_permutations,omitempty"` // <= 4 types: every permutation of type_definitions
	JSONs    []string   `json:"json_encodings,omitempty"`
	Text     string     `json:"text,omitempty"`
}

const c14Rule = "rapid-generated DSL-expressible models, plain and modular (module/file attribution on types, on relations added by extensions, on conditions; file names over an " +
	"alphabet with blanks, '#', ',', ':' and non-ASCII; items with a module but no file); oracle: output identical over 10 repeated calls, over 3 rapid-shuffled/re-indented JSON " +
	"encodings through TransformJSONStringToDSL, and (modular models) over ALL permutations of type_definitions (<= 4 types) or a rapid-drawn one; order of types, relations, conditions and parameters in the " +
	"output equals an independent sort by the documented key (name; or unattributed first, module, file, name); with source information an independent comment stripper gives the plain " +
	"output byte-for-byte and both parse to proto.Equal models. Non-trivial = modular model with >= 2 modules and an extension relation; distinct by model content."

type c14Key struct {
	attributed int
	module     string
	file       string
	name       string
}

func c14KeyOf(module, file, name string) c14Key {
	if module == "" {
		return c14Key{0, "", "", name}
	}
	return c14Key{1, module, file, name}
}

func c14Less(a, b c14Key) bool {
	if a.attributed != b.attributed {
		return a.attributed < b.attributed
	}
	if a.module != b.module {
		return a.module < b.module
	}
	if a.file != b.file {
		return a.file < b.file
	}
	return a.name < b.name
}

// c14ExpectedOrder computes the documented order of every list in the output.
func c14ExpectedOrder(m *gen.Model) (types []string, rels map[string][]string, conds []string, params map[string][]string) {
	modular := false
	for _, t := range m.Types {
		if t.Module != "" {
			modular = true
		}
	}
	ts := append([]gen.TypeDef{}, m.Types...)
	if modular {
		sort.SliceStable(ts, func(i, j int) bool {
			return c14Less(c14KeyOf(ts[i].Module, ts[i].File, ts[i].Name), c14KeyOf(ts[j].Module, ts[j].File, ts[j].Name))
		})
	}
	rels = map[string][]string{}
	for _, t := range ts {
		types = append(types, t.Name)
		rs := append([]gen.Relation{}, t.Rels...)
		sort.SliceStable(rs, func(i, j int) bool {
			if !modular {
				return rs[i].Name < rs[j].Name
			}
			return c14Less(c14KeyOf(rs[i].Module, rs[i].File, rs[i].Name), c14KeyOf(rs[j].Module, rs[j].File, rs[j].Name))
		})
		for _, r := range rs {
			rels[t.Name] = append(rels[t.Name], r.Name)
		}
	}
	cs := append([]gen.Condition{}, m.Conds...)
	sort.SliceStable(cs, func(i, j int) bool {
		return c14Less(c14KeyOf(cs[i].Module, cs[i].File, cs[i].Name), c14KeyOf(cs[j].Module, cs[j].File, cs[j].Name))
	})
	params = map[string][]string{}
	for _, c := range cs {
		conds = append(conds, c.Name)
		var ps []string
		for _, p := range c.Params {
			ps = append(ps, p.Name)
		}
		sort.Strings(ps)
		params[c.Name] = ps
	}
	return
}

// c14ObservedOrder reads the order back from printed DSL (plain output, no comments).
func c14ObservedOrder(dsl string) (types []string, rels map[string][]string, conds []string, params map[string][]string) {
	rels, params = map[string][]string{}, map[string][]string{}
	cur := ""
	inCond := false
	for _, l := range strings.Split(dsl, "\n") {
		switch {
		case inCond:
			if l == "}" {
				inCond = false
			}
		case strings.HasPrefix(l, "type "):
			cur = strings.TrimPrefix(l, "type ")
			types = append(types, cur)
		case strings.HasPrefix(l, "    define "):
			rest := strings.TrimPrefix(l, "    define ")
			if i := strings.Index(rest, ": "); i > 0 {
				rels[cur] = append(rels[cur], rest[:i])
			}
		case strings.HasPrefix(l, "condition "):
			rest := strings.TrimPrefix(l, "condition ")
			i := strings.Index(rest, "(")
			j := strings.LastIndex(rest, ") {")
			if i > 0 && j > i {
				name := rest[:i]
				conds = append(conds, name)
				for _, p := range strings.Split(rest[i+1:j], ", ") {
					if k := strings.Index(p, ": "); k > 0 {
						params[name] = append(params[name], p[:k])
					}
				}
			}
			inCond = true
		}
	}
	return
}

// c14CommentContent: wherever the source-information output carries a comment on the line of a type, relation or
// condition that the model attributes to a module / file, the comment mentions that module (as a word) and that file
// (as a substring). The wording and punctuation of the comment are not prescribed.
func c14CommentContent(m *gen.Model, withSrc string) string {
	words := func(c string) map[string]bool {
		out := map[string]bool{}
		for _, w := range strings.FieldsFunc(c, func(r rune) bool {
			return r == ' ' || r == ',' || r == ':' || r == ';' || r == '"' || r == '\'' || r == '(' || r == ')' || r == '[' || r == ']'
		}) {
			out[w] = true
		}
		return out
	}
	types := map[string]*gen.TypeDef{}
	for i := range m.Types {
		types[m.Types[i].Name] = &m.Types[i]
	}
	conds := map[string]*gen.Condition{}
	for i := range m.Conds {
		conds[m.Conds[i].Name] = &m.Conds[i]
	}
	var cur *gen.TypeDef
	inCond := false
	for _, l := range strings.Split(withSrc, "\n") {
		code, comment := l, ""
		if j := strings.Index(l, " #"); j >= 0 {
			code, comment = l[:j], l[j+2:]
		}
		var mod, file, what string
		switch {
		case inCond:
			if code == "}" {
				inCond = false
			}
			continue
		case strings.HasPrefix(code, "type "):
			cur = types[strings.TrimPrefix(code, "type ")]
			if cur != nil {
				mod, file, what = cur.Module, cur.File, "type "+cur.Name
			}
		case strings.HasPrefix(code, "    define ") && cur != nil:
			rest := strings.TrimPrefix(code, "    define ")
			if i := strings.Index(rest, ": "); i > 0 {
				for k := range cur.Rels {
					if cur.Rels[k].Name == rest[:i] {
						mod, file, what = cur.Rels[k].Module, cur.Rels[k].File, "relation "+cur.Name+"#"+rest[:i]
					}
				}
			}
		case strings.HasPrefix(code, "condition "):
			rest := strings.TrimPrefix(code, "condition ")
			if i := strings.Index(rest, "("); i > 0 {
				if c := conds[rest[:i]]; c != nil {
					mod, file, what = c.Module, c.File, "condition "+c.Name
				}
			}
			inCond = true
		}
		if comment == "" || what == "" {
			continue
		}
		if mod != "" && !words(comment)[mod] {
			return fmt.Sprintf("the source comment of %s (%q) does not name its module %q", what, comment, mod)
		}
		if file != "" && !strings.Contains(comment, file) {
			return fmt.Sprintf("the source comment of %s (%q) does not name its file %q", what, comment, file)
		}
	}
	return ""
}

func c14StripComments(dsl string) string {
	lines := strings.Split(dsl, "\n")
	for i, l := range lines {
		if j := strings.Index(l, " #"); j >= 0 {
			lines[i] = l[:j]
		}
	}
	return strings.Join(lines, "\n")
}

// shuffleJSON re-encodes a JSON document with rapid-drawn object key order and whitespace.
func shuffleJSON(t *rapid.T, doc string) string {
	dec := json.NewDecoder(strings.NewReader(doc))
	dec.UseNumber()
	var v any
	if err := dec.Decode(&v); err != nil {
		return doc
	}
	var b bytes.Buffer
	style := rapid.IntRange(0, 2).Draw(t, "jsonStyle")
	var enc func(x any, depth int)
	nl := func(depth int) {
		switch style {
		case 1:
			b.WriteString("\n" + strings.Repeat("  ", depth))
		case 2:
			b.WriteString(" ")
		}
	}
	enc = func(x any, depth int) {
		switch y := x.(type) {
		case map[string]any:
			keys := make([]string, 0, len(y))
			for k := range y {
				keys = append(keys, k)
			}
			sort.Strings(keys)
			if len(keys) > 1 {
				keys = rapid.Permutation(keys).Draw(t, "keys")
			}
			b.WriteString("{")
			for i, k := range keys {
				if i > 0 {
					b.WriteString(",")
				}
				nl(depth + 1)
				kb, _ := json.Marshal(k)
				b.Write(kb)
				b.WriteString(":")
				if style != 0 {
					b.WriteString(" ")
				}
				enc(y[k], depth+1)
			}
			if len(keys) > 0 {
				nl(depth)
			}
			b.WriteString("}")
		case []any:
			b.WriteString("[")
			for i, e := range y {
				if i > 0 {
					b.WriteString(",")
				}
				nl(depth + 1)
				enc(e, depth+1)
			}
			if len(y) > 0 {
				nl(depth)
			}
			b.WriteString("]")
		default:
			eb, _ := json.Marshal(y)
			b.Write(eb)
		}
	}
	enc(v, 0)
	return b.String()
}

func c14Check(in c14Input) string {
	m := in.Model
	build := func() *openfgav1.AuthorizationModel { return m.Proto() }
	plain, err := transformer.TransformJSONProtoToDSL(build())
	if err != nil {
		return "printing a DSL-expressible model failed: " + describe(err)
	}
	withSrc, err := transformer.TransformJSONProtoToDSL(build(), transformer.WithIncludeSourceInformation(true))
	if err != nil {
		return "printing with source information failed: " + describe(err)
	}
	if off, err := transformer.TransformJSONProtoToDSL(build(), transformer.WithIncludeSourceInformation(false)); err != nil || off != plain {
		return "WithIncludeSourceInformation(false) differs from the default output"
	}
	// repeated calls (fresh proto each time: map iteration order inside the printer is the variable)
	for i := 0; i < 10; i++ {
		p2, err := transformer.TransformJSONProtoToDSL(build())
		if err != nil || p2 != plain {
			return fmt.Sprintf("repeated call #%d produced different DSL:\n--- first:\n%s\n--- now:\n%s", i, plain, p2)
		}
		s2, err := transformer.TransformJSONProtoToDSL(build(), transformer.WithIncludeSourceInformation(true))
		if err != nil || s2 != withSrc {
			return fmt.Sprintf("repeated call #%d (with source information) produced different DSL:\n--- first:\n%s\n--- now:\n%s", i, withSrc, s2)
		}
	}
	// repeated calls on ONE in-memory model (the printer must not depend on, or leave, state in its argument)
	shared := build()
	for i := 0; i < 3; i++ {
		p2, err := transformer.TransformJSONProtoToDSL(shared)
		if err != nil || p2 != plain {
			return fmt.Sprintf("call #%d on the same in-memory model produced different DSL:\n--- first:\n%s\n--- now:\n%s", i+1, plain, p2)
		}
		s2, err := transformer.TransformJSONProtoToDSL(shared, transformer.WithIncludeSourceInformation(true))
		if err != nil || s2 != withSrc {
			return fmt.Sprintf("call #%d on the same in-memory model (with source information) produced different DSL", i+1)
		}
	}
	// JSON encodings
	for i, js := range in.JSONs {
		out, err := transformer.TransformJSONStringToDSL(js)
		if err != nil || out == nil {
			return fmt.Sprintf("JSON encoding #%d of the model failed to convert: %s", i, describe(err))
		}
		if *out != plain {
			return fmt.Sprintf("JSON encoding #%d (other key order/whitespace) gives different DSL:\n--- proto:\n%s\n--- json:\n%s", i, plain, *out)
		}
		outS, err := transformer.TransformJSONStringToDSL(js, transformer.WithIncludeSourceInformation(true))
		if err != nil || outS == nil || *outS != withSrc {
			return fmt.Sprintf("JSON encoding #%d gives different DSL with source information", i)
		}
	}
	// permutation of type definitions (modular models: output must not change)
	modular := false
	mods := map[string]bool{}
	for _, t := range m.Types {
		if t.Module != "" {
			modular = true
			mods[t.Module] = true
		}
	}
	perms := [][]int{in.TypePerm}
	if in.AllPerms && len(m.Types) <= 4 {
		idx := make([]int, len(m.Types))
		for i := range idx {
			idx[i] = i
		}
		perms = permutationsInt(idx)
	}
	for _, perm := range perms {
		if !modular || len(perm) != len(m.Types) {
			continue
		}
		in.TypePerm = perm
		pm := m.Clone()
		src := m.Clone()
		for i, j := range in.TypePerm {
			pm.Types[i] = src.Types[j]
		}
		p2, err := transformer.TransformJSONProtoToDSL(pm.Proto())
		if err != nil || p2 != plain {
			return fmt.Sprintf("permuting type_definitions %v of a modular model changes the DSL:\n--- original order:\n%s\n--- permuted:\n%s", in.TypePerm, plain, p2)
		}
		s2, err := transformer.TransformJSONProtoToDSL(pm.Proto(), transformer.WithIncludeSourceInformation(true))
		if err != nil || s2 != withSrc {
			return fmt.Sprintf("permuting type_definitions %v of a modular model changes the DSL with source information", in.TypePerm)
		}
	}
	// documented order
	wt, wr, wc, wp := c14ExpectedOrder(m)
	ot, or, oc, op := c14ObservedOrder(plain)
	if strings.Join(wt, "\x00") != strings.Join(ot, "\x00") {
		return fmt.Sprintf("types are printed in order %q, documented order is %q\n%s", ot, wt, withSrc)
	}
	for _, tn := range wt {
		if strings.Join(wr[tn], "\x00") != strings.Join(or[tn], "\x00") {
			return fmt.Sprintf("relations of type %s are printed in order %q, documented order is %q\n%s", tn, or[tn], wr[tn], withSrc)
		}
	}
	if strings.Join(wc, "\x00") != strings.Join(oc, "\x00") {
		return fmt.Sprintf("conditions are printed in order %q, documented order is %q\n%s", oc, wc, withSrc)
	}
	for _, cn := range wc {
		if strings.Join(wp[cn], "\x00") != strings.Join(op[cn], "\x00") {
			return fmt.Sprintf("parameters of condition %s are printed in order %q, documented order is %q", cn, op[cn], wp[cn])
		}
	}
	// a source comment names the module and the file of the item it stands on (whatever its wording)
	if msg := c14CommentContent(m, withSrc); msg != "" {
		return msg + "\n" + withSrc
	}
	// inert comments
	if stripped := c14StripComments(withSrc); stripped != plain {
		return fmt.Sprintf("stripping comments from the source-information output does not give the plain output:\n--- plain:\n%q\n--- stripped:\n%q", plain, stripped)
	}
	pa, errA := transformer.TransformDSLToProto(plain)
	pb, errB := transformer.TransformDSLToProto(withSrc)
	if errA != nil || errB != nil {
		return fmt.Sprintf("printed DSL does not parse: plain: %s; with source information: %s\n%s", describe(errA), describe(errB), withSrc)
	}
	if !proto.Equal(pa, pb) {
		return "plain output and source-information output parse to different models"
	}
	return ""
}

var c14Files = []string{"a.fga", "b.fga", "dir/c.fga", "my file.fga", "x #1.fga", "ü/ñ.fga", "a, file: b.fga", "z.fga", "", "a", "a.f", "dir/c", "dir-c.fga", "A.fga"}

func c14Draw(rt *rapid.T) c14Input {
	m := gen.DSLModel(rt, gen.DSLOpts{Rich: rapid.Bool().Draw(rt, "rich"), Conditions: true, MultiLine: true, MaxTypes: 5, MaxRels: 5, Scale: true})
	if rapid.IntRange(0, 7).Draw(rt, "bigType") == 0 {
		// a type with 13..40 relations whose names do not come grouped (sorts that are only stable, or only correct,
		// below a size threshold), and many conditions with many parameters
		td := gen.TypeDef{Name: "big-type"}
		n := rapid.IntRange(13, 40).Draw(rt, "bigN")
		step := rapid.SampledFrom([]int{7, 11, 17, 23}).Draw(rt, "bigStep")
		for i := 0; i < n; i++ {
			td.Rels = append(td.Rels, gen.Relation{Name: fmt.Sprintf("r%02d", (i*step)%41), Rw: &gen.Rewrite{Kind: gen.This}, Restr: []gen.Restriction{{Type: "user"}}})
		}
		m.Types = append(m.Types, td)
		cd := gen.Condition{Name: "big-condition", Expr: "p00 > 1"}
		for i := 0; i < n; i++ {
			cd.Params = append(cd.Params, gen.Param{Name: fmt.Sprintf("p%02d", (i*step)%41), Type: "int"})
		}
		m.Conds = append(m.Conds, cd)
	}
	if rapid.IntRange(0, 2).Draw(rt, "modular") > 0 {
		// module names: some are prefixes of others, continued by characters that sort before and after ':' and ' '
		// (keys glued together from module, file and name must not reorder them)
		mods := []string{"core", "m1", "m2", "a-b", "a", "a.b", "a/b", "a_b", "m", "billing", "billing-eu", "team", "team2", "Core"}
		if rapid.IntRange(0, 3).Draw(rt, "fewMods") > 0 {
			k := rapid.IntRange(0, len(mods)-3).Draw(rt, "modsFrom")
			mods = mods[k : k+3]
		}
		for ti := range m.Types {
			if rapid.IntRange(0, 5).Draw(rt, "tmod") > 0 {
				m.Types[ti].Module = rapid.SampledFrom(mods).Draw(rt, "tmodn")
				m.Types[ti].File = rapid.SampledFrom(c14Files).Draw(rt, "tfile")
			}
			for ri := range m.Types[ti].Rels {
				if rapid.IntRange(0, 2).Draw(rt, "rmod") == 0 {
					m.Types[ti].Rels[ri].Module = rapid.SampledFrom(mods).Draw(rt, "rmodn")
					m.Types[ti].Rels[ri].File = rapid.SampledFrom(c14Files).Draw(rt, "rfile")
				}
			}
		}
		for ci := range m.Conds {
			if rapid.IntRange(0, 3).Draw(rt, "cmod") > 0 {
				m.Conds[ci].Module = rapid.SampledFrom(mods).Draw(rt, "cmodn")
				m.Conds[ci].File = rapid.SampledFrom(c14Files).Draw(rt, "cfile")
			}
		}
	}
	// API-written models need not have the direct assignment first: it only has to be hoistable (a child of the root
	// union / intersection); the printer moves it
	for ti := range m.Types {
		for ri := range m.Types[ti].Rels {
			rw := m.Types[ti].Rels[ri].Rw
			if rw != nil && (rw.Kind == gen.Union || rw.Kind == gen.Intersection) && len(rw.Kids) >= 2 && rw.Kids[0].Kind == gen.This &&
				rapid.IntRange(0, 2).Draw(rt, "thisNotFirst") == 0 {
				pos := rapid.IntRange(1, len(rw.Kids)-1).Draw(rt, "thisPos")
				this := rw.Kids[0]
				copy(rw.Kids, rw.Kids[1:pos+1])
				rw.Kids[pos] = this
			}
		}
	}
	in := c14Input{Model: m}
	idx := make([]int, len(m.Types))
	for i := range idx {
		idx[i] = i
	}
	in.TypePerm = rapid.Permutation(idx).Draw(rt, "typePerm")
	in.AllPerms = len(m.Types) <= 4
	if js, err := protojson.Marshal(m.Proto()); err == nil {
		for i := 0; i < 3; i++ {
			in.JSONs = append(in.JSONs, shuffleJSON(rt, string(js)))
		}
	}
	return in
}

func TestC14(t *testing.T) {
	rec := ev.New("C14", c14Rule)
	defer func() {
		if !rec.Flush() {
			t.Fail()
		}
	}()
	rec.Assume("the documented order is: name for plain models; unattributed items first, then module, file, name for modular models (a model is modular when some type has a module)",
		"module names are DSL identifiers, file names contain no line break")
	rec.Require("model:modular", 0.3)
	rec.Require("model:two-modules+extension", 0.1)
	rapid.Check(t, func(rt *rapid.T) {
		noiseCall(rt) // one case in three is preceded by an unrelated, mostly failing call (see noise_test.go)
		in := c14Draw(rt)
		m := in.Model
		mods := map[string]bool{}
		ext, noFile := false, false
		for _, td := range m.Types {
			if td.Module != "" {
				mods[td.Module] = true
				if td.File == "" {
					noFile = true
				}
			}
			for _, r := range td.Rels {
				if r.Module != "" {
					ext = true
				}
			}
		}
		var cls []string
		if len(mods) > 0 {
			cls = append(cls, "model:modular")
		} else {
			cls = append(cls, "model:plain")
		}
		nt := len(mods) >= 2 && ext
		if nt {
			cls = append(cls, "model:two-modules+extension")
		}
		if noFile {
			cls = append(cls, "model:module-without-file")
		}
		var sample any
		if nt {
			sample = map[string]any{"model": m.String(), "type_perm": in.TypePerm}
		}
		rec.Case(m, nt, sample, cls...)
		if msg := c14Check(in); msg != "" {
			in.Text = m.String()
			rec.Violation(in, msg)
			rt.Fatalf("%s\n%s", msg, m.String())
		}
	})
}

func TestReplayC14(t *testing.T) {
	for _, f := range ev.ReplayFiles("C14") {
		var in c14Input
		if _, err := ev.LoadReplay(f, &in); err != nil {
			t.Fatalf("%s: %v", f, err)
		}
		rec := ev.New("C14", c14Rule)
		for rep := 0; rep < 5; rep++ {
			if msg := c14Check(in); msg != "" {
				rec.Violation(in, msg)
				t.Errorf("%s: %s", f, msg)
				break
			}
		}
	}
}
