package checks

// C04, C05, C10, C11 — the four "single build" weighted-graph properties. They share wgEvaluate;
// each test uses its own generator options and reports only its own aspect.

import (
	"testing"

	"pgregory.net/rapid"

	"verif/internal/ev"
	"verif/internal/gen"
)

type wgSpec struct {
	prop      string
	rule      string
	aspects   map[string]bool
	opts      gen.GraphOpts
	altOpts   *gen.GraphOpts // a second profile, used for a third of the cases
	maxExh    int
	nRand     int
	builds    int
	nontriv   func(res *wgResult, m *gen.Model) bool
	require   map[string]float64
	knownIDs  []string
	knownText map[string]string
}

var wgSpecs = map[string]*wgSpec{
	"C04": {
		prop: "C04",
		rule: "rapid-generated models of the graph profile (1-3 terminal types, 1-3 object types sharing 1-4 relation names plus a tupleset relation; " +
			"rewrite trees of depth <= 3 over this/computed/TTU/union/intersection/exclusion, several direct assignments allowed); each model is built by the real Build " +
			"4 times and through the verif hook under all permutations of the DFS start order (<= 5 non-terminal nodes) or 2+16 sampled ones; every accepted build is " +
			"compared node by node and edge by edge with specification weights computed on an independent reference graph (SCC condensation), plus local invariants " +
			"(edge = target +1 on a hop, no R# placeholder, no empty map). Non-trivial = the library accepted the model and it has a tuple cycle or an intersection/exclusion " +
			"and some finite weight >= 2; distinct by model content. Bounded exhaustive part: a small universe (user; doc with p:[doc] and relations a, b each defined by one of 8 leaf forms or a binary operator over two of them: 200 x 200 = 40 000 models) under ALL DFS start orders; quick enumerates every 16th model, thorough the complete universe split over the 16 processes.",
		aspects: map[string]bool{"weights": true},
		opts:    gen.GraphOpts{MultiThis: true, DupRestr: true, Interlock: true, Names: true, Deep: true, Depth3: true, SingleChild: true, NoRestr: true, Scale: true, SparseMeta: true},
		maxExh:  5, nRand: 16, builds: 4,
		nontriv: func(res *wgResult, m *gen.Model) bool {
			if !res.Accepted {
				return false
			}
			hasOp := false
			for _, n := range res.G.Nodes {
				if n.Kind == "intersection" || n.Kind == "exclusion" {
					hasOp = true
				}
			}
			return (wgHasInfinite(res) || hasOp) && (wgMaxFinite(res) >= 2 || wgHasInfinite(res))
		},
		require:  map[string]float64{"lib:accepted": 0.10, "model:accepted-with-tuple-cycle": 0.02, "model:multi-edge-operand": 0.03},
		knownIDs: []string{"W1", "W2"},
	},
	"C05": {
		prop: "C05",
		rule: "rapid-generated models of the graph profile without acceptance filter, with boosted cycles (self references, forward references), hazards " +
			"(TTU on a relation without restrictions / undefined / parent type lacking the relation, undefined computed relation); verdict of the real Build x4 and of " +
			"every hook-enumerated DFS start order (all permutations for <= 6 non-terminal nodes, else 2+24 sampled) compared with an independent well-foundedness " +
			"predicate (tuple-free cycle by SCC over non-hop edges, operator on a cycle, TTU preconditions, empty intersection, no terminal type, exit-less cycle); error " +
			"must wrap one of the three sentinel errors. Non-trivial = the model has at least one cycle of any kind; distinct by model content. Bounded exhaustive part: a small universe (user; doc with p:[doc] and relations a, b each defined by one of 8 leaf forms or a binary operator over two of them: 200 x 200 = 40 000 models) under ALL DFS start orders; quick enumerates every 16th model, thorough the complete universe split over the 16 processes.",
		aspects: map[string]bool{"verdict": true},
		opts:    gen.GraphOpts{MultiThis: true, Hazards: true, CycleBoost: true, Names: true, Deep: true, Depth3: true, SingleChild: true, NoRestr: true, Scale: true, SparseMeta: true},
		// "every well-founded model is accepted" needs well-founded models: a third of the cases come from the
		// acceptance-oriented profile of C04 (interlocking tuple cycles, no hazards)
		altOpts: &gen.GraphOpts{MultiThis: true, DupRestr: true, Interlock: true, Names: true, Deep: true, Depth3: true, Scale: true, SparseMeta: true},
		maxExh:  6, nRand: 24, builds: 6,
		nontriv: func(res *wgResult, m *gen.Model) bool { return res.G.Err == "" && res.G.HasAnyCycle() },
		require: map[string]float64{"model:has-cycle": 0.25, "spec:accepted": 0.08, "spec:rejected:tuple-free-rewrite-cycle": 0.05,
			"spec:rejected:intersection-or-exclusion-on-cycle": 0.01, "spec:rejected:empty-intersection": 0.004},
		knownIDs: []string{"W1", "W2"},
	},
	"C10": {
		prop: "C10",
		rule: "rapid-generated models of the graph profile with duplicated / mixed conditioned restrictions, repeated operands and several direct assignments; " +
			"the library graph (real Build and hook-built unweighted graph) is matched against a reference graph built from the model: node multiset by kind and label " +
			"(operators by structural path), per node the ORDERED edge list with kind, target, 'type#tupleset' label and ordered condition list; nothing extra; model " +
			"unchanged (proto.Equal with a clone). Non-trivial = accepted model with an operator and a de-duplicated edge or a multi-parent TTU; distinct by model content. Bounded exhaustive part: a small universe (user; doc with p:[doc] and relations a, b each defined by one of 8 leaf forms or a binary operator over two of them: 200 x 200 = 40 000 models) under ALL DFS start orders; quick enumerates every 16th model, thorough the complete universe split over the 16 processes.",
		aspects: map[string]bool{"structure": true, "purity": true},
		opts:    gen.GraphOpts{MultiThis: true, DupRestr: true, Names: true, Depth3: true, SingleChild: true, NoRestr: true, Scale: true, SparseMeta: true},
		maxExh:  3, nRand: 1, builds: 2,
		nontriv: func(res *wgResult, m *gen.Model) bool {
			return res.Accepted && (res.G.DedupedEdges > 0 || res.G.MultiParentTTU > 0) && hasClass(wgClasses(res, m), "model:has-operator")
		},
		require: map[string]float64{"lib:accepted": 0.10, "model:deduplicated-edge": 0.05, "model:multi-parent-ttu": 0.05},
	},
	"C11": {
		prop: "C11",
		rule: "rapid-generated models of the graph profile with p(wildcard restriction) raised to ~0.4, wildcards inside and behind tuple cycles and under " +
			"intersections/exclusions; node and edge wildcard lists of every accepted build (real Build x4 and hook-enumerated DFS start orders) compared as sets with plain " +
			"reachability of T:* nodes in an independent reference graph; no duplicates. Non-trivial = accepted model with >= 2 wildcard restrictions and a tuple cycle; " +
			"distinct by model content. Bounded exhaustive part: a small universe (user; doc with p:[doc] and relations a, b each defined by one of 8 leaf forms or a binary operator over two of them: 200 x 200 = 40 000 models) under ALL DFS start orders; quick enumerates every 16th model, thorough the complete universe split over the 16 processes.",
		aspects: map[string]bool{"wildcards": true},
		opts:    gen.GraphOpts{MultiThis: true, WildBoost: true, Interlock: true, Names: true, Depth3: true, SingleChild: true, Scale: true, SparseMeta: true},
		maxExh:  5, nRand: 16, builds: 4,
		nontriv: func(res *wgResult, m *gen.Model) bool {
			return res.Accepted && hasClass(wgClasses(res, m), "model:two-or-more-wildcards") && wgHasInfinite(res)
		},
		require: map[string]float64{"lib:accepted": 0.08, "model:two-or-more-wildcards": 0.2},
	},
}

func hasClass(cls []string, c string) bool {
	for _, x := range cls {
		if x == c {
			return true
		}
	}
	return false
}

var wgOracleBugReported bool

func wgReport(rec *ev.Rec, sp *wgSpec, in wgInput, res *wgResult) string {
	if res.OracleBug != "" && !wgOracleBugReported {
		wgOracleBugReported = true
		ev.HarnessError(sp.prop, "%s\n%s", res.OracleBug, in.Model.String())
	}
	seenKnown := map[string]bool{}
	for _, f := range res.Findings {
		if !sp.aspects[f.Aspect] && f.Aspect != "panic" {
			continue
		}
		if f.Known != "" {
			if !seenKnown[f.Known] { // count models, not builds
				seenKnown[f.Known] = true
				rec.Known(f.Known)
			}
			continue
		}
		in.Text = in.Model.String()
		rec.Violation(in, f.Aspect+": "+f.What)
		return f.Aspect + ": " + f.What
	}
	return ""
}

func wgRun(t *testing.T, sp *wgSpec) {
	rec := ev.New(sp.prop, sp.rule)
	defer func() {
		if !rec.Flush() {
			t.Fail()
		}
	}()
	rec.Assume("the reference graph and the specification weights in internal/ref are a correct reading of the property statement",
		"the verif hook (VerifBuildUnweighted / VerifAssignWeightsInOrder) calls the same unexported functions as Build/AssignWeights; the real Build is always exercised as well")
	if !wgHooks {
		rec.Note("hooks disabled: only the real Build (map-order sampling) was exercised")
	}
	for c, f := range sp.require {
		rec.Require(c, f)
	}
	rec.Require("model:scaled", 0.05)
	// bounded exhaustive part: the small universe (see wgSmallModel) under ALL depth-first start orders.
	// quick: every 16th model of this process's share; thorough: the complete universe, split over the shards.
	{
		defs := smallDefs()
		total := len(defs) * len(defs)
		stride := 16
		if ev.Thorough() {
			stride = 1
		}
		var n, orders, accepted int64
		for idx := ev.Shard() + int(ev.Seed()%int64(stride))*ev.Shards(); idx < total; idx += ev.Shards() * stride {
			m := wgSmallModel(defs, idx)
			in := wgInput{Model: m}
			if g0 := refBuildOnly(m); g0.Err == "" {
				in.Orders = permutations(wgNonTerminal(g0), 1000)
			}
			res := wgEvaluate(in, wgOpts{RealBuilds: 2})
			n++
			orders += int64(res.Orders)
			if res.Accepted {
				accepted++
			}
			if msg := wgReport(rec, sp, in, res); msg != "" {
				t.Fatalf("small universe model #%d: %s\n%s", idx, msg, m.String())
			}
		}
		rec.Bulk(n, n, map[string]int64{"small-universe:models": n, "small-universe:ordered-builds": orders, "small-universe:accepted": accepted})
		rec.Note("small universe: %d of %d models (stride %d) under all DFS start orders (%d ordered builds)", n, total, stride, orders)
		if ev.Thorough() {
			rec.Note("thorough tier: the 16 processes together enumerate the complete small universe (%d models)", total)
		}
	}
	// second bounded universe: nested operators of the same kind (twins and cousins, see wgNestedModel); the
	// non-terminal nodes are too many for all start orders, so: sorted, reverse sorted and 6 rotations.
	// quick: every 2nd twin model and every 64th cousin model; thorough: all twins, every 4th cousin model.
	{
		total := wgNestedCount()
		stride := 64
		if ev.Thorough() {
			stride = 4
		}
		var n, orders, accepted int64
		var idxs []int
		twinStride := 2
		if ev.Thorough() {
			twinStride = 1
		}
		for idx := ev.Shard() + int(ev.Seed()%int64(twinStride))*ev.Shards(); idx < wgTwinCount; idx += ev.Shards() * twinStride {
			idxs = append(idxs, idx)
		}
		cousinEnd := wgTwinCount + wgCousinCount
		for idx := wgTwinCount + ev.Shard() + int(ev.Seed()%int64(stride))*ev.Shards(); idx < cousinEnd; idx += ev.Shards() * stride {
			idxs = append(idxs, idx)
		}
		// mixed operand counts (every 16th / every 2nd) and the cycle-observer family (every 4th / all)
		mixedStride, obsStride := 16, 4
		if ev.Thorough() {
			mixedStride, obsStride = 2, 1
		}
		for idx := cousinEnd + ev.Shard() + int(ev.Seed()%int64(mixedStride))*ev.Shards(); idx < cousinEnd+wgMixedCount; idx += ev.Shards() * mixedStride {
			idxs = append(idxs, idx)
		}
		for idx := cousinEnd + wgMixedCount + ev.Shard() + int(ev.Seed()%int64(obsStride))*ev.Shards(); idx < total; idx += ev.Shards() * obsStride {
			idxs = append(idxs, idx)
		}
		for _, idx := range idxs {
			m := wgNestedModel(idx)
			in := wgInput{Model: m}
			if g0 := refBuildOnly(m); g0.Err == "" {
				ids := wgNonTerminal(g0)
				rev := append([]string{}, ids...)
				for i, j := 0, len(rev)-1; i < j; i, j = i+1, j-1 {
					rev[i], rev[j] = rev[j], rev[i]
				}
				in.Orders = [][]string{ids, rev}
				for k := 1; k <= 6 && k < len(ids); k++ {
					r := (k * len(ids)) / 7
					in.Orders = append(in.Orders, append(append([]string{}, ids[r:]...), ids[:r]...))
				}
			}
			res := wgEvaluate(in, wgOpts{RealBuilds: 2})
			n++
			orders += int64(res.Orders)
			if res.Accepted {
				accepted++
			}
			if msg := wgReport(rec, sp, in, res); msg != "" {
				t.Fatalf("nested-operator universe model #%d: %s\n%s", idx, msg, m.String())
			}
		}
		rec.Bulk(n, n, map[string]int64{"nested-universe:models": n, "nested-universe:ordered-builds": orders, "nested-universe:accepted": accepted})
		rec.Note("nested-operator universe (twin and cousin operators of one kind): %d of %d models (twins: every %d., cousins: every %d.), %d ordered builds", n, total, twinStride, stride, orders)
	}
	// third bounded family: special name pairs on interlocking tuple cycles, long chains, rings (wgNamePairModels)
	if ev.Shard() == 0 {
		var n, orders int64
		for i, m := range wgNamePairModels() {
			in := wgInput{Model: m}
			if g0 := refBuildOnly(m); g0.Err == "" {
				ids := wgNonTerminal(g0)
				if len(ids) <= 4 {
					in.Orders = permutations(ids, 100)
				} else {
					rev := append([]string{}, ids...)
					for a, b := 0, len(rev)-1; a < b; a, b = a+1, b-1 {
						rev[a], rev[b] = rev[b], rev[a]
					}
					mid := append(append([]string{}, ids[len(ids)/2:]...), ids[:len(ids)/2]...)
					in.Orders = [][]string{ids, rev, mid}
				}
			}
			res := wgEvaluate(in, wgOpts{RealBuilds: 6})
			n++
			orders += int64(res.Orders)
			if msg := wgReport(rec, sp, in, res); msg != "" {
				t.Fatalf("name-pair / chain / ring family model #%d: %s\n%.3000s", i, msg, m.String())
			}
		}
		rec.Bulk(n, n, map[string]int64{"name-pair-family:models": n, "name-pair-family:ordered-builds": orders})
	}
	rapid.Check(t, func(rt *rapid.T) {
		noiseCall(rt) // one case in three is preceded by an unrelated, mostly failing call (see noise_test.go)
		opts := sp.opts
		if sp.altOpts != nil && rapid.IntRange(0, 2).Draw(rt, "profile") == 0 {
			opts = *sp.altOpts
		}
		if ev.Thorough() && rapid.IntRange(0, 3).Draw(rt, "big") == 0 {
			opts.Big = true
		}
		m := gen.GraphModel(rt, opts)
		in := wgInput{Model: m}
		g0 := refBuildOnly(m)
		if g0.Err == "" {
			in.Orders = wgDrawOrders(rt, g0, sp.maxExh, sp.nRand)
		}
		if rapid.IntRange(0, 2).Draw(rt, "builderHistory") == 0 {
			// same name pool, so the prior model nearly always defines the same type#relation keys differently
			in.Prior = gen.GraphModel(rt, gen.GraphOpts{MultiThis: true, SmallModels: true, Hazards: true})
			in.Shared = rapid.Bool().Draw(rt, "sharedBuilder")
		}
		res := wgEvaluate(in, wgOpts{RealBuilds: sp.builds})
		cls := wgClasses(res, m)
		if in.Prior != nil {
			cls = append(cls, "builder:reused-after-another-model")
			if in.Shared {
				cls = append(cls, "builder:shared-by-goroutines")
			}
		}
		if res.Accepted {
			cls = append(cls, "lib:accepted")
		} else if res.LibOK == 0 {
			cls = append(cls, "lib:rejected")
		} else {
			cls = append(cls, "lib:order-dependent")
		}
		for k := range res.ErrKinds {
			cls = append(cls, "lib:err:"+k)
		}
		rec.Class("orders_explored", int64(res.Orders))
		nt := sp.nontriv(res, m)
		var sample any
		if nt {
			sample = map[string]any{"model": m.String(), "verdict": map[string]any{"spec_accepts": res.SpecOK, "reason": res.Reason, "builds": res.Orders}}
		}
		rec.Case(m, nt, sample, cls...)
		if msg := wgReport(rec, sp, in, res); msg != "" {
			rt.Fatalf("%s\n%s", msg, m.String())
		}
	})
	if wgOracleBugReported {
		t.Fail()
	}
	for _, id := range sp.knownIDs {
		n := rec.KnownHits(id) + rec.KnownHits("W1+W2")
		if n > 0 && ev.IsKnown(sp.prop, id) {
			ev.PrintKnown(sp.prop, id, wgKnownText[id])
			rec.Note("known finding %s: %d generated models deviate from the specification exactly as the as-implemented footprint predicts", id, n)
		}
	}
}

var wgKnownText = map[string]string{
	"W1": "operands are not represented in the weighted graph: each edge of a direct-assignment list / multi-parent TTU counts as its own intersection operand and the last edge of an exclusion as the whole subtract",
	"W2": "an intersection restarts from the next edge whenever its running key set becomes empty, so disjoint leading operands are ignored and operand order matters",
}

func wgReplay(t *testing.T, sp *wgSpec) {
	for _, f := range ev.ReplayFiles(sp.prop) {
		var in wgInput
		if _, err := ev.LoadReplay(f, &in); err != nil {
			t.Fatalf("%s: %v", f, err)
		}
		rec := ev.New(sp.prop, sp.rule)
		if len(in.Orders) == 0 {
			if g0 := refBuildOnly(in.Model); g0.Err == "" {
				ids := wgNonTerminal(g0)
				if len(ids) <= 6 {
					in.Orders = permutations(ids, 1000)
				}
			}
		}
		res := wgEvaluate(in, wgOpts{RealBuilds: 12})
		if msg := wgReport(rec, sp, in, res); msg != "" {
			t.Errorf("%s: %s", f, msg)
		}
		for _, id := range sp.knownIDs {
			if (rec.KnownHits(id) > 0 || rec.KnownHits("W1+W2") > 0) && ev.IsKnown(sp.prop, id) {
				ev.PrintKnown(sp.prop, id, wgKnownText[id])
			}
		}
	}
}

func TestC04(t *testing.T)       { wgRun(t, wgSpecs["C04"]) }
func TestReplayC04(t *testing.T) { wgReplay(t, wgSpecs["C04"]) }
func TestC05(t *testing.T)       { wgRun(t, wgSpecs["C05"]) }
func TestReplayC05(t *testing.T) { wgReplay(t, wgSpecs["C05"]) }
func TestC10(t *testing.T)       { wgRun(t, wgSpecs["C10"]) }
func TestReplayC10(t *testing.T) { wgReplay(t, wgSpecs["C10"]) }
func TestC11(t *testing.T)       { wgRun(t, wgSpecs["C11"]) }
func TestReplayC11(t *testing.T) { wgReplay(t, wgSpecs["C11"]) }
