package checks

// Shared by C07 (merge succeeds iff conflict-free, exact attributed union), C12 (determinism and
// file-order independence) and C16 part (c) (conflict positions).

import (
	"errors"
	"fmt"
	"sort"
	"strings"
	"testing"

	openfgav1 "github.com/openfga/api/proto/openfga/v1"
	"github.com/openfga/language/pkg/go/transformer"
	"github.com/openfga/language/pkg/go/utils"
	"google.golang.org/protobuf/proto"
	"pgregory.net/rapid"

	"verif/internal/ev"
	"verif/internal/gen"
)

type modInput struct {
	Files     []gen.ModFileSpec `json:"files"`
	Schema    string            `json:"schema"`
	Conflicts []gen.Conflict    `json:"conflicts,omitempty"`
	Expected  *gen.Model        `json:"expected,omitempty"`
	Perms     [][]int           `json:"perms,omitempty"`
}

func modInputOf(ms *gen.ModuleSet) modInput {
	return modInput{Files: ms.Files, Schema: ms.Schema, Conflicts: ms.Conflicts, Expected: ms.Expected}
}

func (in modInput) moduleFiles() []transformer.ModuleFile {
	var out []transformer.ModuleFile
	for _, f := range in.Files {
		out = append(out, transformer.ModuleFile{Name: f.Name, Contents: f.Text})
	}
	return out
}

type mergeErr struct {
	Msg, File   string
	Line, Col   int
	LineE, ColE int
	Syntax      bool
}

func (e mergeErr) String() string {
	if e.Syntax {
		return "syntax: " + e.Msg
	}
	return fmt.Sprintf("%s [file=%q line=%d col=%d]", e.Msg, e.File, e.Line, e.Col)
}

// mergeSafe calls the merge under recover.
func mergeSafe(files []transformer.ModuleFile, schema string) (m *openfgav1.AuthorizationModel, errs []mergeErr, err error, panicked string) {
	defer func() {
		if r := recover(); r != nil {
			panicked = fmt.Sprint(r)
		}
	}()
	m, err = transformer.TransformModuleFilesToModel(files, schema)
	errs = mergeErrList(err)
	return
}

// mergeErrList reads the public fields of a merge error (nil for a nil error).
func mergeErrList(err error) (errs []mergeErr) {
	if err == nil {
		return nil
	}
	var me *transformer.ModuleValidationMultipleError
	if errors.As(err, &me) {
		for _, e := range me.Errors {
			var se *transformer.ModuleTransformationSingleError
			if errors.As(e, &se) {
				errs = append(errs, mergeErr{Msg: se.Msg, File: se.File, Line: se.Line.Start, Col: se.Column.Start, LineE: se.Line.End, ColE: se.Column.End})
			} else {
				errs = append(errs, mergeErr{Msg: e.Error(), Syntax: true})
			}
		}
	} else {
		errs = append(errs, mergeErr{Msg: "unexpected error type: " + err.Error(), Syntax: true})
	}
	return
}

// mergeErrText renders a merge error with its public fields (Error() alone omits the file).
func mergeErrText(err error) string {
	var b strings.Builder
	for _, e := range mergeErrList(err) {
		fmt.Fprintf(&b, "%s [file=%q line=%d-%d col=%d-%d]; ", e.Msg, e.File, e.Line, e.LineE, e.Col, e.ColE)
	}
	return b.String()
}

func fileTexts(in modInput) string {
	var b strings.Builder
	for _, f := range in.Files {
		fmt.Fprintf(&b, "--- %s\n%s\n", f.Name, f.Text)
	}
	return b.String()
}

func conflictSkipsBlame(in modInput, cf gen.Conflict) bool {
	for _, n := range cf.Files {
		for _, f := range in.Files {
			if f.Name == n && (f.SyntaxError || f.Module == "") {
				return true
			}
		}
	}
	return false
}

// renamedFiles returns the same file set with every file moved to another name (contents untouched); the generator's
// description (expected attribution, blamed files) is renamed with it.
func renamedFiles(in modInput, f func(string) string) modInput {
	out := modInput{Schema: in.Schema}
	for _, x := range in.Files {
		x.Name = f(x.Name)
		out.Files = append(out.Files, x)
	}
	for _, c := range in.Conflicts {
		c2 := c
		c2.Files = nil
		for _, n := range c.Files {
			c2.Files = append(c2.Files, f(n))
		}
		if c.Lines != nil {
			c2.Lines = map[string][]int{}
			for n, l := range c.Lines {
				c2.Lines[f(n)] = l
			}
		}
		out.Conflicts = append(out.Conflicts, c2)
	}
	if in.Expected != nil {
		e := in.Expected.Clone()
		for i := range e.Types {
			if e.Types[i].File != "" {
				e.Types[i].File = f(e.Types[i].File)
			}
			for j := range e.Types[i].Rels {
				if e.Types[i].Rels[j].File != "" {
					e.Types[i].Rels[j].File = f(e.Types[i].Rels[j].File)
				}
			}
		}
		for i := range e.Conds {
			if e.Conds[i].File != "" {
				e.Conds[i].File = f(e.Conds[i].File)
			}
		}
		out.Expected = e
	}
	return out
}

// c07Check: the file set as generated, then the same contents under other file names (the outcome is a function of
// the names and contents handed in by THIS call: attribution and blame follow the new names), then the original once more.
func c07Check(in modInput) string {
	if msg := c07CheckOnce(in); msg != "" {
		return msg
	}
	moved := renamedFiles(in, func(n string) string { return "moved/" + n })
	if msg := c07CheckOnce(moved); msg != "" {
		return "same contents under other file names (directly after merging them under the original names): " + msg
	}
	if len(in.Files) <= 6 {
		if msg := c07CheckOnce(in); msg != "" {
			return "original file names again, after the same contents were merged under other names: " + msg
		}
	}
	return ""
}

// c07CheckOnce: success iff conflict-free; exact attributed union on success; blame on failure.
func c07CheckOnce(in modInput) string {
	files := in.moduleFiles()
	texts := make([]string, len(files))
	for i, f := range files {
		texts[i] = f.Contents
	}
	m, errs, err, pan := mergeSafe(files, in.Schema)
	if pan != "" {
		return "TransformModuleFilesToModel panicked: " + pan
	}
	for i, f := range files {
		if f.Contents != texts[i] || f.Name != in.Files[i].Name {
			return "the merge modified the file list it was given"
		}
	}
	// the same files once more in the same process: the outcome is a function of the files
	snapshot := proto.Clone(m)
	m2, errs2, err2, pan2 := mergeSafe(in.moduleFiles(), in.Schema)
	if pan2 != "" {
		return "TransformModuleFilesToModel panicked on the second call with the same files: " + pan2
	}
	if (err == nil) != (err2 == nil) {
		return fmt.Sprintf("merging the same files a second time gives a different verdict: first %v, then %v", errs, errs2)
	}
	if err == nil && (!proto.Equal(m, m2) || !proto.Equal(snapshot, m)) {
		return "merging the same files a second time gives a different model (or changed the model returned before)"
	}
	// the same files with another schema version, then with the first one again: the version is an argument like the files
	alt := in.Schema + ".9"
	if in.Schema == "" {
		alt = "1.1"
	}
	m3, errs3, err3, pan3 := mergeSafe(in.moduleFiles(), alt)
	if pan3 != "" {
		return "TransformModuleFilesToModel panicked when the same files were merged with another schema version: " + pan3
	}
	if (err == nil) != (err3 == nil) {
		return fmt.Sprintf("merging the same files with schema version %q instead of %q changes the verdict: first %v, then %v", alt, in.Schema, errs, errs3)
	}
	if err == nil {
		if m3.GetSchemaVersion() != alt {
			return fmt.Sprintf("merge with schema version %q directly after a merge of the same files with %q: the model says %q", alt, in.Schema, m3.GetSchemaVersion())
		}
		c3 := proto.Clone(m3).(*openfgav1.AuthorizationModel)
		c3.SchemaVersion = m.GetSchemaVersion()
		if !proto.Equal(c3, m) {
			return "merging the same files with another schema version changes more than the schema version"
		}
		m4, _, err4, _ := mergeSafe(in.moduleFiles(), in.Schema)
		if err4 != nil || !proto.Equal(m4, m) {
			return fmt.Sprintf("merging with the first schema version again (after another version in between) gives a different result: schema %q, error %v", m4.GetSchemaVersion(), err4)
		}
	}
	if len(in.Conflicts) == 0 {
		if err != nil {
			return fmt.Sprintf("conflict-free file set rejected: %v", errs)
		}
		if m == nil {
			return "nil model and nil error"
		}
		if m.GetSchemaVersion() != in.Schema {
			return fmt.Sprintf("schema version %q, requested %q", m.GetSchemaVersion(), in.Schema)
		}
		if d := gen.Diff(in.Expected, gen.FromProto(m), gen.DiffOpts{TypesAsSet: true, Expr: gen.NormExprLoose}); d != "" {
			return "merged model differs from what the files declare (declared vs merged): " + d
		}
		// GetModuleForObjectTypeRelation
		for _, td := range m.GetTypeDefinitions() {
			var want *gen.TypeDef
			for i := range in.Expected.Types {
				if in.Expected.Types[i].Name == td.GetType() {
					want = &in.Expected.Types[i]
				}
			}
			if want == nil {
				continue
			}
			for _, r := range want.Rels {
				got, err := utils.GetModuleForObjectTypeRelation(td, r.Name)
				wantMod := want.Module
				if r.Module != "" {
					wantMod = r.Module
				}
				if err != nil || got != wantMod {
					return fmt.Sprintf("GetModuleForObjectTypeRelation(%s, %s) = %q, %v; declared by module %q", td.GetType(), r.Name, got, err, wantMod)
				}
			}
			if _, err := utils.GetModuleForObjectTypeRelation(td, "no_such_relation"); err == nil {
				return "GetModuleForObjectTypeRelation succeeds for a relation that does not exist"
			}
		}
		return ""
	}
	if err == nil {
		var kinds []string
		for _, c := range in.Conflicts {
			kinds = append(kinds, fmt.Sprintf("%s(%s %s in %v)", c.Kind, c.Type, c.Name, c.Files))
		}
		return fmt.Sprintf("file set with conflicts %v was merged without error", kinds)
	}
	if m != nil {
		return "a (partial) model was returned together with an error"
	}
	if len(errs) == 0 {
		return "error without any entry"
	}
	if len(in.Conflicts) > 1 {
		// simultaneous conflicts can mask one another (a duplicate definition that is dropped takes its relations
		// with it), so per-conflict blame is only demanded for a single injected conflict - and for several
		// re-definitions of types, which are all found in the first pass over the files and cannot mask one another
		for _, cf := range in.Conflicts {
			if cf.Kind != "duplicate-type-across" {
				return ""
			}
		}
	}
	for _, cf := range in.Conflicts {
		if cf.Kind == "syntax-error" {
			found := false
			for _, e := range errs {
				if e.Syntax {
					found = true
				}
			}
			if !found {
				return fmt.Sprintf("file %v has a syntax error but no syntax error is reported: %v", cf.Files, errs)
			}
			continue
		}
		if cf.Kind != "not-a-module" && conflictSkipsBlame(in, cf) {
			continue
		}
		if cf.Kind == "not-a-module" {
			// a file that does not even parse is reported as a syntax error, not as "not a module"
			skip := false
			for _, f := range in.Files {
				if f.Name == cf.Files[0] && f.SyntaxError {
					skip = true
				}
			}
			if skip {
				continue
			}
		}
		found := false
		for _, e := range errs {
			for _, n := range cf.Files {
				if !e.Syntax && e.File == n {
					found = true
				}
			}
		}
		if !found {
			return fmt.Sprintf("conflict %s (%s %s) in %v: no error names an offending file; errors: %v", cf.Kind, cf.Type, cf.Name, cf.Files, errs)
		}
	}
	return ""
}

// ---------------------------------------------------------------------------------------------

const c07Rule = "rapid-generated module file sets: 1-5 files over 5 module names, 1-5 base types with 0-3 relations, 0-5 extensions (several files extending one type, one file " +
	"extending several, a file extending a type it defines itself), 0-3 conditions spread over files, arbitrary schema version strings, some files under random layout; 0-2 injected " +
	"conflicts from {non-module file, syntax error, duplicate type across/within files, duplicate condition, extend of a missing type, relation clash base<->extension and " +
	"extension<->extension}. Oracle: reference merge computed from the generator's own description: success iff no conflict; on success exact attributed union (types as a set, relations, " +
	"rewrites, restrictions, module/file attribution of types, extension relations and conditions, GetModuleForObjectTypeRelation, schema version); on conflict non-nil error, nil " +
	"model, no panic, and an error naming an offending file per injected conflict. Non-trivial = >= 2 files and (an extension or a conflict); distinct by file contents."

func modClasses(ms *gen.ModuleSet) (cls []string, nExtFiles int, nontrivial bool) {
	extFiles := 0
	ext := false
	selfExt := false
	for _, f := range ms.Files {
		has := false
		defined := map[string]bool{}
		for ti, td := range f.Model.Types {
			if !f.Extend[ti] {
				defined[td.Name] = true
			}
		}
		for ti, td := range f.Model.Types {
			if f.Extend[ti] {
				has, ext = true, true
				if defined[td.Name] {
					selfExt = true
				}
			}
		}
		if has {
			extFiles++
		}
	}
	if ms.Scale != "" {
		cls = append(cls, "set:scaled", "set:scaled:"+ms.Scale)
	}
	if len(ms.Files) >= 8 {
		cls = append(cls, "set:eight-or-more-files")
	}
	if ext {
		cls = append(cls, "set:has-extension")
	}
	if extFiles >= 2 {
		cls = append(cls, "set:two-or-more-extending-files")
	}
	if selfExt {
		cls = append(cls, "set:file-extends-own-type")
	}
	if len(ms.Conflicts) == 0 {
		cls = append(cls, "set:conflict-free")
	}
	for _, c := range ms.Conflicts {
		cls = append(cls, "conflict:"+c.Kind)
		if c.Decoy {
			cls = append(cls, "conflict:with-decoy")
		}
	}
	if len(ms.Conflicts) >= 2 {
		cls = append(cls, "set:two-or-more-conflicts")
	}
	return cls, extFiles, len(ms.Files) >= 2 && (ext || len(ms.Conflicts) > 0)
}

func TestC07(t *testing.T) {
	rec := ev.New("C07", c07Rule)
	defer func() {
		if !rec.Flush() {
			t.Fail()
		}
	}()
	rec.Assume("a conflict whose offending file also has a syntax error or is the non-module file is only required to make the merge fail (the file is skipped before the conflict can be seen)")
	rec.Require("set:conflict-free", 0.25)
	rec.Require("set:two-or-more-extending-files", 0.10)
	rec.Require("set:file-extends-own-type", 0.03)
	rec.Require("set:scaled", 0.08)
	for _, k := range gen.ConflictKinds {
		rec.Require("conflict:"+k, 0.02)
	}
	// bounded family: conflict-free sets around special name pairs (gen.NamePairModuleSets), every order of the files
	if ev.Shard() == 0 {
		var n int64
		for i, ms := range gen.NamePairModuleSets() {
			base := modInputOf(ms)
			for _, perm := range permutationsInt([]int{0, 1, 2}) {
				in := base
				in.Files = []gen.ModFileSpec{base.Files[perm[0]], base.Files[perm[1]], base.Files[perm[2]]}
				n++
				if msg := c07Check(in); msg != "" {
					rec.Violation(in, fmt.Sprintf("name-pair family set #%d, file order %v: %s", i, perm, msg))
					t.Fatalf("name-pair family set #%d, file order %v: %s\n%s", i, perm, msg, fileTexts(in))
				}
			}
		}
		rec.Bulk(n, n, map[string]int64{"name-pair-family:file-orders": n})
	}
	rapid.Check(t, func(rt *rapid.T) {
		noiseCall(rt) // one case in three is preceded by an unrelated, mostly failing call (see noise_test.go)
		ms := gen.Modules(rt, gen.ModOpts{MaxConflicts: 2, Layout: true, CaseNames: true, Twice: true, EmptySelfExt: true, GlueNames: true, BigExt: true, Scale: true})
		in := modInputOf(ms)
		cls, _, nt := modClasses(ms)
		var sample any
		if nt {
			sample = map[string]any{"files": fileTexts(in), "conflicts": ms.Conflicts}
		}
		rec.Case(fileTexts(in), nt, sample, cls...)
		if msg := c07Check(in); msg != "" {
			rec.Violation(in, msg)
			rt.Fatalf("%s\n%s", msg, fileTexts(in))
		}
	})
}

func TestReplayC07(t *testing.T) {
	for _, f := range ev.ReplayFiles("C07") {
		var in modInput
		if _, err := ev.LoadReplay(f, &in); err != nil {
			t.Fatalf("%s: %v", f, err)
		}
		rec := ev.New("C07", c07Rule)
		if msg := c07Check(in); msg != "" {
			rec.Violation(in, msg)
			t.Errorf("%s: %s", f, msg)
		}
	}
}

// ---------------------------------------------------------------------------------------------
// C12

const c12Rule = "rapid-generated module file sets with >= 2 files contributing extensions and 0-3 simultaneous conflicts; oracle (metamorphic): 20 repeated calls on one list give " +
	"proto.Equal models or identical error lists (message, file, line, column, order); all permutations of the file list (<= 4 files) or 24 rapid-drawn ones: success is invariant and, on " +
	"success, the models are equal after sorting type_definitions by name. Non-trivial = >= 2 files contribute extensions; distinct by file contents."

func errList(errs []mergeErr) string {
	var s []string
	for _, e := range errs {
		s = append(s, e.String())
	}
	return strings.Join(s, "\n")
}

func sortedTypes(m *openfgav1.AuthorizationModel) *openfgav1.AuthorizationModel {
	c := proto.Clone(m).(*openfgav1.AuthorizationModel)
	sort.SliceStable(c.TypeDefinitions, func(i, j int) bool { return c.TypeDefinitions[i].GetType() < c.TypeDefinitions[j].GetType() })
	return c
}

func c12Check(in modInput) string {
	files := in.moduleFiles()
	m0, errs0, err0, pan := mergeSafe(files, in.Schema)
	if pan != "" {
		return "TransformModuleFilesToModel panicked: " + pan
	}
	for i := 0; i < 20; i++ {
		if i == 7 {
			// "on every invocation": also after the same list was merged for another schema version in between
			alt := in.Schema + "-b"
			ma, _, erra, _ := mergeSafe(in.moduleFiles(), alt)
			if (erra == nil) != (err0 == nil) {
				return fmt.Sprintf("the same file list with schema version %q: success=%v, with %q: success=%v", alt, erra == nil, in.Schema, err0 == nil)
			}
			if erra == nil && ma.GetSchemaVersion() != alt {
				return fmt.Sprintf("merge with schema version %q after merges of the same list with %q returns a model that says %q", alt, in.Schema, ma.GetSchemaVersion())
			}
		}
		m, errs, err, pan := mergeSafe(in.moduleFiles(), in.Schema)
		if pan != "" {
			return "TransformModuleFilesToModel panicked: " + pan
		}
		if (err == nil) != (err0 == nil) {
			return fmt.Sprintf("call #%d on the same file list: success=%v, first call success=%v", i, err == nil, err0 == nil)
		}
		if err == nil {
			if !proto.Equal(m, m0) {
				return fmt.Sprintf("call #%d on the same file list returns a different model: %s", i, gen.Diff(gen.FromProto(m0), gen.FromProto(m), gen.DiffOpts{}))
			}
		} else if errList(errs) != errList(errs0) {
			return fmt.Sprintf("call #%d on the same file list returns a different error list:\n--- first call:\n%s\n--- now:\n%s", i, errList(errs0), errList(errs))
		}
	}
	for _, perm := range in.Perms {
		if len(perm) != len(files) {
			continue
		}
		pf := make([]transformer.ModuleFile, len(files))
		for i, j := range perm {
			pf[i] = files[j]
		}
		m, errs, err, pan := mergeSafe(pf, in.Schema)
		if pan != "" {
			return "TransformModuleFilesToModel panicked: " + pan
		}
		if (err == nil) != (err0 == nil) {
			return fmt.Sprintf("permuting the file list %v changes whether the merge succeeds (%v vs %v): %s", perm, err0 == nil, err == nil, errList(append(errs0, errs...)))
		}
		if err == nil && !proto.Equal(sortedTypes(m), sortedTypes(m0)) {
			return fmt.Sprintf("permuting the file list %v changes more than the order of type definitions: %s", perm, gen.Diff(gen.FromProto(sortedTypes(m0)), gen.FromProto(sortedTypes(m)), gen.DiffOpts{}))
		}
	}
	return ""
}

func TestC12(t *testing.T) {
	rec := ev.New("C12", c12Rule)
	defer func() {
		if !rec.Flush() {
			t.Fail()
		}
	}()
	rec.Assume("which of two clashing files is blamed may follow list order, so error content is compared between repeated calls on one list, not across permutations")
	rec.Require("set:two-or-more-extending-files", 0.5)
	rec.Require("set:two-or-more-conflicts", 0.15)
	// bounded family: conflict-free sets around special name pairs, all six orders of the three files at once
	if ev.Shard() == 0 {
		var n int64
		for i, ms := range gen.NamePairModuleSets() {
			in := modInputOf(ms)
			in.Perms = permutationsInt([]int{0, 1, 2})
			n++
			if msg := c12Check(in); msg != "" {
				rec.Violation(in, fmt.Sprintf("name-pair family set #%d: %s", i, msg))
				t.Fatalf("name-pair family set #%d: %s\n%s", i, msg, fileTexts(in))
			}
		}
		rec.Bulk(n, n, map[string]int64{"name-pair-family:sets": n})
	}
	rapid.Check(t, func(rt *rapid.T) {
		noiseCall(rt) // one case in three is preceded by an unrelated, mostly failing call (see noise_test.go)
		ms := gen.Modules(rt, gen.ModOpts{MaxConflicts: 3, MinExtFiles: 2, MaxFiles: 5, MultiDup: true, CaseNames: true, Layout: true, BigExt: true, Scale: true})
		in := modInputOf(ms)
		idx := make([]int, len(in.Files))
		for i := range idx {
			idx[i] = i
		}
		if len(idx) <= 4 {
			for _, p := range permutationsInt(idx) {
				in.Perms = append(in.Perms, p)
			}
		} else {
			for i := 0; i < 24; i++ {
				in.Perms = append(in.Perms, rapid.Permutation(idx).Draw(rt, "perm"))
			}
		}
		cls, extFiles, _ := modClasses(ms)
		nt := extFiles >= 2
		var sample any
		if nt {
			sample = map[string]any{"files": fileTexts(in), "conflicts": ms.Conflicts, "permutations": len(in.Perms)}
		}
		rec.Class("permutations_explored", int64(len(in.Perms)))
		rec.Case(fileTexts(in), nt, sample, cls...)
		if msg := c12Check(in); msg != "" {
			rec.Violation(in, msg)
			rt.Fatalf("%s\n%s", msg, fileTexts(in))
		}
	})
}

func permutationsInt(xs []int) [][]int {
	var out [][]int
	a := append([]int{}, xs...)
	var rec func(k int)
	rec = func(k int) {
		if k == len(a) {
			out = append(out, append([]int{}, a...))
			return
		}
		for i := k; i < len(a); i++ {
			a[k], a[i] = a[i], a[k]
			rec(k + 1)
			a[k], a[i] = a[i], a[k]
		}
	}
	rec(0)
	return out
}

func TestReplayC12(t *testing.T) {
	for _, f := range ev.ReplayFiles("C12") {
		var in modInput
		if _, err := ev.LoadReplay(f, &in); err != nil {
			t.Fatalf("%s: %v", f, err)
		}
		if len(in.Perms) == 0 && len(in.Files) <= 5 {
			idx := make([]int, len(in.Files))
			for i := range idx {
				idx[i] = i
			}
			in.Perms = permutationsInt(idx)
		}
		rec := ev.New("C12", c12Rule)
		for rep := 0; rep < 5; rep++ {
			if msg := c12Check(in); msg != "" {
				rec.Violation(in, msg)
				t.Errorf("%s: %s", f, msg)
				break
			}
		}
	}
}

// ---------------------------------------------------------------------------------------------
// C16 (c): conflict positions

var colExact int64 // merge-conflict columns that point exactly at the name (reported, not demanded)

func c16MergeCheck(in modInput) string {
	_, errs, err, pan := mergeSafe(in.moduleFiles(), in.Schema)
	if pan != "" {
		return "TransformModuleFilesToModel panicked: " + pan
	}
	if len(in.Conflicts) == 0 {
		return ""
	}
	if err == nil {
		return "" // C07's business
	}
	for _, cf := range in.Conflicts {
		if cf.Kind == "syntax-error" || cf.Kind == "not-a-module" || conflictSkipsBlame(in, cf) {
			continue
		}
		// errors that speak about this conflict: same name in the message and an offending file
		var mine []mergeErr
		for _, e := range errs {
			if e.Syntax {
				continue
			}
			inFiles := false
			for _, n := range cf.Files {
				if e.File == n {
					inFiles = true
				}
			}
			if !inFiles {
				continue
			}
			// exactly one conflict is injected in this sub-check, so every error in an offending file is about it
			// (no parsing of message texts)
			hit := true
			if hit {
				mine = append(mine, e)
			}
		}
		if len(mine) == 0 {
			return fmt.Sprintf("conflict %s (%s %s) in %v: no error names an offending file and the conflicting name; errors: %v", cf.Kind, cf.Type, cf.Name, cf.Files, errs)
		}
		for _, e := range mine {
			ok := false
			for _, l := range cf.Lines[e.File] {
				if e.Line == l {
					ok = true
				}
			}
			if !ok {
				return fmt.Sprintf("conflict %s (%s %s): error %q reports line %d of %q, the conflicting declaration stands on line(s) %v (zero-based)", cf.Kind, cf.Type, cf.Name, e.Msg, e.Line, e.File, cf.Lines[e.File])
			}
			// column: inside that line, at the name
			var text string
			for _, f := range in.Files {
				if f.Name == e.File {
					text = f.Text
				}
			}
			lines := strings.Split(text, "\n")
			if e.Line < 0 || e.Line >= len(lines) {
				return fmt.Sprintf("error line %d outside file %q (%d lines)", e.Line, e.File, len(lines))
			}
			// the property fixes file and line of a merge conflict; of the column only that it lies inside that line
			ln := lines[e.Line]
			if e.Col < 0 || e.Col > len(ln) {
				return fmt.Sprintf("conflict %s (%s %s): column %d lies outside line %q", cf.Kind, cf.Type, cf.Name, e.Col, ln)
			}
			if e.Col+len(cf.Name) <= len(ln) && ln[e.Col:e.Col+len(cf.Name)] == cf.Name {
				colExact++
			}
		}
	}
	return ""
}

func c16Merge(t *testing.T, rec *ev.Rec) {
	rapid.Check(t, func(rt *rapid.T) {
		noiseCall(rt) // one case in three is preceded by an unrelated, mostly failing call (see noise_test.go)
		ms := gen.Modules(rt, gen.ModOpts{MaxConflicts: 1, Decoys: true, MaxFiles: 4, Layout: true, CaseNames: true, Scale: true, ScaleNoBroken: true,
			OnlyKinds: []string{"duplicate-type-across", "duplicate-type-within", "duplicate-condition", "extend-missing-type", "relation-clash-base", "relation-clash-extensions"}})
		in := modInputOf(ms)
		cls := []string{"merge:case"}
		nt := false
		for _, c := range ms.Conflicts {
			cls = append(cls, "merge:conflict:"+c.Kind)
			if c.Decoy {
				nt = true
				cls = append(cls, "merge:decoy-present")
			}
		}
		var sample any
		if nt {
			sample = map[string]any{"files": fileTexts(in), "conflicts": ms.Conflicts}
		}
		rec.Case(fileTexts(in), nt, sample, cls...)
		if msg := c16MergeCheck(in); msg != "" {
			rec.Violation(in, msg)
			rt.Fatalf("%s\n%s", msg, fileTexts(in))
		}
	})
}
