package checks

// C13 — pure functions: inputs untouched, calls independent of history, thread-safe.

import (
	"encoding/hex"
	"encoding/json"
	"fmt"
	"sort"
	"strings"
	"sync"
	"testing"
	"time"

	openfgav1 "github.com/openfga/api/proto/openfga/v1"
	"github.com/openfga/language/pkg/go/graph"
	"github.com/openfga/language/pkg/go/transformer"
	"github.com/openfga/language/pkg/go/validation"
	"google.golang.org/protobuf/encoding/protojson"
	"google.golang.org/protobuf/proto"
	"pgregory.net/rapid"

	"verif/internal/ev"
	"verif/internal/gen"
)

func fingerprint(m proto.Message) string {
	b, err := proto.MarshalOptions{Deterministic: true}.Marshal(m)
	if err != nil {
		return "marshal-error:" + err.Error()
	}
	return hex.EncodeToString(b)
}

type c13Doc struct {
	Kind string   `json:"kind"` // dsl | module | json | modfile | merge | strings
	Text string   `json:"text"`
	More []string `json:"more,omitempty"`
}

type c13Step struct {
	Op   string  `json:"op"` // new | new-concurrent | again | concurrent | shared | mutate | cold
	Doc  *c13Doc `json:"doc,omitempty"`
	Idx  []int   `json:"idx,omitempty"`
	Seed int     `json:"seed,omitempty"`
}

type c13Input struct {
	Steps      []c13Step `json:"steps,omitempty"`
	RaceReport string    `json:"race_report,omitempty"`
}

// c13Eval computes every observable result for one document (model-taking functions are fed a
// fresh clone and the clone is compared afterwards: purity). It returns the results and a purity
// violation, if any.
func c13Eval(d c13Doc) (map[string]string, string) {
	res := map[string]string{}
	purity := ""
	safe := func(name string, f func() string) {
		defer func() {
			if r := recover(); r != nil {
				res[name] = fmt.Sprint("PANIC:", r)
			}
		}()
		res[name] = f()
	}
	var model *openfgav1.AuthorizationModel
	switch d.Kind {
	case "dsl":
		safe("TransformDSLToProto", func() string { return runOp("dsl", d.Text, nil) })
		safe("TransformDSLToJSON", func() string {
			js, err := transformer.TransformDSLToJSON(d.Text)
			if err != nil {
				return "ERR:" + err.Error()
			}
			// protojson output is deliberately unstable in whitespace: compare the decoded model
			m, err := transformer.LoadJSONStringToProto(js)
			if err != nil {
				return "ERR-reload:" + err.Error()
			}
			return "OK:" + fingerprint(m)
		})
		model, _ = transformer.TransformDSLToProto(d.Text)
	case "module":
		safe("TransformModularDSLToProto", func() string { return runOp("modular", d.Text, nil) })
	case "json":
		safe("TransformJSONStringToDSL", func() string { return runOp("json", d.Text, nil) })
		safe("TransformJSONStringToDSL+source", func() string {
			s, err := transformer.TransformJSONStringToDSL(d.Text, transformer.WithIncludeSourceInformation(true))
			if err != nil {
				return "ERR:" + err.Error()
			}
			return "OK:" + *s
		})
		model, _ = transformer.LoadJSONStringToProto(d.Text)
	case "modfile":
		safe("TransformModFile", func() string { return runOp("modfile", d.Text, nil) })
	case "merge":
		files := []transformer.ModuleFile{{Name: "f0.fga", Contents: d.Text}}
		for i, t := range d.More {
			files = append(files, transformer.ModuleFile{Name: fmt.Sprintf("f%d.fga", i+1), Contents: t})
		}
		snapshot := append([]transformer.ModuleFile{}, files...)
		safe("TransformModuleFilesToModel", func() string {
			m, err := transformer.TransformModuleFilesToModel(files, "1.2")
			if err != nil {
				c13Hold("the error returned by TransformModuleFilesToModel", func() string { return mergeErrText(err) })
				return "ERR:" + mergeErrText(err)
			}
			c13Hold("the model returned by TransformModuleFilesToModel", func() string { return fingerprint(m) })
			return "OK:" + fingerprint(m)
		})
		for i := range files {
			if files[i] != snapshot[i] {
				purity = "TransformModuleFilesToModel modified the file list"
			}
		}
	case "strings":
		safe("validators", func() string {
			var b strings.Builder
			for _, s := range append([]string{d.Text}, d.More...) {
				fmt.Fprintf(&b, "%v%v%v%v%v%v%v%v%v|", validation.ValidateObject(s), validation.ValidateUser(s), validation.ValidateUserSet(s), validation.ValidateUserObject(s),
					validation.ValidateUserWildcard(s), validation.ValidateType(s), validation.ValidateRelation(s), validation.ValidateObjectID(s), validation.ValidateRelationshipCondition(s))
			}
			return b.String()
		})
	}
	if model != nil {
		ops := c13ModelOps(model, model)
		for k, v := range ops.res {
			res[k] = v
		}
		if ops.purity != "" {
			purity = ops.purity
		}
	}
	return res, purity
}

type c13ModelResult struct {
	res    map[string]string
	purity string
}

// c13ModelOps runs every model-taking entry point on m (which may be shared between goroutines,
// read-only) and compares m with pristine afterwards when they are distinct objects.
func c13ModelOps(m *openfgav1.AuthorizationModel, _ *openfgav1.AuthorizationModel) c13ModelResult {
	out := c13ModelResult{res: map[string]string{}}
	before := proto.Clone(m).(*openfgav1.AuthorizationModel)
	order := func(x *openfgav1.AuthorizationModel) string {
		var s []string
		for _, td := range x.GetTypeDefinitions() {
			s = append(s, td.GetType())
		}
		return strings.Join(s, ",")
	}
	check := func(name string) {
		if out.purity == "" && (!proto.Equal(before, m) || order(before) != order(m)) {
			out.purity = fmt.Sprintf("%s modified the model it was given (type order before %q, after %q)", name, order(before), order(m))
		}
	}
	safe := func(name string, f func() string) {
		defer func() {
			if r := recover(); r != nil {
				out.res[name] = fmt.Sprint("PANIC:", r)
			}
		}()
		out.res[name] = f()
		check(name)
	}
	safe("TransformJSONProtoToDSL", func() string {
		s, err := transformer.TransformJSONProtoToDSL(m)
		if err != nil {
			return "ERR:" + err.Error()
		}
		return "OK:" + s
	})
	safe("TransformJSONProtoToDSL+source", func() string {
		s, err := transformer.TransformJSONProtoToDSL(m, transformer.WithIncludeSourceInformation(true))
		if err != nil {
			return "ERR:" + err.Error()
		}
		return "OK:" + s
	})
	safe("NewAuthorizationModelGraph", func() string {
		g, err := graph.NewAuthorizationModelGraph(m)
		if err != nil {
			return "ERR:" + err.Error()
		}
		r, err := g.Reversed()
		if err != nil {
			return "ERR-reversed:" + err.Error()
		}
		return "OK:" + g.GetDOT() + "\n" + r.GetDOT()
	})
	safe("WeightedBuild", func() string {
		wg, err := graph.NewWeightedAuthorizationModelGraphBuilder().Build(m)
		if err != nil {
			return "ERR" // which of the error kinds/messages is reported may depend on map order
		}
		return "OK:" + wgDump(wg)
	})
	// one builder value for the whole process, used by every history step and by all goroutines: what it built before
	// (other models, models with the same id) is history, not an argument
	safe("WeightedBuild(process-wide builder)", func() string {
		wg, err := c13SharedBuilder.Build(m)
		if err != nil {
			return "ERR"
		}
		return "OK:" + wgDump(wg)
	})
	if a, b := out.res["WeightedBuild"], out.res["WeightedBuild(process-wide builder)"]; a != b && out.purity == "" {
		out.purity = fmt.Sprintf("a builder value that built other models before gives a different result than a fresh builder: fresh %.200q, reused %.200q", a, b)
	}
	return out
}

var c13SharedBuilder = graph.NewWeightedAuthorizationModelGraphBuilder()

func c13Compare(base, now map[string]string) string {
	var ks []string
	for k := range base {
		ks = append(ks, k)
	}
	sort.Strings(ks)
	for _, k := range ks {
		if base[k] != now[k] {
			return fmt.Sprintf("%s: first result %.300q, now %.300q", k, base[k], now[k])
		}
	}
	return ""
}

// c13Machine replays a history of steps and returns the first violation.
type c13Machine struct {
	pool []c13Doc
	base []map[string]string
}

// Values handed out by earlier calls belong to the caller: no later call may change them (a cached object handed out
// twice, a package-level error value whose fields are overwritten). A bounded sample is kept per history and
// re-rendered after every step.
type c13HeldValue struct {
	what   string
	render func() string
	first  string
}

var c13Held struct {
	sync.Mutex
	on   bool
	list []c13HeldValue
}

func c13HoldReset(on bool) {
	c13Held.Lock()
	c13Held.on, c13Held.list = on, nil
	c13Held.Unlock()
}

func c13Hold(what string, render func() string) {
	c13Held.Lock()
	defer c13Held.Unlock()
	if !c13Held.on || len(c13Held.list) >= 48 {
		return
	}
	c13Held.list = append(c13Held.list, c13HeldValue{what: what, render: render, first: render()})
}

func c13CheckHeld() string {
	c13Held.Lock()
	defer c13Held.Unlock()
	for _, h := range c13Held.list {
		if now := h.render(); now != h.first {
			return fmt.Sprintf("%s was changed by a later call: it read %.300q when it was returned, now %.300q", h.what, h.first, now)
		}
	}
	return ""
}

func (mc *c13Machine) apply(st c13Step) string {
	if msg := mc.applyStep(st); msg != "" {
		return msg
	}
	return c13CheckHeld()
}

func (mc *c13Machine) applyStep(st c13Step) string {
	switch st.Op {
	case "new":
		res, pur := c13Eval(*st.Doc)
		if pur != "" {
			return pur
		}
		for i, d := range mc.pool {
			if d.Kind == st.Doc.Kind && d.Text == st.Doc.Text && strings.Join(d.More, "\x00") == strings.Join(st.Doc.More, "\x00") {
				if msg := c13Compare(mc.base[i], res); msg != "" {
					return "the same input gives a different result later in the process: " + msg
				}
				return ""
			}
		}
		mc.pool = append(mc.pool, *st.Doc)
		mc.base = append(mc.base, res)
	case "again":
		for _, i := range st.Idx {
			if i >= len(mc.pool) {
				continue
			}
			res, pur := c13Eval(mc.pool[i])
			if pur != "" {
				return pur
			}
			if msg := c13Compare(mc.base[i], res); msg != "" {
				return fmt.Sprintf("result depends on the call history (input #%d, %d other inputs processed in between): %s", i, len(mc.pool)-i-1, msg)
			}
		}
	case "concurrent":
		var wg sync.WaitGroup
		errs := make(chan string, 64)
		for g := 0; g < 8; g++ {
			wg.Add(1)
			go func(g int) {
				defer wg.Done()
				for k := range st.Idx {
					i := st.Idx[(k+g)%len(st.Idx)]
					if i >= len(mc.pool) {
						continue
					}
					res, pur := c13Eval(mc.pool[i])
					if pur != "" {
						errs <- pur
						return
					}
					if msg := c13Compare(mc.base[i], res); msg != "" {
						errs <- fmt.Sprintf("result differs when other calls run concurrently (input #%d): %s", i, msg)
						return
					}
				}
			}(g)
		}
		wg.Wait()
		close(errs)
		for e := range errs {
			return e
		}
	case "new-concurrent":
		// an input the process has never seen is evaluated on 8 goroutines at once FIRST (lazily initialised
		// shared state is written on first use), then once more alone; all results must agree
		results := make([]map[string]string, 8)
		purs := make([]string, 8)
		var wg sync.WaitGroup
		for g := 0; g < 8; g++ {
			wg.Add(1)
			go func(g int) {
				defer wg.Done()
				results[g], purs[g] = c13Eval(*st.Doc)
			}(g)
		}
		wg.Wait()
		alone, pur := c13Eval(*st.Doc)
		if pur != "" {
			return pur
		}
		for g := 0; g < 8; g++ {
			if purs[g] != "" {
				return purs[g]
			}
			if msg := c13Compare(alone, results[g]); msg != "" {
				return "first-time concurrent evaluation differs from a later evaluation alone: " + msg
			}
		}
		mc.pool = append(mc.pool, *st.Doc)
		mc.base = append(mc.base, alone)
	case "mutate":
		// the same model OBJECT, edited in place between two calls, must give what a fresh deep clone gives
		for _, i := range st.Idx {
			if i >= len(mc.pool) {
				continue
			}
			var obj *openfgav1.AuthorizationModel
			switch mc.pool[i].Kind {
			case "dsl":
				obj, _ = transformer.TransformDSLToProto(mc.pool[i].Text)
			case "json":
				obj, _ = transformer.LoadJSONStringToProto(mc.pool[i].Text)
			}
			if obj == nil {
				continue
			}
			_ = c13ModelOps(obj, nil)
			// edit: drop the alphabetically first relation of every type that has more than one, and rename the id
			for _, td := range obj.GetTypeDefinitions() {
				if len(td.GetRelations()) > 1 {
					names := sortedKeys(td.GetRelations())
					victim := names[st.Seed%len(names)]
					delete(td.Relations, victim)
					if td.GetMetadata() != nil {
						delete(td.Metadata.Relations, victim)
					}
				}
			}
			got := c13ModelOps(obj, nil)
			want := c13ModelOps(proto.Clone(obj).(*openfgav1.AuthorizationModel), nil)
			if msg := c13Compare(want.res, got.res); msg != "" {
				return "a model object edited in place gives a different result than a fresh copy of the same value (state keyed by object identity?): " + msg
			}
		}
	case "cold":
		// the same call first-thing in a fresh process (no history at all) must agree with this process
		for _, i := range st.Idx {
			if i >= len(mc.pool) {
				continue
			}
			d := mc.pool[i]
			op := map[string]string{"dsl": "dsl", "module": "modular", "json": "jsonall", "modfile": "modfile", "merge": "merge"}[d.Kind]
			if op == "" {
				continue
			}
			resp, ok := runChild(childReq{Op: op, Text: d.Text, More: d.More}, 90*time.Second)
			if !ok || resp.Panic != "" {
				continue // inconclusive (C08 owns panics)
			}
			if warm := runOp(op, d.Text, d.More); warm != resp.Result {
				return fmt.Sprintf("a fresh process and this process (after %d other inputs) disagree on input #%d (%s): cold %.300q, here %.300q", len(mc.pool)-1, i, d.Kind, resp.Result, warm)
			}
		}
	case "shared":
		// one model object shared read-only by 8 goroutines
		for _, i := range st.Idx {
			if i >= len(mc.pool) {
				continue
			}
			var shared *openfgav1.AuthorizationModel
			switch mc.pool[i].Kind {
			case "dsl":
				shared, _ = transformer.TransformDSLToProto(mc.pool[i].Text)
			case "json":
				shared, _ = transformer.LoadJSONStringToProto(mc.pool[i].Text)
			}
			if shared == nil {
				continue
			}
			pristine := proto.Clone(shared).(*openfgav1.AuthorizationModel)
			want := c13ModelOps(proto.Clone(shared).(*openfgav1.AuthorizationModel), nil)
			var wg sync.WaitGroup
			errs := make(chan string, 16)
			for g := 0; g < 8; g++ {
				wg.Add(1)
				go func() {
					defer wg.Done()
					got := c13ModelOps(shared, nil)
					if msg := c13Compare(want.res, got.res); msg != "" {
						errs <- "result differs when one model is shared between goroutines: " + msg
					}
				}()
			}
			wg.Wait()
			close(errs)
			for e := range errs {
				return e
			}
			if !proto.Equal(pristine, shared) {
				return "a shared model was modified by concurrent read-only use"
			}
			for k, td := range shared.GetTypeDefinitions() {
				if td.GetType() != pristine.GetTypeDefinitions()[k].GetType() {
					return "the type definitions of a shared model were reordered by concurrent read-only use"
				}
			}
		}
	}
	return ""
}

const c13Rule = "rapid state machine over call histories: a pool of inputs grows by rapid-drawn documents (repository corpus valid and invalid, mutants, rendered generated models, modular " +
	"JSON models with unsorted attributed types, fga.mod manifests, module file sets, validator strings); every entry point is evaluated when an input first appears (DSL parse, JSON " +
	"conversion, printer with and without source information, plain graph + reversal DOT, weighted graph dump, mod file, merge, validators); later steps re-evaluate earlier inputs " +
	"('again'), evaluate batches on 8 goroutines ('concurrent'), evaluate a never-seen input on 8 goroutines FIRST ('new-concurrent'), edit a model object in place and compare with a " +
	"fresh copy of the same value ('mutate'), share ONE model object between 8 goroutines ('shared'), or repeat the call first-thing in a fresh child process " +
	"('cold', <= 1 per history); invariant: every result equals the first one recorded for that " +
	"input, and every model/file list equals its clone after each call (purity, incl. slice order). Cold reference: documents parsed first-thing in fresh child processes must give the " +
	"same fingerprints as the warm process. The binary is built with -race; a race report is a violation. Non-trivial = history with a re-evaluation after >= 5 other inputs, or a " +
	"shared-model step; distinct by history content."

func c13DrawDoc(rt *rapid.T, corp *gen.Corpus) c13Doc {
	all := append(append([]string{}, corp.DSL...), corp.Syntax...)
	switch rapid.IntRange(0, 12).Draw(rt, "docKind") {
	case 0, 1:
		return c13Doc{Kind: "dsl", Text: rapid.SampledFrom(all).Draw(rt, "corpusDoc")}
	case 2:
		return c13Doc{Kind: "dsl", Text: gen.Mutate(rt, rapid.SampledFrom(all).Draw(rt, "corpusDoc"), all, 2)}
	case 3, 4:
		m := gen.DSLModel(rt, gen.DSLOpts{Rich: true, Conditions: true, MaxTypes: 3, MaxRels: 3, Scale: true})
		return c13Doc{Kind: "dsl", Text: gen.Render(m, &rapidChooser{t: rt}, gen.RenderOpts{}).Text}
	case 5:
		return c13Doc{Kind: "module", Text: gen.Mutate(rt, rapid.SampledFrom(corp.Modules).Draw(rt, "moduleDoc"), corp.Modules, 1)}
	case 6, 7:
		// models as an API would store them: module/file attribution in arbitrary type order, or json-profile
		// rewrites (direct assignment not first, single-child operators); a few fixed model ids recur, so that
		// different models carrying the same id meet in one history
		var pm *openfgav1.AuthorizationModel
		if rapid.Bool().Draw(rt, "jsonProfile") {
			pm = c02Draw(rt).Proto()
		} else {
			pm = c14Draw(rt).Model.Proto()
		}
		pm.Id = rapid.SampledFrom([]string{"", "01HVMMBCMGZNT3SED4Z17ECXCA", "01HVMMBCMGZNT3SED4Z17ECXCB"}).Draw(rt, "modelID")
		// parameter types the DSL has no word for (any, unspecified, enum numbers this version does not know): JSON only
		for _, cd := range pm.GetConditions() {
			for _, ref := range cd.GetParameters() {
				if rapid.IntRange(0, 3).Draw(rt, "exoticType") == 0 {
					ref.TypeName = openfgav1.ConditionParamTypeRef_TypeName(rapid.SampledFrom([]int32{0, 1, 14, 15, 40, 41, 42, 57, 99, 100, 101, 250, 251, 999}).Draw(rt, "typeNumber"))
					ref.GenericTypes = nil
				}
			}
		}
		js, _ := protojson.Marshal(pm)
		return c13Doc{Kind: "json", Text: string(js)}
	case 8:
		if rapid.Bool().Draw(rt, "graphModel") {
			// graph-profile models (tuple-to-userset targets resolve) carrying one of the recurring ids
			gm := gen.GraphModel(rt, gen.GraphOpts{MultiThis: true, SmallModels: rapid.Bool().Draw(rt, "small"), SparseMeta: true, Names: true})
			if rapid.Bool().Draw(rt, "scaled") {
				gen.InflateGraph(rt, gm) // counts around 8, 16, 32 along one dimension (long restriction lists, many parents, ...)
			}
			pm := gm.Proto()
			pm.Id = rapid.SampledFrom([]string{"", "01HVMMBCMGZNT3SED4Z17ECXCA", "01HVMMBCMGZNT3SED4Z17ECXCB"}).Draw(rt, "modelID")
			js, _ := protojson.Marshal(pm)
			return c13Doc{Kind: "json", Text: string(js)}
		}
		return c13Doc{Kind: "json", Text: rapid.SampledFrom(corp.JSON).Draw(rt, "jsonDoc")}
	case 9:
		return c13Doc{Kind: "modfile", Text: c15GenManifest(rt).Text}
	case 10:
		ms := gen.Modules(rt, gen.ModOpts{MaxConflicts: 1, MaxFiles: 3, Layout: true, Scale: true})
		d := c13Doc{Kind: "merge", Text: ms.Files[0].Text}
		for _, f := range ms.Files[1:] {
			d.More = append(d.More, f.Text)
		}
		if rapid.IntRange(0, 9).Draw(rt, "bomFile") == 0 {
			d.Text = "\ufeff" + d.Text // a byte order mark in front of the first file
		}
		if rapid.IntRange(0, 3).Draw(rt, "crlfFiles") == 0 {
			// Windows line ends in every file (the caller's slice must come back as it went in)
			d.Text = strings.ReplaceAll(strings.ReplaceAll(d.Text, "\r\n", "\n"), "\n", "\r\n")
			for i := range d.More {
				d.More[i] = strings.ReplaceAll(strings.ReplaceAll(d.More[i], "\r\n", "\n"), "\n", "\r\n")
			}
		}
		return d
	case 11:
		// merges that fail: model files (not modules), documents with syntax errors and module files in any position
		// (error values are results too, and error paths are where shared sentinels live)
		pick := func() string {
			switch rapid.IntRange(0, 3).Draw(rt, "mergeFileKind") {
			case 0:
				return rapid.SampledFrom(corp.DSL).Draw(rt, "modelFile")
			case 1:
				return rapid.SampledFrom(corp.Syntax).Draw(rt, "brokenFile")
			default:
				return rapid.SampledFrom(corp.Modules).Draw(rt, "moduleFile")
			}
		}
		d := c13Doc{Kind: "merge", Text: pick()}
		for i, n := 0, rapid.IntRange(0, 2).Draw(rt, "moreFiles"); i < n; i++ {
			d.More = append(d.More, pick())
		}
		if rapid.IntRange(0, 3).Draw(rt, "crlfFiles") == 0 {
			d.Text = strings.ReplaceAll(strings.ReplaceAll(d.Text, "\r\n", "\n"), "\n", "\r\n")
			for i := range d.More {
				d.More[i] = strings.ReplaceAll(strings.ReplaceAll(d.More[i], "\r\n", "\n"), "\n", "\r\n")
			}
		}
		return d
	default:
		return c13Doc{Kind: "strings", Text: c18GenString(rt), More: []string{c18GenString(rt), "document:1", "group:eng#member"}}
	}
}

func TestC13(t *testing.T) {
	rec := ev.New("C13", c13Rule)
	defer func() {
		if !rec.Flush() {
			t.Fail()
		}
	}()
	rec.Assume("thread safety is sampled with the Go race detector under real scheduling; the scheduler is not controlled",
		"which error kind a rejected weighted-graph build reports is not part of the compared result")
	corp := gen.LoadCorpus(ev.Repo())
	if len(corp.DSL) < 10 {
		ev.HarnessError("C13", "corpus not found")
		t.Fatal("no corpus")
	}
	// cold reference first: children are compared with this (by then warm-ish) process
	nCold := 40
	if ev.Thorough() {
		nCold = 120
	}
	coldDocs := append(append(append([]string{}, corp.DSL...), corp.Syntax...), corp.Modules...)
	step := len(coldDocs)/nCold + 1
	cold, inconclusive := 0, 0
	var wgc sync.WaitGroup
	var mu sync.Mutex
	coldViolation := ""
	sem := make(chan struct{}, 8)
	for i := ev.Shard() % step; i < len(coldDocs); i += step {
		doc := coldDocs[i]
		wgc.Add(1)
		sem <- struct{}{}
		go func() {
			defer wgc.Done()
			defer func() { <-sem }()
			for _, op := range []string{"dsl", "modular"} {
				resp, ok := runChild(childReq{Op: op, Text: doc}, 60*time.Second)
				mu.Lock()
				if !ok {
					inconclusive++
				} else {
					cold++
					warm := runOp(op, doc, nil)
					if resp.Panic == "" && resp.Result != warm && coldViolation == "" {
						coldViolation = fmt.Sprintf("a cold process and a warm process disagree on %s: cold %.200q warm %.200q", op, resp.Result, warm)
						rec.Violation(c13Input{Steps: []c13Step{{Op: "new", Doc: &c13Doc{Kind: "dsl", Text: doc}}}}, coldViolation)
					}
				}
				mu.Unlock()
			}
		}()
	}
	wgc.Wait()
	rec.Bulk(int64(cold), int64(cold), map[string]int64{"cold:child-process-parses": int64(cold), "cold:inconclusive": int64(inconclusive)})
	if coldViolation != "" {
		t.Fatalf("%s", coldViolation)
	}
	// boundary documents (fixed, legal, past a byte in one dimension): every entry point once, inputs untouched, and the
	// same results when evaluated again. Generated histories draw such sizes too rarely to rely on.
	if ev.Shard() == 0 {
		var docs []c13Doc
		for _, nTypes := range []int{256, 257, 300} {
			m := &gen.Model{Schema: "1.1", Types: []gen.TypeDef{{Name: "user"}}}
			for i := nTypes - 1; i >= 1; i-- { // names in descending order: any sort of the caller's slice shows
				td := gen.TypeDef{Name: fmt.Sprintf("t%03d", (i*7)%nTypes)}
				if i%3 == 0 {
					td.Rels = []gen.Relation{{Name: "viewer", Rw: &gen.Rewrite{Kind: gen.This}, Restr: []gen.Restriction{{Type: "user"}}}}
				}
				m.Types = append(m.Types, td)
			}
			seen := map[string]bool{}
			var uniq []gen.TypeDef
			for _, td := range m.Types {
				if !seen[td.Name] {
					seen[td.Name] = true
					uniq = append(uniq, td)
				}
			}
			m.Types = uniq
			js, _ := protojson.Marshal(m.Proto())
			docs = append(docs, c13Doc{Kind: "json", Text: string(js)})
		}
		{
			// a tupleset with 300 parent types in no particular order, used by a tuple-to-userset
			m := &gen.Model{Schema: "1.1", Types: []gen.TypeDef{{Name: "user"}}}
			doc := gen.TypeDef{Name: "doc"}
			parent := gen.Relation{Name: "parent", Rw: &gen.Rewrite{Kind: gen.This}}
			for i := 0; i < 300; i++ {
				n := fmt.Sprintf("f%03d", (i*7)%300)
				parent.Restr = append(parent.Restr, gen.Restriction{Type: n})
				m.Types = append(m.Types, gen.TypeDef{Name: n, Rels: []gen.Relation{{Name: "viewer", Rw: &gen.Rewrite{Kind: gen.This}, Restr: []gen.Restriction{{Type: "user"}}}}})
			}
			doc.Rels = []gen.Relation{parent, {Name: "viewer", Rw: &gen.Rewrite{Kind: gen.Union, Kids: []*gen.Rewrite{{Kind: gen.This}, {Kind: gen.TTU, Rel: "viewer", Tupleset: "parent"}}}, Restr: []gen.Restriction{{Type: "user"}}}}
			m.Types = append(m.Types, doc)
			js, _ := protojson.Marshal(m.Proto())
			docs = append(docs, c13Doc{Kind: "json", Text: string(js)})
		}
		docs = append(docs, c13Doc{Kind: "merge", Text: "\ufeffmodule core\ntype user\n", More: []string{"module wiki\ntype doc\n  relations\n    define v: [user]\n"}})
		for i, d := range docs {
			r1, pur := c13Eval(d)
			if pur != "" {
				rec.Violation(c13Input{Steps: []c13Step{{Op: "new", Doc: &docs[i]}}}, "boundary document: "+pur)
				t.Fatalf("boundary document #%d: %s", i, pur)
			}
			r2, _ := c13Eval(d)
			if msg := c13Compare(r1, r2); msg != "" {
				rec.Violation(c13Input{Steps: []c13Step{{Op: "new", Doc: &docs[i]}, {Op: "again", Idx: []int{0}}}}, "boundary document evaluated twice: "+msg)
				t.Fatalf("boundary document #%d evaluated twice: %s", i, msg)
			}
		}
		rec.Bulk(int64(len(docs)), int64(len(docs)), map[string]int64{"boundary:documents": int64(len(docs))})
	}
	// "calls independent of history", the shortest history there is: what a process does FIRST. State that is set up
	// lazily by whichever call comes first (a separator, a table, a pooled object) shows only in the second call of a
	// fresh process, and only when the first call was of a particular kind: a fresh child performs A then B, another
	// fresh child only B; B's results must agree. A and B are of the same kind (merge, DSL, JSON, manifest, strings).
	t.Run("first-call", rapid.MakeCheck(func(rt *rapid.T) {
		kind := rapid.SampledFrom([]string{"merge", "merge", "dsl", "json", "modfile", "strings"}).Draw(rt, "firstKind")
		draw := func(label string) c13Doc {
			switch kind {
			case "merge":
				ms := gen.Modules(rt, gen.ModOpts{MaxConflicts: 1, MaxFiles: 3, Layout: rapid.Bool().Draw(rt, label+"Layout")})
				d := c13Doc{Kind: "merge", Text: ms.Files[0].Text}
				for _, f := range ms.Files[1:] {
					d.More = append(d.More, f.Text)
				}
				if rapid.Bool().Draw(rt, label+"CRLF") {
					d.Text = strings.ReplaceAll(strings.ReplaceAll(d.Text, "\r\n", "\n"), "\n", "\r\n")
					for i := range d.More {
						d.More[i] = strings.ReplaceAll(strings.ReplaceAll(d.More[i], "\r\n", "\n"), "\n", "\r\n")
					}
				}
				return d
			case "dsl":
				all := append(append([]string{}, corp.DSL...), corp.Syntax...)
				if rapid.Bool().Draw(rt, label+"Generated") {
					m := gen.DSLModel(rt, gen.DSLOpts{Rich: true, Conditions: true, MaxTypes: 3, MaxRels: 3})
					return c13Doc{Kind: "dsl", Text: gen.Render(m, &rapidChooser{t: rt}, gen.RenderOpts{}).Text}
				}
				return c13Doc{Kind: "dsl", Text: rapid.SampledFrom(all).Draw(rt, label+"Doc")}
			case "json":
				if rapid.Bool().Draw(rt, label+"Corpus") {
					return c13Doc{Kind: "json", Text: rapid.SampledFrom(corp.JSON).Draw(rt, label+"Doc")}
				}
				js, _ := protojson.Marshal(c14Draw(rt).Model.Proto())
				return c13Doc{Kind: "json", Text: string(js)}
			case "modfile":
				return c13Doc{Kind: "modfile", Text: c15GenManifest(rt).Text}
			}
			return c13Doc{Kind: "strings", Text: c18GenString(rt), More: []string{c18GenString(rt), "document:1", "group:eng#member"}}
		}
		a, b := draw("a"), draw("b")
		msg, nt := c13FirstCall(a, b)
		rec.Case([]any{"first-call", a, b}, nt, nil, "first-call:"+kind)
		if msg != "" {
			rec.Violation(c13Input{Steps: []c13Step{{Op: "first-call-a", Doc: &a}, {Op: "first-call-b", Doc: &b}}}, msg)
			rt.Fatalf("%s", msg)
		}
	}))
	if t.Failed() {
		return
	}
	rapid.Check(t, func(rt *rapid.T) {
		mc := &c13Machine{}
		c13HoldReset(true)
		var steps []c13Step
		againFar, shared := false, false
		coldSteps := 0
		fail := func(msg string) {
			rec.Violation(c13Input{Steps: steps}, msg)
			rt.Fatalf("%s (history of %d steps)", msg, len(steps))
		}
		do := func(st c13Step) {
			steps = append(steps, st)
			if msg := mc.apply(st); msg != "" {
				fail(msg)
			}
		}
		// every history starts with a few inputs
		for i := 0; i < 3; i++ {
			d := c13DrawDoc(rt, corp)
			do(c13Step{Op: "new", Doc: &d})
		}
		rt.Repeat(map[string]func(*rapid.T){
			"new": func(rt *rapid.T) {
				d := c13DrawDoc(rt, corp)
				do(c13Step{Op: "new", Doc: &d})
			},
			"again": func(rt *rapid.T) {
				i := rapid.IntRange(0, len(mc.pool)-1).Draw(rt, "idx")
				if len(mc.pool)-i-1 >= 5 {
					againFar = true
				}
				do(c13Step{Op: "again", Idx: []int{i}})
			},
			"concurrent": func(rt *rapid.T) {
				n := rapid.IntRange(1, 4).Draw(rt, "batch")
				var idx []int
				for k := 0; k < n; k++ {
					idx = append(idx, rapid.IntRange(0, len(mc.pool)-1).Draw(rt, "idx"))
				}
				do(c13Step{Op: "concurrent", Idx: idx})
			},
			"new-concurrent": func(rt *rapid.T) {
				d := c13DrawDoc(rt, corp)
				for _, x := range mc.pool {
					if x.Kind == d.Kind && x.Text == d.Text {
						rt.Skip("already seen")
					}
				}
				do(c13Step{Op: "new-concurrent", Doc: &d})
			},
			"mutate": func(rt *rapid.T) {
				var cands []int
				for i, d := range mc.pool {
					if d.Kind == "dsl" || d.Kind == "json" {
						cands = append(cands, i)
					}
				}
				if len(cands) == 0 {
					rt.Skip("no model in the pool")
				}
				do(c13Step{Op: "mutate", Idx: []int{rapid.SampledFrom(cands).Draw(rt, "idx")}, Seed: rapid.IntRange(0, 5).Draw(rt, "victim")})
			},
			"cold": func(rt *rapid.T) {
				if coldSteps >= 2 {
					rt.Skip("cold budget of this history used")
				}
				coldSteps++
				do(c13Step{Op: "cold", Idx: []int{rapid.IntRange(0, len(mc.pool)-1).Draw(rt, "idx")}})
			},
			"shared": func(rt *rapid.T) {
				var cands []int
				for i, d := range mc.pool {
					if d.Kind == "dsl" || d.Kind == "json" {
						cands = append(cands, i)
					}
				}
				if len(cands) == 0 {
					rt.Skip("no model in the pool")
				}
				shared = true
				do(c13Step{Op: "shared", Idx: []int{rapid.SampledFrom(cands).Draw(rt, "idx")}})
			},
		})
		var cls []string
		if againFar {
			cls = append(cls, "history:reevaluation-after>=5-inputs")
		}
		if shared {
			cls = append(cls, "history:shared-model-step")
		}
		nt := againFar || shared
		var sample any
		if nt {
			ops := []string{}
			for _, s := range steps {
				if s.Doc != nil {
					ops = append(ops, s.Op+":"+s.Doc.Kind)
				} else {
					ops = append(ops, fmt.Sprintf("%s%v", s.Op, s.Idx))
				}
			}
			sample = map[string]any{"history": ops}
		}
		rec.Class("steps", int64(len(steps)))
		rec.Case(steps, nt, sample, cls...)
	})
}

// c13FirstCall: a fresh process that performs a, then b, and a fresh process that performs only b must agree on b.
func c13FirstCall(a, b c13Doc) (msg string, conclusive bool) {
	op := map[string]string{"dsl": "dsl", "json": "jsonall", "modfile": "modfile", "merge": "merge", "strings": "strings"}[b.Kind]
	opA := map[string]string{"dsl": "dsl", "json": "jsonall", "modfile": "modfile", "merge": "merge", "strings": "strings"}[a.Kind]
	if op == "" || opA == "" {
		return "", false
	}
	reqA, reqB := childReq{Op: opA, Text: a.Text, More: a.More}, childReq{Op: op, Text: b.Text, More: b.More}
	seq, _ := json.Marshal([]childReq{reqA, reqB})
	alone, ok1 := runChild(reqB, 90*time.Second)
	after, ok2 := runChild(childReq{Op: "after", Text: string(seq)}, 90*time.Second)
	if !(ok1 && ok2 && alone.Panic == "" && after.Panic == "") {
		return "", false // inconclusive (C08 owns panics and hangs)
	}
	if alone.Result != after.Result {
		return fmt.Sprintf("the first %s call of a fresh process changes the result of the second one: after the other call %.300q, as the first call of a process %.300q", b.Kind, after.Result, alone.Result), true
	}
	return "", true
}

func TestReplayC13(t *testing.T) {
	for _, f := range ev.ReplayFiles("C13") {
		var in c13Input
		if _, err := ev.LoadReplay(f, &in); err != nil {
			t.Fatalf("%s: %v", f, err)
		}
		rec := ev.New("C13", c13Rule)
		if len(in.Steps) == 2 && in.Steps[0].Op == "first-call-a" && in.Steps[0].Doc != nil && in.Steps[1].Doc != nil {
			if msg, _ := c13FirstCall(*in.Steps[0].Doc, *in.Steps[1].Doc); msg != "" {
				rec.Violation(in, msg)
				t.Errorf("%s: %s", f, msg)
			}
			continue
		}
		for rep := 0; rep < 3; rep++ {
			mc := &c13Machine{}
			c13HoldReset(true)
			for _, st := range in.Steps {
				if msg := mc.apply(st); msg != "" {
					rec.Violation(in, msg)
					t.Errorf("%s: %s", f, msg)
					return
				}
			}
		}
	}
}
