package checks

// C02 — JSON -> DSL succeeds exactly for DSL-expressible models and loses nothing.

import (
	"fmt"
	"strings"
	"testing"

	pkgerrors "github.com/openfga/language/pkg/go/errors"
	"github.com/openfga/language/pkg/go/transformer"
	"github.com/openfga/language/pkg/go/utils"
	"google.golang.org/protobuf/encoding/protojson"
	"pgregory.net/rapid"

	"verif/internal/ev"
	"verif/internal/gen"
	"verif/internal/ref"
)

type c02Input struct {
	Model *gen.Model `json:"model"`
	Text  string     `json:"text,omitempty"`
}

const c02Rule = "rapid-generated protobuf models of the json profile: arbitrary operator nesting to depth 3, 0-3 direct assignments anywhere, single-child unions/intersections, " +
	"restrictions on relations without a direct assignment, conditioned wildcards/usersets, conditions over all parameter types with CEL-token expressions (no '}', '#', '//'), " +
	"identifiers from every lexer shape, a fraction with module/file attribution; converted with TransformJSONProtoToDSL and, after protojson.Marshal, TransformJSONStringToDSL. " +
	"Oracle: an independent expressibility predicate decides success (iff), the error must name a relation that violates it, the produced DSL must parse to the " +
	"independently normalised input, utils.IsRelationAssignable must agree with the presence of '[' in the printed definition. Non-trivial = some relation is inexpressible, or " +
	"has a direct assignment that is not already first; distinct by model content. Bounded exhaustive part: every rewrite tree over the leaves {this, computed, tuple-to-userset} with " +
	"operator nesting depth <= 2 (unions/intersections of 1-2 operands, 1-3 at the innermost level, differences) as the definition of one relation."

func c02Check(in c02Input) string {
	m := in.Model
	pm := m.Proto()
	bad := map[string]bool{}
	for _, t := range m.Types {
		for _, r := range t.Rels {
			if !ref.Expressible(r.Rw) {
				bad[t.Name+"\x00"+r.Name] = true
			}
		}
	}
	js, err := protojson.Marshal(pm)
	if err != nil {
		return "" // cannot happen for generated models; not the library's business
	}
	dslA, errA := transformer.TransformJSONProtoToDSL(pm)
	dslBp, errB := transformer.TransformJSONStringToDSL(string(js))
	if (errA == nil) != (errB == nil) {
		return fmt.Sprintf("the proto API and the JSON string API disagree: %v vs %v", errA, errB)
	}
	// the statement quantifies over models, not over first calls: converting the same in-memory model again must give
	// the same answer (a printer that rearranges its argument answers differently the second time)
	if dslA2, errA2 := transformer.TransformJSONProtoToDSL(pm); (errA2 == nil) != (errA == nil) || dslA2 != dslA {
		return fmt.Sprintf("a second conversion of the same in-memory model gives a different answer: first (%v)\n%s\nsecond (%v)\n%s", errA, dslA, errA2, dslA2)
	}
	if len(bad) > 0 {
		if errA == nil {
			return fmt.Sprintf("conversion succeeded although %d relation(s) are not DSL-expressible; produced:\n%s", len(bad), dslA)
		}
		// the expected error is built with the library's own constructor for each violating relation, so that a
		// reworded message is not mistaken for a different error
		for _, e := range []error{errA, errB} {
			ok := false
			for k := range bad {
				tr := strings.SplitN(k, "\x00", 2)
				if e.Error() == pkgerrors.UnsupportedDSLNestingError(tr[0], tr[1]).Error() {
					ok = true
				}
			}
			if ok {
				continue
			}
			for _, td := range m.Types {
				for _, r := range td.Rels {
					if e.Error() == pkgerrors.UnsupportedDSLNestingError(td.Name, r.Name).Error() {
						return fmt.Sprintf("unsupported-nesting error blames %s#%s, which is expressible", td.Name, r.Name)
					}
				}
			}
			return "inexpressible model rejected with an error that is not the unsupported-nesting error: " + describe(e)
		}
		if dslA != "" || dslBp != nil {
			return "DSL text returned together with an error"
		}
		return ""
	}
	if errA != nil {
		return "conversion of a DSL-expressible model failed: " + describe(errA)
	}
	if dslBp == nil || *dslBp != dslA {
		return "the proto API and the JSON string API produce different DSL"
	}
	back, err := transformer.TransformDSLToProto(dslA)
	if err != nil {
		return fmt.Sprintf("the produced DSL does not parse: %s\n%s", describe(err), dslA)
	}
	want := ref.NormaliseForDSL(m)
	modular := false
	for _, t := range m.Types {
		if t.Module != "" {
			modular = true
		}
	}
	if d := gen.Diff(want, gen.FromProto(back), gen.DiffOpts{TypesAsSet: modular}); d != "" {
		return fmt.Sprintf("parse(print(model)) differs from the normalised input (expected vs parsed): %s\n%s", d, dslA)
	}
	// IsRelationAssignable <=> '[' in the printed definition
	lines := strings.Split(dslA, "\n")
	curType := ""
	printed := map[string]string{}
	for _, l := range lines {
		if strings.HasPrefix(l, "type ") {
			curType = strings.TrimPrefix(l, "type ")
		}
		if strings.HasPrefix(l, "    define ") {
			rest := strings.TrimPrefix(l, "    define ")
			if i := strings.Index(rest, ": "); i > 0 {
				printed[curType+"\x00"+rest[:i]] = rest[i+2:]
			}
		}
	}
	for _, td := range pm.GetTypeDefinitions() {
		for name, us := range td.GetRelations() {
			def, ok := printed[td.GetType()+"\x00"+name]
			if !ok {
				return fmt.Sprintf("relation %s#%s is missing from the printed DSL", td.GetType(), name)
			}
			if utils.IsRelationAssignable(us) != strings.Contains(def, "[") {
				return fmt.Sprintf("IsRelationAssignable(%s#%s)=%v but the printed definition is %q", td.GetType(), name, utils.IsRelationAssignable(us), def)
			}
		}
	}
	return ""
}

func c02Draw(rt *rapid.T) *gen.Model {
	m := gen.DSLModel(rt, gen.DSLOpts{Rich: true, JSONOnly: true, RestrNoThis: true, Conditions: true, MultiLine: true, MaxTypes: 3, MaxRels: 3, Scale: true})
	// bias towards expressible models: with p=0.5 repair relations to at most one `this` by
	// turning surplus direct assignments into computed usersets
	if rapid.Bool().Draw(rt, "repair") {
		for ti := range m.Types {
			for ri := range m.Types[ti].Rels {
				seen := 0
				m.Types[ti].Rels[ri].Rw.Walk(func(x *gen.Rewrite, _ int) {
					if x.Kind == gen.This {
						seen++
						if seen > 1 {
							x.Kind, x.Rel = gen.Computed, "extra"
						}
					}
				})
			}
		}
	}
	if rapid.IntRange(0, 3).Draw(rt, "modular") == 0 {
		for ti := range m.Types {
			if rapid.IntRange(0, 3).Draw(rt, "tmod") > 0 {
				m.Types[ti].Module = rapid.SampledFrom([]string{"m1", "m2", "core"}).Draw(rt, "tmodn")
				m.Types[ti].File = rapid.SampledFrom([]string{"a.fga", "b.fga", "dir/c.fga"}).Draw(rt, "tfile")
			}
			for ri := range m.Types[ti].Rels {
				if m.Types[ti].Module != "" && rapid.IntRange(0, 3).Draw(rt, "rmod") == 0 {
					m.Types[ti].Rels[ri].Module = rapid.SampledFrom([]string{"m1", "m2", "ext"}).Draw(rt, "rmodn")
					m.Types[ti].Rels[ri].File = rapid.SampledFrom([]string{"a.fga", "x/ext.fga"}).Draw(rt, "rfile")
				}
			}
		}
		for ci := range m.Conds {
			if rapid.Bool().Draw(rt, "cmod") {
				m.Conds[ci].Module, m.Conds[ci].File = "m1", "a.fga"
			}
		}
	}
	return m
}

// c02Trees enumerates every rewrite tree over the leaves {this, computed a, b from p} with operator nesting depth
// <= 2, unions/intersections of 1 or 2 operands (1..3 at the innermost level) and differences: 24 000-odd trees.
func c02Trees() []*gen.Rewrite {
	leaves := []*gen.Rewrite{{Kind: gen.This}, {Kind: gen.Computed, Rel: "a"}, {Kind: gen.TTU, Rel: "b", Tupleset: "p"}}
	level := func(kids []*gen.Rewrite, maxArity int) []*gen.Rewrite {
		var out []*gen.Rewrite
		for _, k := range []string{gen.Union, gen.Intersection} {
			for _, x := range kids {
				out = append(out, &gen.Rewrite{Kind: k, Kids: []*gen.Rewrite{x}})
				for _, y := range kids {
					out = append(out, &gen.Rewrite{Kind: k, Kids: []*gen.Rewrite{x, y}})
					if maxArity >= 3 {
						for _, z := range kids {
							out = append(out, &gen.Rewrite{Kind: k, Kids: []*gen.Rewrite{x, y, z}})
						}
					}
				}
			}
		}
		for _, x := range kids {
			for _, y := range kids {
				out = append(out, &gen.Rewrite{Kind: gen.Difference, Kids: []*gen.Rewrite{x, y}})
			}
		}
		return out
	}
	d1 := level(leaves, 3)
	all := append(append([]*gen.Rewrite{}, leaves...), d1...)
	return append(all, level(all, 2)...)
}

func TestC02(t *testing.T) {
	rec := ev.New("C02", c02Rule)
	defer func() {
		if !rec.Flush() {
			t.Fail()
		}
	}()
	rec.Assume("domain restrictions from the property: names are DSL identifiers, every relation with a direct assignment has >= 1 restriction, every condition >= 1 parameter, " +
		"expressions carry no '}', '#', '//' and no surrounding whitespace")
	rec.Require("verdict:inexpressible", 0.15)
	rec.Require("verdict:expressible", 0.30)
	rec.Require("shape:this-not-first", 0.05)
	rec.Require("shape:single-child-operator", 0.05)
	// boundary models (fixed, legal, at the edges of the input space)
	if ev.Shard()%4 == 0 {
		for _, b := range gen.BoundaryModels() {
			rec.Case("boundary: "+b.Name, true, nil, "origin:boundary")
			if msg := c02Check(c02Input{Model: b.Model}); msg != "" {
				rec.Violation(c02Input{Text: "boundary model: " + b.Name}, "boundary model ("+b.Name+"): "+msg)
				t.Fatalf("boundary model %s: %.2000s", b.Name, msg)
			}
		}
	}
	// bounded exhaustive part: every tree of c02Trees as the definition of one relation (shared over the shards)
	{
		trees := c02Trees()
		var n, inexpr int64
		for i := ev.Shard(); i < len(trees); i += ev.Shards() {
			m := &gen.Model{Schema: "1.1", Types: []gen.TypeDef{{Name: "user"}, {Name: "doc", Rels: []gen.Relation{
				{Name: "p", Rw: &gen.Rewrite{Kind: gen.This}, Restr: []gen.Restriction{{Type: "doc"}}},
				{Name: "x", Rw: trees[i].Clone(), Restr: []gen.Restriction{{Type: "user"}, {Type: "user", Wild: true, Cond: "c"}, {Type: "doc", Rel: "p"}}},
			}}}, Conds: []gen.Condition{{Name: "c", Params: []gen.Param{{Name: "v", Type: "int"}}, Expr: "v > 1"}}}
			n++
			if !ref.Expressible(trees[i]) {
				inexpr++
			}
			in := c02Input{Model: m}
			if msg := c02Check(in); msg != "" {
				in.Text = m.String()
				rec.Violation(in, msg)
				t.Fatalf("enumerated tree #%d %s: %s", i, trees[i], msg)
			}
		}
		rec.Bulk(n, n, map[string]int64{"enum:trees": n, "enum:inexpressible": inexpr})
		rec.Note("enumerated %d of %d rewrite trees (depth <= 2 over 3 leaves; %d of them inexpressible) in this process", n, len(trees), inexpr)
	}
	rapid.Check(t, func(rt *rapid.T) {
		noiseCall(rt) // one case in three is preceded by an unrelated, mostly failing call (see noise_test.go)
		m := c02Draw(rt)
		in := c02Input{Model: m}
		var cls []string
		inexpr, notFirst, single, restrNoThis := false, false, false, false
		for _, td := range m.Types {
			for _, r := range td.Rels {
				if !ref.Expressible(r.Rw) {
					inexpr = true
				}
				if r.Rw.CountThis() == 1 && ref.NormaliseRewrite(r.Rw).String() != r.Rw.String() {
					notFirst = true
				}
				r.Rw.Walk(func(x *gen.Rewrite, _ int) {
					if (x.Kind == gen.Union || x.Kind == gen.Intersection) && len(x.Kids) == 1 {
						single = true
					}
				})
				if r.Rw.CountThis() == 0 && len(r.Restr) > 0 {
					restrNoThis = true
				}
			}
		}
		if inexpr {
			cls = append(cls, "verdict:inexpressible")
		} else {
			cls = append(cls, "verdict:expressible")
		}
		if notFirst {
			cls = append(cls, "shape:this-not-first")
		}
		if single {
			cls = append(cls, "shape:single-child-operator")
		}
		if restrNoThis {
			cls = append(cls, "shape:restrictions-without-this")
		}
		cls = append(cls, modelClasses(m)...)
		nt := inexpr || notFirst
		var sample any
		if nt {
			sample = map[string]any{"model": m.String(), "expressible": !inexpr}
		}
		rec.Case(m, nt, sample, cls...)
		if msg := c02Check(in); msg != "" {
			in.Text = m.String()
			rec.Violation(in, msg)
			rt.Fatalf("%s\n%s", msg, m.String())
		}
	})
}

func TestReplayC02(t *testing.T) {
	for _, f := range ev.ReplayFiles("C02") {
		var in c02Input
		if _, err := ev.LoadReplay(f, &in); err != nil {
			t.Fatalf("%s: %v", f, err)
		}
		rec := ev.New("C02", c02Rule)
		if in.Model == nil && strings.HasPrefix(in.Text, "boundary model: ") {
			for _, b := range gen.BoundaryModels() {
				if "boundary model: "+b.Name == in.Text {
					in.Model = b.Model
				}
			}
		}
		if in.Model == nil {
			t.Fatalf("%s: no model", f)
		}
		if msg := c02Check(in); msg != "" {
			rec.Violation(c02Input{Text: in.Text}, msg)
			t.Errorf("%s: %.2000s", f, msg)
		}
	}
}
