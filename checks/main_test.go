package checks

import (
	"bytes"
	"encoding/json"
	"fmt"
	parser "github.com/openfga/language/pkg/go/gen"
	"github.com/openfga/language/pkg/go/validation"
	"io"
	"os"
	"os/exec"
	"runtime"
	"strings"
	"syscall"
	"testing"
	"time"

	"github.com/openfga/language/pkg/go/graph"
	"github.com/openfga/language/pkg/go/transformer"

	"verif/internal/ev"
	"verif/internal/g4"
)

// Child mode: the test binary re-executes itself with VERIF_CHILD set, reads one request on stdin,
// performs it FIRST THING in a fresh process (cold ANTLR prediction caches) and prints one JSON
// line. Used by C13 (cold vs warm results) and C08 (work scaling measured in allocations).

type childReq struct {
	Op   string   `json:"op"` // dsl | modular | json | modfile | merge
	Text string   `json:"text"`
	More []string `json:"more,omitempty"`
}

type childResp struct {
	CPUNanos   int64  `json:"cpu_nanos"` // user+system CPU time of the operation (getrusage)
	CPUKilled  bool   `json:"cpu_killed,omitempty"`
	Result     string `json:"result"`
	Mallocs    uint64 `json:"mallocs"`
	TotalAlloc uint64 `json:"total_alloc"`
	Panic      string `json:"panic,omitempty"`
	NanosWall  int64  `json:"nanos_wall"`
}

const childCPULimitSeconds = 40

func TestMain(m *testing.M) {
	if os.Getenv("VERIF_CHILD") != "" {
		childMain()
		return
	}
	// the harness's own lexing (self-checks, derivability oracle) uses the lexer pinned with the grammar as long as
	// OpenFGALexer.g4 is unchanged, see g4.LexTypes
	g4.UsePinnedLexerFor(ev.Repo())
	os.Exit(m.Run())
}

func childMain() {
	in, _ := io.ReadAll(os.Stdin)
	var req childReq
	if err := json.Unmarshal(in, &req); err != nil {
		fmt.Println(`{"panic":"bad request"}`)
		os.Exit(0)
	}
	var resp childResp
	// CPU budget enforced by the kernel: load on the machine cannot turn a slow run into a "hang"
	_ = syscall.Setrlimit(syscall.RLIMIT_CPU, &syscall.Rlimit{Cur: childCPULimitSeconds, Max: childCPULimitSeconds + 5})
	cpu := func() int64 {
		var ru syscall.Rusage
		_ = syscall.Getrusage(syscall.RUSAGE_SELF, &ru)
		return ru.Utime.Nano() + ru.Stime.Nano()
	}
	func() {
		defer func() {
			if r := recover(); r != nil {
				resp.Panic = fmt.Sprint(r)
			}
		}()
		var before, after runtime.MemStats
		runtime.ReadMemStats(&before)
		t0 := time.Now()
		c0 := cpu()
		resp.Result = runOp(req.Op, req.Text, req.More)
		resp.CPUNanos = cpu() - c0
		resp.NanosWall = time.Since(t0).Nanoseconds()
		runtime.ReadMemStats(&after)
		resp.Mallocs = after.Mallocs - before.Mallocs
		resp.TotalAlloc = after.TotalAlloc - before.TotalAlloc
	}()
	b, _ := json.Marshal(resp)
	fmt.Println(string(b))
	os.Exit(0)
}

// runOp performs one library call and returns a deterministic fingerprint of its outcome.
func runOp(op, text string, more []string) string {
	switch op {
	case "dsl":
		m, err := transformer.TransformDSLToProto(text)
		if err != nil {
			c13Hold("the error returned by TransformDSLToProto", func() string { return err.Error() })
			return "ERR:" + err.Error()
		}
		c13Hold("the model returned by TransformDSLToProto", func() string { return fingerprint(m) })
		return "OK:" + fingerprint(m)
	case "modular":
		m, ext, err := transformer.TransformModularDSLToProto(text)
		if err != nil {
			return "ERR:" + err.Error()
		}
		c13Hold("the model returned by TransformModularDSLToProto", func() string { return fingerprint(m) })
		return fmt.Sprintf("OK:%s ext=%v", fingerprint(m), sortedKeys(ext))
	case "json":
		d, err := transformer.TransformJSONStringToDSL(text)
		if err != nil {
			return "ERR:" + err.Error()
		}
		return "OK:" + *d
	case "dslgraph":
		// parse, then both graph builders (work-scaling families)
		m, err := transformer.TransformDSLToProto(text)
		if err != nil {
			return "ERR:" + err.Error()
		}
		out := "OK"
		if g, err := graph.NewAuthorizationModelGraph(m); err == nil {
			out += fmt.Sprint(len(g.GetDOT()))
			if r, err := g.Reversed(); err == nil {
				out += fmt.Sprint(len(r.GetDOT()))
			}
		}
		if wg, err := graph.NewWeightedAuthorizationModelGraphBuilder().Build(m); err == nil {
			out += fmt.Sprint(len(wg.GetNodes()))
		} else {
			out += "ERR"
		}
		if d, err := transformer.TransformJSONProtoToDSL(m); err == nil {
			out += fmt.Sprint(len(d))
		}
		return out
	case "jsonall":
		// JSON model -> DSL, plain graph DOT, weighted graph dump
		out := runOp("json", text, nil)
		m, err := transformer.LoadJSONStringToProto(text)
		if err != nil {
			return out + "|LOAD-ERR"
		}
		r := c13ModelOps(m, nil)
		for _, k := range sortedKeys(r.res) {
			out += "|" + k + "=" + r.res[k]
		}
		return out
	case "after":
		// text: JSON list of requests; all are performed in order, the fingerprint of the LAST one is returned
		var reqs []childReq
		if err := json.Unmarshal([]byte(text), &reqs); err != nil || len(reqs) == 0 {
			return "bad request list"
		}
		out := ""
		for _, r := range reqs {
			out = func() (res string) {
				defer func() {
					if x := recover(); x != nil {
						res = fmt.Sprint("PANIC:", x)
					}
				}()
				return runOp(r.Op, r.Text, r.More)
			}()
		}
		return out
	case "strings":
		var b strings.Builder
		for _, s := range append([]string{text}, more...) {
			fmt.Fprintf(&b, "%v%v%v%v%v%v%v%v%v|", validation.ValidateObject(s), validation.ValidateUser(s), validation.ValidateUserSet(s), validation.ValidateUserObject(s),
				validation.ValidateUserWildcard(s), validation.ValidateType(s), validation.ValidateRelation(s), validation.ValidateObjectID(s), validation.ValidateRelationshipCondition(s))
		}
		return b.String()
	case "vocab":
		// the vocabularies the generated Go package reports at run time; text says which half is initialised first
		var pr *parser.OpenFGAParser
		var lx *parser.OpenFGALexer
		if text == "parser-first" {
			pr = parser.NewOpenFGAParser(nil)
			lx = parser.NewOpenFGALexer(nil)
		} else {
			lx = parser.NewOpenFGALexer(nil)
			pr = parser.NewOpenFGAParser(nil)
		}
		b, _ := json.Marshal(map[string][]string{"parser.rules": pr.RuleNames, "parser.literal": pr.LiteralNames, "parser.symbolic": pr.SymbolicNames,
			"lexer.rules": lx.RuleNames, "lexer.literal": lx.LiteralNames, "lexer.symbolic": lx.SymbolicNames})
		return string(b)
	case "modfile":
		mf, err := transformer.TransformModFile(text)
		if err != nil {
			return "ERR:" + err.Error()
		}
		b, _ := json.Marshal(mf)
		return "OK:" + string(b)
	case "merge":
		files := []transformer.ModuleFile{{Name: "f0.fga", Contents: text}}
		for i, t := range more {
			files = append(files, transformer.ModuleFile{Name: fmt.Sprintf("f%d.fga", i+1), Contents: t})
		}
		m, err := transformer.TransformModuleFilesToModel(files, "1.2")
		if err != nil {
			c13Hold("the error returned by TransformModuleFilesToModel", func() string { return mergeErrText(err) })
			return "ERR:" + mergeErrText(err)
		}
		c13Hold("the model returned by TransformModuleFilesToModel", func() string { return fingerprint(m) })
		return "OK:" + fingerprint(m)
	}
	return "unknown op"
}

// runChild executes one request in a fresh process. ok=false when the child could not be run or
// exceeded the timeout (inconclusive, never a verdict).
func runChild(req childReq, timeout time.Duration) (childResp, bool) {
	exe, err := os.Executable()
	if err != nil {
		return childResp{}, false
	}
	if ce := os.Getenv("VERIF_CHILD_EXE"); ce != "" {
		if _, err := os.Stat(ce); err == nil {
			exe = ce
		}
	}
	b, _ := json.Marshal(req)
	cmd := exec.Command(exe)
	cmd.Env = append(os.Environ(), "VERIF_CHILD=1", "GOMAXPROCS=2")
	cmd.Stdin = bytes.NewReader(b)
	var out bytes.Buffer
	cmd.Stdout = &out
	if err := cmd.Start(); err != nil {
		return childResp{}, false
	}
	done := make(chan error, 1)
	go func() { done <- cmd.Wait() }()
	select {
	case err := <-done:
		if ee, ok := err.(*exec.ExitError); ok {
			if ws, ok := ee.Sys().(syscall.WaitStatus); ok && ws.Signaled() && (ws.Signal() == syscall.SIGXCPU || ws.Signal() == syscall.SIGKILL) {
				return childResp{CPUKilled: true}, true
			}
		}
	case <-time.After(timeout):
		_ = cmd.Process.Kill()
		<-done
		return childResp{}, false
	}
	var resp childResp
	lines := bytes.Split(bytes.TrimSpace(out.Bytes()), []byte("\n"))
	if len(lines) == 0 || json.Unmarshal(lines[len(lines)-1], &resp) != nil {
		return childResp{}, false
	}
	return resp, true
}
