//go:build verif

package checks

import (
	openfgav1 "github.com/openfga/api/proto/openfga/v1"
	"github.com/openfga/language/pkg/go/graph"
	"github.com/openfga/language/pkg/go/transformer"
)

const wgHooks = true

func wgBuildUnweighted(pm *openfgav1.AuthorizationModel) (*graph.WeightedAuthorizationModelGraph, error) {
	return graph.NewWeightedAuthorizationModelGraphBuilder().VerifBuildUnweighted(pm)
}

func wgAssignInOrder(wg *graph.WeightedAuthorizationModelGraph, order []string) error {
	return wg.VerifAssignWeightsInOrder(order)
}

// syntaxPositionsHook reads the positions of DSL syntax errors through the verif accessor.
func syntaxPositionsHook(err error) ([]errPos, bool) {
	type wrapped interface{ WrappedErrors() []error }
	var list []error
	if w, ok := err.(wrapped); ok {
		list = w.WrappedErrors()
	} else {
		list = []error{err}
	}
	var out []errPos
	all := true
	for _, e := range list {
		if se, ok := e.(*transformer.OpenFgaDslSyntaxError); ok {
			l, c := se.VerifPosition()
			out = append(out, errPos{l, c})
		} else {
			all = false
		}
	}
	return out, all && len(out) > 0
}
