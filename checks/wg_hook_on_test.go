//go:build verif

package checks

import (
	openfgav1 "github.com/openfga/api/proto/openfga/v1"
	"github.com/openfga/language/pkg/go/graph"
)

const wgHooks = true

func wgBuildUnweighted(pm *openfgav1.AuthorizationModel) (*graph.WeightedAuthorizationModelGraph, error) {
	return graph.NewWeightedAuthorizationModelGraphBuilder().VerifBuildUnweighted(pm)
}

func wgAssignInOrder(wg *graph.WeightedAuthorizationModelGraph, order []string) error {
	return wg.VerifAssignWeightsInOrder(order)
}
