#!/bin/bash
# Driver entry: ./run.sh setup | ./run.sh <Cxx> quick|thorough | ./run.sh replay <Cxx> <file>
# Everything is rebuilt from /repo's working tree (go build cache is content addressed).
set -u
cd "$(dirname "$0")"
export GOFLAGS=-mod=mod GOPROXY=off GOSUMDB=off GOTOOLCHAIN=local VERIF_ROOT="$PWD"
mkdir -p bin evidence replays
VRUN="bin/vrun.$$"
if ! go build -o "$VRUN" ./cmd/vrun 2>bin/vrun.build.$$.log; then
  cat bin/vrun.build.$$.log; rm -f bin/vrun.build.$$.log
  echo "INCONCLUSIVE reason=driver-build"; exit 2
fi
rm -f bin/vrun.build.$$.log
trap 'rm -f "$VRUN"' EXIT
case "${1:-}" in
  setup)  "$VRUN" setup ;;
  replay) "$VRUN" replay "$2" "$3" ;;
  C*)     "$VRUN" check "$1" "${2:-quick}" ;;
  *) echo "usage: $0 setup | <Cxx> quick|thorough | replay <Cxx> <file>"; exit 2 ;;
esac
