// Package g4 reads the repository's ANTLR grammar files and offers (a) a token-level recogniser for
// the parser grammar (memoised top-down matching with sets of end positions; the grammar has no
// left recursion), (b) a random sentence generator with derivation trees, (c) the vocabularies
// declared in the .g4 files. It is deliberately independent of the generated parsers.
package g4

import (
	"fmt"
	"regexp"
	"sort"
	"strings"
)

type Node struct {
	Kind string // seq alt tok rule opt star plus not any
	Name string
	Kids []*Node
	min  int // minimal derivation depth (for the generator)
}

type Grammar struct {
	Rules map[string]*Node
	Order []string // rule names in declaration order
}

var tokRe = regexp.MustCompile(`//[^\n]*|/\*[\s\S]*?\*/|[A-Za-z_][A-Za-z_0-9]*|'(?:[^'\\]|\\.)*'|->|\.\.|[:;|()?*+~=.{}\[\],]|\S`)

type lexer struct {
	toks []string
	i    int
}

func tokenize(src string) []string {
	var toks []string
	for _, t := range tokRe.FindAllString(src, -1) {
		if strings.HasPrefix(t, "//") || strings.HasPrefix(t, "/*") {
			continue
		}
		toks = append(toks, t)
	}
	return toks
}

func (l *lexer) peek() string {
	if l.i < len(l.toks) {
		return l.toks[l.i]
	}
	return ""
}

// ParseParserGrammar parses an ANTLR4 parser grammar (the subset used by OpenFGAParser.g4: rules,
// alternatives, groups, ? * +, labels, token and rule references, ~X, '.').
func ParseParserGrammar(src string) (g *Grammar, err error) {
	defer func() {
		if r := recover(); r != nil {
			err = fmt.Errorf("g4: %v", r)
		}
	}()
	l := &lexer{toks: tokenize(src)}
	for l.peek() != ";" {
		l.i++
	}
	l.i++
	if l.peek() == "options" {
		for l.peek() != "}" {
			l.i++
		}
		l.i++
	}
	g = &Grammar{Rules: map[string]*Node{}}
	for l.i < len(l.toks) {
		name := l.toks[l.i]
		l.i++
		if l.peek() != ":" {
			panic("expected ':' after rule " + name + ", got " + l.peek())
		}
		l.i++
		g.Rules[name] = l.alt()
		g.Order = append(g.Order, name)
		if l.peek() != ";" {
			panic("expected ';' in rule " + name + ", got " + l.peek())
		}
		l.i++
	}
	g.computeMin()
	return g, nil
}

func (l *lexer) alt() *Node {
	n := &Node{Kind: "alt"}
	n.Kids = append(n.Kids, l.seq())
	for l.peek() == "|" {
		l.i++
		n.Kids = append(n.Kids, l.seq())
	}
	if len(n.Kids) == 1 {
		return n.Kids[0]
	}
	return n
}

func (l *lexer) seq() *Node {
	n := &Node{Kind: "seq"}
	for {
		t := l.peek()
		if t == "|" || t == ")" || t == ";" || t == "" {
			break
		}
		n.Kids = append(n.Kids, l.elem())
	}
	return n
}

func (l *lexer) elem() *Node {
	t := l.peek()
	var n *Node
	if l.i+1 < len(l.toks) && l.toks[l.i+1] == "=" {
		l.i += 2
		t = l.peek()
	}
	switch {
	case t == "(":
		l.i++
		n = l.alt()
		if l.peek() != ")" {
			panic("expected ')'")
		}
		l.i++
	case t == "~":
		l.i++
		inner := l.elem()
		n = &Node{Kind: "not", Kids: []*Node{inner}}
	case t == ".":
		l.i++
		n = &Node{Kind: "any"}
	case t[0] >= 'A' && t[0] <= 'Z':
		n = &Node{Kind: "tok", Name: t}
		l.i++
	case (t[0] >= 'a' && t[0] <= 'z') || t[0] == '_':
		n = &Node{Kind: "rule", Name: t}
		l.i++
	default:
		panic("unexpected token " + t)
	}
	for l.i < len(l.toks) {
		switch l.peek() {
		case "?":
			n = &Node{Kind: "opt", Kids: []*Node{n}}
		case "*":
			n = &Node{Kind: "star", Kids: []*Node{n}}
		case "+":
			n = &Node{Kind: "plus", Kids: []*Node{n}}
		default:
			return n
		}
		l.i++
	}
	return n
}

// Tokens returns every token name referenced by the parser grammar.
func (g *Grammar) Tokens() []string {
	set := map[string]bool{}
	var walk func(*Node)
	walk = func(n *Node) {
		if n.Kind == "tok" {
			set[n.Name] = true
		}
		for _, k := range n.Kids {
			walk(k)
		}
	}
	for _, r := range g.Rules {
		walk(r)
	}
	var out []string
	for k := range set {
		out = append(out, k)
	}
	sort.Strings(out)
	return out
}

func collectToks(n *Node, out map[string]bool) {
	if n.Kind == "tok" {
		out[n.Name] = true
	}
	for _, k := range n.Kids {
		collectToks(k, out)
	}
}

// ---------------------------------------------------------------------------------------------
// recogniser

type bits []uint64

func (b bits) set(i int)      { b[i>>6] |= 1 << (uint(i) & 63) }
func (b bits) has(i int) bool { return b[i>>6]&(1<<(uint(i)&63)) != 0 }
func (b bits) or(o bits) {
	for i := range o {
		b[i] |= o[i]
	}
}
func (b bits) empty() bool {
	for _, w := range b {
		if w != 0 {
			return false
		}
	}
	return true
}
func (b bits) each(f func(int)) {
	for wi, w := range b {
		for w != 0 {
			t := w & -w
			i := wi*64 + trailingZeros(w)
			f(i)
			w ^= t
		}
	}
}

func trailingZeros(w uint64) int {
	n := 0
	for w&1 == 0 {
		w >>= 1
		n++
	}
	return n
}

type recog struct {
	g     *Grammar
	toks  []string
	words int
	memo  map[string][]bits // rule -> per position result (nil = not computed)
	busy  map[string][]bool
	sets  map[*Node]map[string]bool // token-set cache for alternatives made only of tokens
}

func (r *recog) newBits() bits { return make(bits, r.words) }

// tokenSet: for an alt whose every alternative is a single token / ~X / '.', the set of accepted
// token names (nil if n is not of that shape). "*" in the set means "any token but EOF except
// those listed under !name".
func (r *recog) tokenSet(n *Node) map[string]bool {
	if s, ok := r.sets[n]; ok {
		return s
	}
	var s map[string]bool
	if n.Kind == "alt" {
		s = map[string]bool{}
		for _, k := range n.Kids {
			kk := k
			for kk.Kind == "seq" && len(kk.Kids) == 1 {
				kk = kk.Kids[0]
			}
			if kk.Kind == "alt" {
				if sub := r.tokenSet(kk); sub != nil {
					for x := range sub {
						s[x] = true
					}
					continue
				}
			}
			switch kk.Kind {
			case "tok":
				s[kk.Name] = true
			case "any":
				s["*"] = true
			case "not":
				ex := map[string]bool{}
				collectToks(kk.Kids[0], ex)
				s["*"] = true
				for x := range ex {
					s["!"+x] = true
				}
			default:
				s = nil
			}
			if s == nil {
				break
			}
		}
	}
	r.sets[n] = s
	return s
}

func (r *recog) match(n *Node, pos int) bits {
	out := r.newBits()
	switch n.Kind {
	case "tok":
		if pos < len(r.toks) && r.toks[pos] == n.Name {
			out.set(pos + 1)
		}
	case "any":
		if pos < len(r.toks) && r.toks[pos] != "EOF" {
			out.set(pos + 1)
		}
	case "not":
		ex := map[string]bool{}
		collectToks(n.Kids[0], ex)
		if pos < len(r.toks) && !ex[r.toks[pos]] && r.toks[pos] != "EOF" {
			out.set(pos + 1)
		}
	case "rule":
		m := r.memo[n.Name]
		if m == nil {
			m = make([]bits, len(r.toks)+2)
			r.memo[n.Name] = m
			r.busy[n.Name] = make([]bool, len(r.toks)+2)
		}
		if m[pos] != nil {
			return m[pos]
		}
		if r.busy[n.Name][pos] {
			return out
		}
		rule, ok := r.g.Rules[n.Name]
		if !ok {
			return out
		}
		r.busy[n.Name][pos] = true
		res := r.match(rule, pos)
		r.busy[n.Name][pos] = false
		m[pos] = res
		return res
	case "seq":
		cur := r.newBits()
		cur.set(pos)
		for _, k := range n.Kids {
			next := r.newBits()
			cur.each(func(p int) { next.or(r.match(k, p)) })
			cur = next
			if cur.empty() {
				break
			}
		}
		return cur
	case "alt":
		if s := r.tokenSet(n); s != nil {
			if pos < len(r.toks) {
				t := r.toks[pos]
				if s[t] || (s["*"] && t != "EOF" && !s["!"+t]) {
					out.set(pos + 1)
				}
			}
			return out
		}
		for _, k := range n.Kids {
			out.or(r.match(k, pos))
		}
	case "opt":
		out.set(pos)
		out.or(r.match(n.Kids[0], pos))
	case "star", "plus":
		seen := r.newBits()
		frontier := r.newBits()
		frontier.set(pos)
		if n.Kind == "star" {
			out.set(pos)
		}
		for !frontier.empty() {
			next := r.newBits()
			frontier.each(func(p int) {
				r.match(n.Kids[0], p).each(func(e int) {
					if e > p && !seen.has(e) {
						seen.set(e)
						next.set(e)
						out.set(e)
					}
				})
			})
			frontier = next
		}
	}
	return out
}

// Derives reports whether the token-type sequence (symbolic names, last one "EOF") is a sentence
// of rule start.
func (g *Grammar) Derives(start string, toks []string) bool {
	r := &recog{g: g, toks: toks, words: (len(toks)+2)/64 + 1, memo: map[string][]bits{}, busy: map[string][]bool{}, sets: map[*Node]map[string]bool{}}
	return r.match(&Node{Kind: "rule", Name: start}, 0).has(len(toks))
}

// ---------------------------------------------------------------------------------------------
// sentence generator

type Tree struct {
	Rule string  // rule name, or "" for a token leaf
	Tok  string  // token symbolic name (leaf)
	Kids []*Tree // children in order
}

func (g *Grammar) computeMin() {
	const inf = 1 << 20
	var nodes []*Node
	var walk func(*Node)
	walk = func(n *Node) {
		n.min = inf
		nodes = append(nodes, n)
		for _, k := range n.Kids {
			walk(k)
		}
	}
	for _, r := range g.Rules {
		walk(r)
	}
	ruleMin := map[string]int{}
	for name := range g.Rules {
		ruleMin[name] = inf
	}
	for changed := true; changed; {
		changed = false
		var eval func(*Node) int
		eval = func(n *Node) int {
			v := inf
			switch n.Kind {
			case "tok", "not", "any":
				v = 0
			case "rule":
				if m, ok := ruleMin[n.Name]; ok && m < inf {
					v = m + 1
				}
			case "seq":
				v = 0
				for _, k := range n.Kids {
					if e := eval(k); e > v {
						v = e
					}
				}
			case "alt":
				for _, k := range n.Kids {
					if e := eval(k); e < v {
						v = e
					}
				}
			case "opt", "star":
				eval(n.Kids[0])
				v = 0
			case "plus":
				v = eval(n.Kids[0])
			}
			if v < n.min {
				n.min = v
				changed = true
			}
			return n.min
		}
		for name, r := range g.Rules {
			if v := eval(r); v < ruleMin[name] {
				ruleMin[name] = v
				changed = true
			}
		}
	}
}

// Chooser abstracts the source of random choices (rapid draws in the checks).
type Chooser interface {
	Intn(n int, label string) int
}

// Generate derives a random sentence of rule start. budget bounds the recursion depth: once it is
// exhausted the generator only takes minimal alternatives. anyTok supplies a token for '~X' / '.'
// positions given the excluded set.
func (g *Grammar) Generate(c Chooser, start string, budget int, anyTok func(exclude map[string]bool) string) ([]string, *Tree) {
	var toks []string
	bigRep := false
	var gen func(n *Node, budget int, parent *Tree)
	gen = func(n *Node, budget int, parent *Tree) {
		switch n.Kind {
		case "tok":
			toks = append(toks, n.Name)
			parent.Kids = append(parent.Kids, &Tree{Tok: n.Name})
		case "any", "not":
			ex := map[string]bool{}
			if n.Kind == "not" {
				collectToks(n.Kids[0], ex)
			}
			t := anyTok(ex)
			toks = append(toks, t)
			parent.Kids = append(parent.Kids, &Tree{Tok: t})
		case "rule":
			t := &Tree{Rule: n.Name}
			parent.Kids = append(parent.Kids, t)
			gen(g.Rules[n.Name], budget-1, t)
		case "seq":
			for _, k := range n.Kids {
				gen(k, budget, parent)
			}
		case "alt":
			var cands []*Node
			for _, k := range n.Kids {
				if k.min <= budget || budget <= 0 && k.min == n.min {
					cands = append(cands, k)
				}
			}
			if budget <= 0 || len(cands) == 0 {
				cands = nil
				for _, k := range n.Kids {
					if k.min == n.min {
						cands = append(cands, k)
					}
				}
			}
			gen(cands[c.Intn(len(cands), "alt")], budget, parent)
		case "opt":
			if n.Kids[0].min <= budget && budget > 0 && c.Intn(2, "opt") == 1 {
				gen(n.Kids[0], budget, parent)
			}
		case "star", "plus":
			cnt := 0
			if n.Kind == "plus" {
				cnt = 1
			}
			if n.Kids[0].min <= budget && budget > 0 {
				// 0..2 repetitions; once per sentence at most, a repetition count around 8, 16 or 64 (a loop that runs
				// long enough for size thresholds inside a parser to matter)
				switch r := c.Intn(24, "rep"); {
				case r < 21 || bigRep:
					cnt += r % 3
				default:
					bigRep = true
					cnt += []int{9, 17, 70}[r-21]
				}
			}
			for i := 0; i < cnt; i++ {
				gen(n.Kids[0], budget, parent)
			}
		}
	}
	root := &Tree{Rule: start}
	gen(g.Rules[start], budget, root)
	return toks, root
}

// RuleNames lists the rules of t in pre-order (enter events).
func (t *Tree) RuleNames() []string {
	var out []string
	var walk func(*Tree)
	walk = func(x *Tree) {
		if x.Rule != "" {
			out = append(out, x.Rule)
		}
		for _, k := range x.Kids {
			walk(k)
		}
	}
	walk(t)
	return out
}

// ---------------------------------------------------------------------------------------------
// lexer grammar vocabulary

type LexerVocab struct {
	Tokens   []string          // token names in the order ANTLR numbers them (tokens{} block first, then rules; no fragments, no duplicates)
	Literals map[string]string // token name -> single literal (for rules of the form NAME: 'lit' ...;)
	Modes    []string
	Rules    []string // all non-fragment lexer rule names in declaration order (incl. those re-typed with -> type(X))
	AllRules []string // Rules plus fragment rules, in declaration order (ANTLR lists fragments among the lexer rule names)
}

var (
	reTokensBlock = regexp.MustCompile(`(?s)tokens\s*\{(.*?)\}`)
	reLexRule     = regexp.MustCompile(`(?m)^\s*(fragment\s+)?([A-Z][A-Za-z0-9_]*)\s*:`)
)

// ParseLexerVocab extracts the token vocabulary of a lexer grammar.
func ParseLexerVocab(src string) *LexerVocab {
	// comments are skipped by the tokenizer (a naive strip would cut the literal '//' of CEL_COMMENT)
	v := &LexerVocab{Literals: map[string]string{}}
	seen := map[string]bool{}
	add := func(n string) {
		if !seen[n] {
			seen[n] = true
			v.Tokens = append(v.Tokens, n)
		}
	}
	toks := tokenize(src)
	// the tokens { A, B } block, read from the comment-free token stream (comments may stand inside the block)
	for i := 0; i+1 < len(toks); i++ {
		if toks[i] == "tokens" && toks[i+1] == "{" {
			for j := i + 2; j < len(toks) && toks[j] != "}"; j++ {
				if toks[j] != "," {
					add(toks[j])
				}
			}
			break
		}
	}
	// walk rules: NAME ':' ... ';'
	i := 0
	for i < len(toks) && toks[i] != ";" {
		i++
	}
	i++
	for i < len(toks) {
		switch {
		case toks[i] == "tokens":
			for i < len(toks) && toks[i] != "}" {
				i++
			}
			i++
			continue
		case toks[i] == "mode":
			v.Modes = append(v.Modes, toks[i+1])
			i += 3
			continue
		}
		frag := false
		if toks[i] == "fragment" {
			frag = true
			i++
		}
		name := toks[i]
		if i+1 >= len(toks) || toks[i+1] != ":" {
			i++
			continue
		}
		j := i + 2
		var body []string
		for j < len(toks) && toks[j] != ";" {
			body = append(body, toks[j])
			j++
		}
		i = j + 1
		v.AllRules = append(v.AllRules, name)
		if frag {
			continue
		}
		v.Rules = append(v.Rules, name)
		retyped := false
		for k := 0; k+1 < len(body); k++ {
			if body[k] == "type" && body[k+1] == "(" {
				retyped = true
			}
		}
		if !retyped {
			add(name)
			// single literal rule (possibly followed by a lexer command)
			if len(body) >= 1 && strings.HasPrefix(body[0], "'") && (len(body) == 1 || body[1] == "->") {
				v.Literals[name] = unquoteG4(body[0])
			}
		}
	}
	return v
}

func unquoteG4(s string) string {
	s = strings.TrimSuffix(strings.TrimPrefix(s, "'"), "'")
	s = strings.ReplaceAll(s, `\\`, "\x00")
	s = strings.ReplaceAll(s, `\'`, "'")
	s = strings.ReplaceAll(s, "\x00", `\`)
	return s
}
