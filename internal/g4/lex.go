package g4

import (
	_ "embed"
	"os"
	"path/filepath"
	"strings"
	"sync"

	"github.com/antlr4-go/antlr/v4"
	parser "github.com/openfga/language/pkg/go/gen"
)

// StripStrict is an independent implementation of the documented comment rule and nothing else:
// a line whose first non-blank (space) character is '#' becomes empty, a trailing " #..." is cut.
// No trailing-blank trimming, no removal of final newlines: what remains must be derivable from
// the grammar as it stands.
func StripStrict(s string) string {
	lines := strings.Split(s, "\n")
	for i, l := range lines {
		if strings.HasPrefix(strings.TrimLeft(l, " "), "#") {
			lines[i] = ""
			continue
		}
		if j := strings.Index(l, " #"); j >= 0 {
			lines[i] = l[:j]
		}
	}
	return strings.Join(lines, "\n")
}

// StripLenient additionally trims trailing blanks/tabs per line and trailing newlines (the
// library's own leniency is never held against it when asking "certainly ungrammatical?").
func StripLenient(s string) string {
	lines := strings.Split(s, "\n")
	for i, l := range lines {
		if strings.HasPrefix(strings.TrimLeft(l, " "), "#") {
			lines[i] = ""
			continue
		}
		if j := strings.Index(l, " #"); j >= 0 {
			l = l[:j]
		}
		lines[i] = strings.TrimRight(l, " \t")
	}
	return strings.TrimRight(strings.Join(lines, "\n"), "\n \t")
}

type errCount struct {
	*antlr.DefaultErrorListener
	n int
}

func (e *errCount) SyntaxError(_ antlr.Recognizer, _ interface{}, _, _ int, _ string, _ antlr.RecognitionException) {
	e.n++
}

// LexTypes runs a fresh instance of the generated Go lexer with its own error listener and returns
// the default-channel token types as symbolic names (terminated by "EOF") plus the number of
// lexer errors.
func LexTypes(s string) ([]string, int) {
	lx := parser.NewOpenFGALexer(antlr.NewInputStream(s))
	lx.RemoveErrorListeners()
	ec := &errCount{DefaultErrorListener: antlr.NewDefaultErrorListener()}
	lx.AddErrorListener(ec)
	var out []string
	for {
		t := lx.NextToken()
		if t.GetTokenType() == antlr.TokenEOF {
			out = append(out, "EOF")
			break
		}
		if t.GetChannel() != antlr.TokenDefaultChannel {
			continue
		}
		tt := t.GetTokenType()
		if tt > 0 && tt < len(lx.SymbolicNames) {
			out = append(out, lx.SymbolicNames[tt])
		} else {
			out = append(out, "?")
		}
		if len(out) > 200000 {
			break
		}
	}
	return out, ec.n
}

var (
	gOnce sync.Once
	gPar  *Grammar
	gErr  error
)

// RepoGrammar parses <repo>/OpenFGAParser.g4 once per process.
func RepoGrammar(repo string) (*Grammar, error) {
	gOnce.Do(func() {
		b, err := os.ReadFile(filepath.Join(repo, "OpenFGAParser.g4"))
		if err != nil {
			gErr = err
			return
		}
		gPar, gErr = ParseParserGrammar(string(b))
	})
	return gPar, gErr
}

// DerivableStrict: lexes after the strict stripper; true when there is no lexer error and the
// token sequence derives main.
func DerivableStrict(g *Grammar, dsl string) bool {
	toks, errs := LexTypes(StripStrict(dsl))
	return errs == 0 && g.Derives("main", toks)
}

// DerivableLenient: same after the lenient stripper. "not DerivableLenient" = certainly ungrammatical.
func DerivableLenient(g *Grammar, dsl string) bool {
	toks, errs := LexTypes(StripLenient(dsl))
	return errs == 0 && g.Derives("main", toks)
}

//go:embed pinned/OpenFGAParser.g4
var pinnedParserGrammar string

var (
	pinOnce sync.Once
	pinG    *Grammar
)

// PinnedGrammar is the parser grammar as it stood at the pinned commit. Harness self-checks that
// validate MY fault injectors (C09) use it, so that a change to the repository's .g4 cannot turn an
// injected rule violation into "grammatical" and silence the check.
func PinnedGrammar() *Grammar {
	pinOnce.Do(func() {
		g, err := ParseParserGrammar(pinnedParserGrammar)
		if err != nil {
			panic("pinned grammar: " + err.Error())
		}
		pinG = g
	})
	return pinG
}
