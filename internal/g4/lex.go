package g4

import (
	_ "embed"
	"os"
	"path/filepath"
	"strings"
	"sync"
	"sync/atomic"

	"github.com/antlr4-go/antlr/v4"
	parser "github.com/openfga/language/pkg/go/gen"

	"verif/internal/g4/pinnedlexer"
)

// StripStrict is an independent implementation of the documented comment rule and nothing else:
// a line whose first non-blank (space) character is '#' becomes empty, a trailing " #..." is cut.
// No trailing-blank trimming, no removal of final newlines: what remains must be derivable from
// the grammar as it stands.
func StripStrict(s string) string {
	lines := strings.Split(s, "\n")
	for i, l := range lines {
		if strings.HasPrefix(strings.TrimLeft(l, " "), "#") {
			lines[i] = ""
			continue
		}
		if j := strings.Index(l, " #"); j >= 0 {
			lines[i] = l[:j]
		}
	}
	return strings.Join(lines, "\n")
}

// StripLenient additionally trims trailing blanks/tabs per line and trailing newlines (the
// library's own leniency is never held against it when asking "certainly ungrammatical?").
func StripLenient(s string) string {
	lines := strings.Split(s, "\n")
	for i, l := range lines {
		if strings.HasPrefix(strings.TrimLeft(l, " "), "#") {
			lines[i] = ""
			continue
		}
		if j := strings.Index(l, " #"); j >= 0 {
			l = l[:j]
		}
		lines[i] = strings.TrimRight(l, " \t")
	}
	return strings.TrimRight(strings.Join(lines, "\n"), "\n \t")
}

type errCount struct {
	*antlr.DefaultErrorListener
	n int
}

func (e *errCount) SyntaxError(_ antlr.Recognizer, _ interface{}, _, _ int, _ string, _ antlr.RecognitionException) {
	e.n++
}

// LexTypes runs a fresh instance of the generated Go lexer with its own error listener and returns
// the default-channel token types as symbolic names (terminated by "EOF") plus the number of
// lexer errors.
//
// Which lexer: as long as OpenFGALexer.g4 in the repository is byte-identical to the copy pinned here, the lexer
// generated from that grammar at the pinned commit (vendored in internal/g4/pinnedlexer) is THE lexer of the grammar,
// whatever stands in the repository's pkg/go/gen: a hand edit of the generated lexer must not be able to talk the
// harness's own self-checks ("is this rendering grammatical?") into agreeing with the library. Once the grammar file
// changes, the repository's generated lexer is used (C19 ties it to the grammar).
func LexTypes(s string) ([]string, int) { return lexTypes(s, pinnedLexerValid.Load()) }

// LexTypesPinned always lexes with the lexer generated from the grammar at the pinned commit.
func LexTypesPinned(s string) ([]string, int) { return lexTypes(s, true) }

// DerivablePinnedLenient: is the document (after the lenient comment pre-pass) a sentence of the grammar AS PINNED
// (pinned parser grammar, lexer generated from the pinned lexer grammar)? The layouts the properties list were legal
// then; a later narrowing of the grammar does not make them illegal for the purpose of the properties.
func DerivablePinnedLenient(dsl string) bool {
	toks, errs := LexTypesPinned(StripLenient(dsl))
	return errs == 0 && PinnedGrammar().Derives("main", toks)
}

func lexTypes(s string, pinned bool) ([]string, int) {
	var lx antlr.Lexer
	var names []string
	if pinned {
		l := pinnedlexer.NewOpenFGALexer(antlr.NewInputStream(s))
		lx, names = l, l.SymbolicNames
	} else {
		l := parser.NewOpenFGALexer(antlr.NewInputStream(s))
		lx, names = l, l.SymbolicNames
	}
	lx.RemoveErrorListeners()
	ec := &errCount{DefaultErrorListener: antlr.NewDefaultErrorListener()}
	lx.AddErrorListener(ec)
	var out []string
	for {
		t := lx.NextToken()
		if t.GetTokenType() == antlr.TokenEOF {
			out = append(out, "EOF")
			break
		}
		if t.GetChannel() != antlr.TokenDefaultChannel {
			continue
		}
		tt := t.GetTokenType()
		if tt > 0 && tt < len(names) {
			out = append(out, names[tt])
		} else {
			out = append(out, "?")
		}
		if len(out) > 200000 {
			break
		}
	}
	return out, ec.n
}

//go:embed pinned/OpenFGALexer.g4
var pinnedLexerGrammar string

var pinnedLexerValid atomic.Bool

// UsePinnedLexerFor decides once which lexer LexTypes uses (see there). Returns the decision.
func UsePinnedLexerFor(repo string) bool {
	b, err := os.ReadFile(filepath.Join(repo, "OpenFGALexer.g4"))
	ok := err == nil && string(b) == pinnedLexerGrammar
	pinnedLexerValid.Store(ok)
	return ok
}

var (
	gOnce sync.Once
	gPar  *Grammar
	gErr  error
)

// RepoGrammar parses <repo>/OpenFGAParser.g4 once per process.
func RepoGrammar(repo string) (*Grammar, error) {
	gOnce.Do(func() {
		UsePinnedLexerFor(repo)
		b, err := os.ReadFile(filepath.Join(repo, "OpenFGAParser.g4"))
		if err != nil {
			gErr = err
			return
		}
		gPar, gErr = ParseParserGrammar(string(b))
	})
	return gPar, gErr
}

// DerivableStrict: lexes after the strict stripper; true when there is no lexer error and the
// token sequence derives main.
func DerivableStrict(g *Grammar, dsl string) bool {
	toks, errs := LexTypes(StripStrict(dsl))
	return errs == 0 && g.Derives("main", toks)
}

// DerivableLenient: same after the lenient stripper. "not DerivableLenient" = certainly ungrammatical.
func DerivableLenient(g *Grammar, dsl string) bool {
	toks, errs := LexTypes(StripLenient(dsl))
	return errs == 0 && g.Derives("main", toks)
}

//go:embed pinned/OpenFGAParser.g4
var pinnedParserGrammar string

var (
	pinOnce sync.Once
	pinG    *Grammar
)

// PinnedGrammar is the parser grammar as it stood at the pinned commit. Harness self-checks that
// validate MY fault injectors (C09) use it, so that a change to the repository's .g4 cannot turn an
// injected rule violation into "grammatical" and silence the check.
func PinnedGrammar() *Grammar {
	pinOnce.Do(func() {
		g, err := ParseParserGrammar(pinnedParserGrammar)
		if err != nil {
			panic("pinned grammar: " + err.Error())
		}
		pinG = g
	})
	return pinG
}
