parser grammar OpenFGAParser;
options { tokenVocab=OpenFGALexer; }

main: WHITESPACE? NEWLINE? (modelHeader | moduleHeader) NEWLINE? typeDefs NEWLINE? conditions NEWLINE? EOF;

// Model Header
modelHeader: (multiLineComment NEWLINE)? MODEL NEWLINE SCHEMA WHITESPACE schemaVersion=SCHEMA_VERSION WHITESPACE?;
// Module Header
moduleHeader: (multiLineComment NEWLINE)? MODULE WHITESPACE moduleName=identifier WHITESPACE?;

// Type Definitions
typeDefs: typeDef*;
typeDef:  (NEWLINE multiLineComment)? NEWLINE (EXTEND WHITESPACE)? TYPE WHITESPACE typeName=extended_identifier (NEWLINE RELATIONS relationDeclaration+)?;

// Relation definitions
relationDeclaration: (NEWLINE multiLineComment)? NEWLINE DEFINE WHITESPACE relationName WHITESPACE? COLON WHITESPACE? (relationDef);
relationName: extended_identifier;

relationDef: (relationDefDirectAssignment | relationDefGrouping | relationRecurse) (relationDefPartials)?;
relationDefNoDirect: (relationDefGrouping | relationRecurseNoDirect) (relationDefPartials)?;

relationDefPartials:
    (WHITESPACE OR WHITESPACE (relationDefGrouping | relationRecurseNoDirect))+
    | (WHITESPACE AND WHITESPACE (relationDefGrouping | relationRecurseNoDirect))+
    | (WHITESPACE BUT_NOT WHITESPACE (relationDefGrouping | relationRecurseNoDirect));

relationDefGrouping: relationDefRewrite;

relationRecurse:
    LPAREN WHITESPACE* (
    relationDef |
    relationRecurseNoDirect
    ) WHITESPACE* RPAREN;

relationRecurseNoDirect:
    LPAREN WHITESPACE* (
    relationDefNoDirect |
    relationRecurseNoDirect
    ) WHITESPACE* RPAREN;

relationDefDirectAssignment: LBRACKET WHITESPACE? relationDefTypeRestriction WHITESPACE? (COMMA WHITESPACE? relationDefTypeRestriction WHITESPACE?)* RPRACKET;
relationDefRewrite: rewriteComputedusersetName=extended_identifier (WHITESPACE FROM WHITESPACE rewriteTuplesetName=extended_identifier)?;

relationDefTypeRestriction: NEWLINE? (
    relationDefTypeRestrictionBase
    | (relationDefTypeRestrictionBase WHITESPACE KEYWORD_WITH WHITESPACE conditionName)
    ) NEWLINE?;
relationDefTypeRestrictionBase: relationDefTypeRestrictionType=extended_identifier
    ((COLON relationDefTypeRestrictionWildcard=STAR)
     | (HASH relationDefTypeRestrictionRelation=extended_identifier))?;

// Conditions
conditions: condition*;
condition: (NEWLINE multiLineComment)? NEWLINE
    CONDITION WHITESPACE conditionName WHITESPACE?
    LPAREN WHITESPACE? conditionParameter WHITESPACE? (COMMA WHITESPACE? conditionParameter WHITESPACE?)* NEWLINE? RPAREN WHITESPACE?
    LBRACE NEWLINE? WHITESPACE?
    conditionExpression
    NEWLINE? RBRACE;
conditionName: IDENTIFIER;
conditionParameter: NEWLINE? parameterName WHITESPACE? COLON WHITESPACE? parameterType;
parameterName: IDENTIFIER;
parameterType: CONDITION_PARAM_TYPE | (CONDITION_PARAM_CONTAINER LESS CONDITION_PARAM_TYPE GREATER);

multiLineComment: HASH (~NEWLINE)* (NEWLINE multiLineComment)?;

identifier: MODEL | SCHEMA | TYPE | RELATION | IDENTIFIER | MODULE | EXTEND;

extended_identifier: identifier | EXTENDED_IDENTIFIER;

conditionExpression: ((
IDENTIFIER |
EQUALS |
NOT_EQUALS |
IN |
LESS |
LESS_EQUALS |
GREATER_EQUALS |
GREATER |
LOGICAL_AND |
LOGICAL_OR |
LBRACKET |
RPRACKET |
LBRACE |
LPAREN |
RPAREN |
DOT |
MINUS |
EXCLAM |
QUESTIONMARK |
PLUS |
STAR |
SLASH |
PERCENT |
CEL_TRUE |
CEL_FALSE |
NUL |
WHITESPACE |
CEL_COMMENT |
NUM_FLOAT |
NUM_INT |
NUM_UINT |
STRING |
BYTES |
NEWLINE |
WHITESPACE
)|~(RBRACE))*;