lexer grammar OpenFGALexer;

tokens {
	COLON,
	COMMA,
	LESS,
	GREATER,
	LBRACKET,
	RBRACKET,
	LPAREN,
	RPAREN,
	WHITESPACE,
	IDENTIFIER
}

HASH: '#';
COLON: ':';
COMMA: ',';

AND: 'and';
OR: 'or';
BUT_NOT: 'but not';
FROM: 'from';

MODULE: 'module';
MODEL: 'model';
SCHEMA: 'schema';
SCHEMA_VERSION: DIGIT+'.'DIGIT+;
EXTEND: 'extend';
TYPE: 'type';
CONDITION: 'condition' -> pushMode(CONDITION_DEF);

RELATIONS: 'relations';
RELATION: 'relation';
DEFINE: 'define';
KEYWORD_WITH: 'with';

// CEL Lexer tokens, slightly modified source:
// https://github.com/google/cel-go/blob/32ac6133c6b8eca8bb76e17e6ad50a1eb757778a/parser/gen/CEL.g4

EQUALS: '==';
NOT_EQUALS: '!=';
IN: 'in';
LESS: '<';
LESS_EQUALS: '<=';
GREATER_EQUALS: '>=';
GREATER: '>';
LOGICAL_AND: '&&';
LOGICAL_OR: '||';

LBRACKET: '[';
RPRACKET: ']';
LBRACE: '{';
RBRACE: '}';
LPAREN: '(';
RPAREN: ')';
DOT: '.';
MINUS: '-';
EXCLAM: '!';
QUESTIONMARK: '?';
PLUS: '+';
STAR: '*';
SLASH: '/';
PERCENT: '%';
CEL_TRUE: 'true';
CEL_FALSE: 'false';
NUL: 'null';

fragment BACKSLASH: '\\';
fragment LETTER: 'A' ..'Z' | 'a' ..'z';
fragment DIGIT: '0' ..'9';
fragment EXPONENT: ('e' | 'E') ( '+' | '-')? DIGIT+;
fragment HEXDIGIT: ('0' ..'9' | 'a' ..'f' | 'A' ..'F');
fragment RAW: 'r' | 'R';

fragment ESC_SEQ:
	ESC_CHAR_SEQ
	| ESC_BYTE_SEQ
	| ESC_UNI_SEQ
	| ESC_OCT_SEQ;

fragment ESC_CHAR_SEQ:
	BACKSLASH (
		'a'
		| 'b'
		| 'f'
		| 'n'
		| 'r'
		| 't'
		| 'v'
		| '"'
		| '\''
		| '\\'
		| '?'
		| '`'
	);

fragment ESC_OCT_SEQ:
	BACKSLASH ('0' ..'3') ('0' ..'7') ('0' ..'7');

fragment ESC_BYTE_SEQ: BACKSLASH ( 'x' | 'X') HEXDIGIT HEXDIGIT;

fragment ESC_UNI_SEQ:
	BACKSLASH 'u' HEXDIGIT HEXDIGIT HEXDIGIT HEXDIGIT
	| BACKSLASH 'U' HEXDIGIT HEXDIGIT HEXDIGIT HEXDIGIT HEXDIGIT HEXDIGIT HEXDIGIT HEXDIGIT;

WHITESPACE: ( '\t' | ' ' | '\u000C')+;
CEL_COMMENT: '//' (~'\n')* -> channel(HIDDEN);

NUM_FLOAT: (
		DIGIT+ ('.' DIGIT+) EXPONENT?
		| DIGIT+ EXPONENT
		| '.' DIGIT+ EXPONENT?
	);

NUM_INT: ( DIGIT+ | '0x' HEXDIGIT+);

NUM_UINT: DIGIT+ ( 'u' | 'U') | '0x' HEXDIGIT+ ( 'u' | 'U');

STRING:
	'"' (ESC_SEQ | ~('\\' | '"' | '\n' | '\r'))* '"'
	| '\'' (ESC_SEQ | ~('\\' | '\'' | '\n' | '\r'))* '\''
	| '"""' (ESC_SEQ | ~('\\'))*? '"""'
	| '\'\'\'' (ESC_SEQ | ~('\\'))*? '\'\'\''
	| RAW '"' ~('"' | '\n' | '\r')* '"'
	| RAW '\'' ~('\'' | '\n' | '\r')* '\''
	| RAW '"""' .*? '"""'
	| RAW '\'\'\'' .*? '\'\'\'';

BYTES: ('b' | 'B') STRING;

IDENTIFIER: (LETTER | '_') (LETTER | DIGIT | '_' | MINUS)*;
	// NOTE: MINUS is not allowed in CEL, but allowed in FGA, CEL will be revalidated after

// END CEL GRAMMAR
EXTENDED_IDENTIFIER: (LETTER | '_')((SLASH | DOT | MINUS)?(LETTER | DIGIT | '_')+)*;

NEWLINE:
	WHITESPACE? ('\r'? '\n' | '\r' | '\f') WHITESPACE? NEWLINE?;

mode CONDITION_DEF;

CONDITION_DEF_END: RPAREN -> type(RPAREN), popMode;

CONDITION_PARAM_CONTAINER: 'map' | 'list';
CONDITION_PARAM_TYPE:
	'bool'
	| 'string'
	| 'int'
	| 'uint'
	| 'double'
	| 'duration'
	| 'timestamp'
	| 'ipaddress';

CONDITION_PARAM_TYPE_LESS: LESS -> type(LESS);
CONDITION_PARAM_TYPE_GREATER: GREATER -> type(GREATER);

CONDITION_OPEN: LPAREN -> type(LPAREN);
CONDITION_COLON: COLON -> type(COLON);
CONDITION_COMMA: COMMA -> type(COMMA);

CONDITION_WS: WHITESPACE -> type(WHITESPACE);
CONDITION_NAME: IDENTIFIER -> type(IDENTIFIER);