package g4

import (
	"fmt"
	"regexp"
	"strconv"
	"strings"
)

// Decoders for the ANTLR artefacts generated into the three language packages.

var reInt = regexp.MustCompile(`-?\d+`)

func ints(s string) []int {
	var out []int
	for _, m := range reInt.FindAllString(s, -1) {
		v, _ := strconv.Atoi(m)
		out = append(out, v)
	}
	return out
}

func between(src, start, end string) (string, error) {
	i := strings.Index(src, start)
	if i < 0 {
		return "", fmt.Errorf("marker %q not found", start)
	}
	rest := src[i+len(start):]
	j := strings.Index(rest, end)
	if j < 0 {
		return "", fmt.Errorf("end marker %q not found after %q", end, start)
	}
	return rest[:j], nil
}

// GoATN extracts the serialized ATN from a generated Go lexer/parser source.
func GoATN(src string) ([]int, error) {
	body, err := between(src, "staticData.serializedATN = []int32{", "}")
	if err != nil {
		return nil, err
	}
	return ints(body), nil
}

// TSATN extracts it from a generated TypeScript source.
func TSATN(src string) ([]int, error) {
	body, err := between(src, "_serializedATN: number[] = [", "];")
	if err != nil {
		return nil, err
	}
	return ints(body), nil
}

// InterpATN extracts it from a .interp file (last section "atn:").
func InterpATN(src string) ([]int, error) {
	i := strings.LastIndex(src, "\natn:\n")
	if i < 0 {
		return nil, fmt.Errorf("no atn section")
	}
	return ints(src[i+6:]), nil
}

var reJavaLit = regexp.MustCompile(`"((?:[^"\\]|\\.)*)"`)

// JavaATN extracts and decodes the serialized ATN of a generated Java source: concatenated string
// literals with \uXXXX / octal / simple escapes give 16-bit words; a word without the high bit is a
// value, 0xFFFF 0xFFFF is -1, otherwise two words pack a 31-bit value.
func JavaATN(src string) ([]int, error) {
	body, err := between(src, "_serializedATN =", ";\n")
	if err != nil {
		return nil, err
	}
	var words []int
	for _, m := range reJavaLit.FindAllStringSubmatch(body, -1) {
		s := m[1]
		for i := 0; i < len(s); i++ {
			c := s[i]
			if c != '\\' {
				// literal character (ASCII in generated sources; decode UTF-8 defensively)
				r := []rune(s[i:])[0]
				words = append(words, int(r))
				i += len(string(r)) - 1
				continue
			}
			i++
			if i >= len(s) {
				return nil, fmt.Errorf("dangling backslash")
			}
			switch e := s[i]; {
			case e == 'u':
				for i+1 < len(s) && s[i+1] == 'u' {
					i++
				}
				if i+5 > len(s) {
					return nil, fmt.Errorf("short \\u escape")
				}
				v, err := strconv.ParseUint(s[i+1:i+5], 16, 32)
				if err != nil {
					return nil, err
				}
				words = append(words, int(v))
				i += 4
			case e >= '0' && e <= '7':
				j := i
				max := 3
				if e > '3' {
					max = 2
				}
				for j < len(s) && j-i < max && s[j] >= '0' && s[j] <= '7' {
					j++
				}
				v, _ := strconv.ParseUint(s[i:j], 8, 32)
				words = append(words, int(v))
				i = j - 1
			default:
				m := map[byte]int{'b': 8, 't': 9, 'n': 10, 'f': 12, 'r': 13, '"': '"', '\'': '\'', '\\': '\\', 's': ' '}
				v, ok := m[e]
				if !ok {
					return nil, fmt.Errorf("unknown escape \\%c", e)
				}
				words = append(words, v)
			}
		}
	}
	var out []int
	for i := 0; i < len(words); i++ {
		v := words[i]
		if v&0x8000 == 0 {
			out = append(out, v)
			continue
		}
		if i+1 >= len(words) {
			return nil, fmt.Errorf("truncated two-word value")
		}
		n := words[i+1]
		i++
		if v == 0xFFFF && n == 0xFFFF {
			out = append(out, -1)
		} else {
			out = append(out, (v&0x7FFF)<<16|(n&0xFFFF))
		}
	}
	return out, nil
}

var reQuoted = regexp.MustCompile(`"((?:[^"\\]|\\.)*)"|\bnull\b`)

func quotedList(body string) []string {
	var out []string
	for _, m := range reQuoted.FindAllStringSubmatch(body, -1) {
		if m[0] == "null" {
			out = append(out, "")
			continue
		}
		s := m[1]
		s = strings.ReplaceAll(s, `\\`, "\x00")
		s = strings.ReplaceAll(s, `\"`, `"`)
		s = strings.ReplaceAll(s, `\'`, `'`)
		s = strings.ReplaceAll(s, "\x00", `\`)
		out = append(out, s)
	}
	return out
}

// Tables: literal, symbolic and rule names of one generated recogniser.
type Tables struct {
	Literal, Symbolic, Rules []string
}

func trimTrailingEmpty(s []string) []string {
	for len(s) > 0 && s[len(s)-1] == "" {
		s = s[:len(s)-1]
	}
	return s
}

func GoTables(src string) (Tables, error) {
	var t Tables
	lit, err := between(src, "staticData.LiteralNames = []string{", "\n  }")
	if err != nil {
		return t, err
	}
	sym, err := between(src, "staticData.SymbolicNames = []string{", "\n  }")
	if err != nil {
		return t, err
	}
	rul, err := between(src, "staticData.RuleNames = []string{", "\n  }")
	if err != nil {
		return t, err
	}
	t.Literal, t.Symbolic, t.Rules = trimTrailingEmpty(quotedList(lit)), trimTrailingEmpty(quotedList(sym)), quotedList(rul)
	return t, nil
}

func TSTables(src string) (Tables, error) {
	var t Tables
	lit, err := between(src, "public static readonly literalNames: (string | null)[] = [", "];")
	if err != nil {
		return t, err
	}
	sym, err := between(src, "public static readonly symbolicNames: (string | null)[] = [", "];")
	if err != nil {
		return t, err
	}
	rul, err := between(src, "public static readonly ruleNames: string[] = [", "];")
	if err != nil {
		return t, err
	}
	t.Literal, t.Symbolic, t.Rules = trimTrailingEmpty(quotedList(lit)), trimTrailingEmpty(quotedList(sym)), quotedList(rul)
	return t, nil
}

func JavaTables(src string) (Tables, error) {
	var t Tables
	lit, err := between(src, "private static String[] makeLiteralNames() {", "\n\t\t};")
	if err != nil {
		return t, err
	}
	sym, err := between(src, "private static String[] makeSymbolicNames() {", "\n\t\t};")
	if err != nil {
		return t, err
	}
	rul, err := between(src, "private static String[] makeRuleNames() {", "\n\t\t};")
	if err != nil {
		return t, err
	}
	t.Literal, t.Symbolic, t.Rules = trimTrailingEmpty(quotedList(lit)), trimTrailingEmpty(quotedList(sym)), quotedList(rul)
	return t, nil
}

// InterpTables reads the name sections of a .interp file.
func InterpTables(src string) Tables {
	var t Tables
	section := func(name string) []string {
		i := strings.Index(src, name+":\n")
		if i < 0 {
			return nil
		}
		rest := src[i+len(name)+2:]
		j := strings.Index(rest, "\n\n")
		if j >= 0 {
			rest = rest[:j]
		}
		var out []string
		for _, l := range strings.Split(rest, "\n") {
			if l == "null" {
				l = ""
			}
			out = append(out, l)
		}
		return out
	}
	t.Literal = trimTrailingEmpty(section("token literal names"))
	t.Symbolic = trimTrailingEmpty(section("token symbolic names"))
	t.Rules = section("rule names")
	return t
}

// ---------------------------------------------------------------------------------------------
// generated-code skeletons

// Skeleton is, per parser rule, the sequence of structural events of the generated recursive
// descent function, normalised across target languages:
//
//	S<n> setState, M<t> match token t, R<r> call of rule r, P<d> adaptivePredict decision d,
//	A<n> enterOuterAlt, C<n> case label (alternative number or token type), L<t> single-token lookahead test
type Skeleton map[string][]string

func lowerFirst(s string) string {
	if s == "" {
		return s
	}
	return strings.ToLower(s[:1]) + s[1:]
}

func splitFuncs(src string, reStart *regexp.Regexp, endLine string) map[string]string {
	out := map[string]string{}
	locs := reStart.FindAllStringSubmatchIndex(src, -1)
	for _, loc := range locs {
		name := src[loc[2]:loc[3]]
		rest := src[loc[0]:]
		end := strings.Index(rest, endLine)
		if end < 0 {
			end = len(rest)
		}
		if _, dup := out[lowerFirst(name)]; !dup { // context classes have accessors of the same name further down
			out[lowerFirst(name)] = rest[:end]
		}
	}
	return out
}

var (
	reGoFunc   = regexp.MustCompile(`(?m)^func \(p \*OpenFGAParser\) ([A-Za-z_]+)\(\) \(localctx I[A-Za-z_]+Context\) \{`)
	reTSFunc   = regexp.MustCompile(`(?m)^\tpublic ([A-Za-z_]+)\(\): [A-Za-z_]+Context \{`)
	reJavaFunc = regexp.MustCompile(`(?m)^\tpublic final [A-Za-z_]+Context ([A-Za-z_]+)\(\) throws RecognitionException \{`)

	reGoEv = regexp.MustCompile(`p\.SetState\((\d+)\)|p\.Match\(OpenFGAParser([A-Za-z_]+)\)|AdaptivePredict\(p\.BaseParser, p\.GetTokenStream\(\), (\d+),|p\.EnterOuterAlt\(localctx, (\d+)\)|(?m:^\s*case ([^:\n]+):)|_la == OpenFGAParser([A-Za-z_]+)|\bp\.([A-Z][A-Za-z_]*)\(\)`)
	reTSEv = regexp.MustCompile(`this\.state = (\d+);|this\.match\(OpenFGAParser\.([A-Za-z_]+)\)|adaptivePredict\(this\._input, (\d+),|this\.enterOuterAlt\(localctx, (\d+)\)|(?m:^\s*case ([^:\n]+):)|_la\s*===\s*(\d+)|\bthis\.([a-z][A-Za-z_]*)\(\)`)
	reJaEv = regexp.MustCompile(`setState\((\d+)\)|\bmatch\(([A-Za-z_]+)\)|adaptivePredict\(_input,(\d+),|enterOuterAlt\(_localctx, (\d+)\)|(?m:^\s*case ([^:\n]+):)|_la\s*==\s*([A-Za-z_]+)|(?m:(?:^|[\s=])([a-z][A-Za-z_]*)\(\);)`)
)

// ExtractSkeleton parses one generated parser source. lang is "go", "ts" or "java".
func ExtractSkeleton(lang, src string, tab Tables) (Skeleton, error) {
	tok := map[string]int{}
	for i, s := range tab.Symbolic {
		if s != "" {
			tok[s] = i
		}
	}
	tok["EOF"] = -1
	rule := map[string]int{}
	for i, r := range tab.Rules {
		rule[strings.ToLower(r)] = i
	}
	var funcs map[string]string
	var re *regexp.Regexp
	switch lang {
	case "go":
		funcs, re = splitFuncs(src, reGoFunc, "\n}\n"), reGoEv
	case "ts":
		funcs, re = splitFuncs(src, reTSFunc, "\n\t}\n"), reTSEv
	case "java":
		funcs, re = splitFuncs(src, reJavaFunc, "\n\t}\n"), reJaEv
	default:
		return nil, fmt.Errorf("unknown language %s", lang)
	}
	sk := Skeleton{}
	tokNum := func(name string) string {
		name = strings.TrimSpace(name)
		name = strings.TrimPrefix(name, "OpenFGAParser.")
		name = strings.TrimPrefix(name, "OpenFGAParser")
		if v, ok := tok[name]; ok {
			return strconv.Itoa(v)
		}
		return name // already numeric (alt number / TS token number) or unknown
	}
	for _, r := range tab.Rules {
		body, ok := funcs[strings.ToLower(r[:1])+r[1:]]
		if !ok {
			// Go capitalises the first letter only
			body, ok = funcs[lowerFirst(strings.ToUpper(r[:1])+r[1:])]
		}
		if !ok {
			return nil, fmt.Errorf("%s: no function for rule %s", lang, r)
		}
		var ev []string
		tsCase := map[string]bool{}
		if lang == "ts" {
			tsCase = tsLACases(body)
		}
		for _, mIdx := range re.FindAllStringSubmatchIndex(body, -1) {
			m := make([]string, len(mIdx)/2)
			for k := range m {
				if mIdx[2*k] >= 0 {
					m[k] = body[mIdx[2*k]:mIdx[2*k+1]]
				}
			}
			switch {
			case m[1] != "":
				ev = append(ev, "S"+m[1])
			case m[2] != "":
				ev = append(ev, "M"+tokNum(m[2]))
			case m[3] != "":
				ev = append(ev, "P"+m[3])
			case m[4] != "":
				ev = append(ev, "A"+m[4])
			case m[5] != "":
				// Only token-type labels of lookahead switches are compared. Alternative numbers are not: the Go target
				// writes optional elements as "if predict == 1" where JS and Java write "switch (predict) { case 1:".
				// Go and Java spell token cases by name; in TypeScript they are numeric and are recognised by
				// belonging to a "switch (this._input.LA(1))" statement (see tsLACases).
				for _, c := range strings.Split(m[5], ",") {
					c = strings.TrimSpace(c)
					if lang == "ts" {
						if tsCase[body[:0]+c+"@"+strconv.Itoa(lineOf(body, mIdx[0]))] {
							ev = append(ev, "C"+c)
						}
						continue
					}
					name := strings.TrimPrefix(strings.TrimPrefix(c, "OpenFGAParser."), "OpenFGAParser")
					if v, ok := tok[name]; ok {
						ev = append(ev, "C"+strconv.Itoa(v))
					}
				}
			case m[6] != "":
				ev = append(ev, "L"+tokNum(m[6]))
			case m[7] != "":
				if ri, ok := rule[strings.ToLower(m[7])]; ok {
					ev = append(ev, "R"+strconv.Itoa(ri))
				}
			}
		}
		sk[r] = ev
	}
	return sk, nil
}

func lineOf(s string, off int) int { return strings.Count(s[:off], "\n") }

// tsLACases finds, by indentation, the case labels that belong to "switch (this._input.LA(1))"
// statements of a generated TypeScript function. Keys are "<label>@<line>".
func tsLACases(body string) map[string]bool {
	out := map[string]bool{}
	lines := strings.Split(body, "\n")
	indent := func(l string) int { return len(l) - len(strings.TrimLeft(l, "\t")) }
	for i, l := range lines {
		if !strings.Contains(l, "switch (this._input.LA(1))") {
			continue
		}
		ind := indent(l)
		for j := i + 1; j < len(lines); j++ {
			lj := lines[j]
			if indent(lj) == ind && strings.HasPrefix(strings.TrimLeft(lj, "\t"), "}") {
				break
			}
			t := strings.TrimLeft(lj, "\t")
			if indent(lj) == ind && strings.HasPrefix(t, "case ") && strings.HasSuffix(strings.TrimSpace(t), ":") {
				label := strings.TrimSuffix(strings.TrimSpace(strings.TrimPrefix(t, "case ")), ":")
				out[label+"@"+strconv.Itoa(j)] = true
			}
		}
	}
	return out
}
