package g4

import (
	"fmt"
)

// A minimal reader of ANTLR's serialized ATN (format version 4) for PARSER automata, enough to take
// random walks from a rule's start state to its stop state and collect the token types on the way.
// It is independent of the antlr runtime (whose transition API is unexported).

type atnEdge struct {
	kind             int // 1 epsilon 2 range 3 rule 4 predicate 5 atom 6 action 7 set 8 notset 9 wildcard 10 precedence
	target           int
	a1, a2, a3       int
}

type atnState struct {
	kind  int
	rule  int
	edges []atnEdge
}

type ATN struct {
	GrammarType   int      // 0 lexer, 1 parser
	RuleTokenType []int    // lexer: token type of each rule (0 for fragments)
	ModeStart     []int    // lexer: tokens-start state of each mode
	Actions       [][3]int // lexer: (action type, data1, data2)
	MaxTokenType  int
	states       []atnState
	ruleStart    []int
	ruleStop     []int
	sets         [][][2]int
	minToStop    []int
}

func ParseATN(data []int) (a *ATN, err error) {
	defer func() {
		if r := recover(); r != nil {
			err = fmt.Errorf("atn: %v", r)
		}
	}()
	p := 0
	next := func() int { v := data[p]; p++; return v }
	if v := next(); v != 4 {
		return nil, fmt.Errorf("atn: serialization version %d (want 4)", v)
	}
	grammarType := next()
	a = &ATN{MaxTokenType: next(), GrammarType: grammarType}
	n := next()
	for i := 0; i < n; i++ {
		st := atnState{kind: next()}
		if st.kind == 0 {
			a.states = append(a.states, st)
			continue
		}
		st.rule = next()
		switch st.kind {
		case 12: // loop end: loop back state
			next()
		case 3, 4, 5: // block starts: end state
			next()
		}
		a.states = append(a.states, st)
	}
	for i, k := 0, next(); i < k; i++ { // non-greedy states
		next()
	}
	for i, k := 0, next(); i < k; i++ { // precedence states
		next()
	}
	nr := next()
	a.ruleStart = make([]int, nr)
	a.ruleStop = make([]int, nr)
	for i := 0; i < nr; i++ {
		a.ruleStart[i] = next()
		if grammarType == 0 { // lexer: token type
			a.RuleTokenType = append(a.RuleTokenType, next())
		}
	}
	for i, st := range a.states {
		if st.kind == 7 {
			a.ruleStop[st.rule] = i
		}
	}
	for i, k := 0, next(); i < k; i++ { // modes
		a.ModeStart = append(a.ModeStart, next())
	}
	ns := next()
	for i := 0; i < ns; i++ {
		ni := next()
		var set [][2]int
		if next() != 0 {
			set = append(set, [2]int{-1, -1})
		}
		for j := 0; j < ni; j++ {
			lo := next()
			hi := next()
			set = append(set, [2]int{lo, hi})
		}
		a.sets = append(a.sets, set)
	}
	ne := next()
	for i := 0; i < ne; i++ {
		src, trg, kind, a1, a2, a3 := next(), next(), next(), next(), next(), next()
		a.states[src].edges = append(a.states[src].edges, atnEdge{kind: kind, target: trg, a1: a1, a2: a2, a3: a3})
	}
	for i, k := 0, next(); i < k; i++ { // decisions
		next()
	}
	if grammarType == 0 {
		for i, k := 0, next(); i < k; i++ {
			a.Actions = append(a.Actions, [3]int{next(), next(), next()})
		}
	}
	a.computeMin()
	return a, nil
}

// NumRules is the number of rules of the automaton.
func (a *ATN) NumRules() int { return len(a.ruleStart) }

// RuleActions lists the lexer actions (type, data1, data2) executed by rule r, in automaton order.
func (a *ATN) RuleActions(r int) [][3]int {
	var out [][3]int
	for _, st := range a.states {
		if st.rule != r {
			continue
		}
		for _, e := range st.edges {
			if e.kind == 6 && e.a2 >= 0 && e.a2 < len(a.Actions) {
				out = append(out, a.Actions[e.a2])
			}
		}
	}
	return out
}

// ModeRules lists the rule indexes a mode's start state branches to, in order.
func (a *ATN) ModeRules(mode int) []int {
	var out []int
	for _, e := range a.states[a.ModeStart[mode]].edges {
		if e.kind == 1 {
			out = append(out, a.states[e.target].rule)
		}
	}
	return out
}

// MatchRule reports whether the characters s drive rule r of a LEXER automaton from its start state to its stop
// state (whole-string match; fragments are entered through rule transitions).
func (a *ATN) MatchRule(r int, s []rune) bool {
	type cfg struct {
		state, pos int
		stack      string
	}
	seen := map[cfg]bool{}
	var run func(state, pos int, stack []int) bool
	run = func(state, pos int, stack []int) bool {
		k := cfg{state, pos, fmt.Sprint(stack)}
		if seen[k] {
			return false
		}
		seen[k] = true
		st := a.states[state]
		if st.kind == 7 {
			if len(stack) == 0 {
				return pos == len(s)
			}
			return run(stack[len(stack)-1], pos, stack[:len(stack)-1])
		}
		for _, e := range st.edges {
			switch e.kind {
			case 1, 4, 6, 10:
				if run(e.target, pos, stack) {
					return true
				}
			case 3:
				ns := append(append([]int{}, stack...), e.target)
				if len(ns) < 200 && run(e.a1, pos, ns) {
					return true
				}
			case 5:
				if e.a3 == 0 && pos < len(s) && int(s[pos]) == e.a1 && run(e.target, pos+1, stack) {
					return true
				}
			case 2:
				if pos < len(s) && int(s[pos]) >= e.a1 && int(s[pos]) <= e.a2 && run(e.target, pos+1, stack) {
					return true
				}
			case 7, 8:
				if pos < len(s) {
					in := false
					for _, iv := range a.sets[e.a1] {
						if int(s[pos]) >= iv[0] && int(s[pos]) <= iv[1] {
							in = true
						}
					}
					if in == (e.kind == 7) && run(e.target, pos+1, stack) {
						return true
					}
				}
			case 9:
				if pos < len(s) && run(e.target, pos+1, stack) {
					return true
				}
			}
		}
		return false
	}
	return run(a.ruleStart[r], 0, nil)
}

// WalkChars takes a random walk through rule r of a LEXER automaton and returns the characters read.
func (a *ATN) WalkChars(c Chooser, r, budget int) ([]rune, bool) {
	var out []rune
	bad := false
	emit := func(cp int) string {
		if cp < 0 || cp > 0x10FFFF {
			bad = true
			return ""
		}
		out = append(out, rune(cp))
		return ""
	}
	_, ok := a.walk(c, r, budget, emit, func(sets [][2]int) string {
		var cand []rune
		for _, p := range ProbeChars {
			in := false
			for _, iv := range sets {
				if int(p) >= iv[0] && int(p) <= iv[1] {
					in = true
				}
			}
			if !in {
				cand = append(cand, p)
			}
		}
		if len(cand) == 0 {
			bad = true
			return ""
		}
		out = append(out, cand[c.Intn(len(cand), "notsetChar")])
		return ""
	})
	return out, ok && !bad
}

// computeMin: minimal number of steps from each state to its rule's stop state (rule calls cost
// the callee's minimum), used to steer walks towards termination once the budget is used up.
func (a *ATN) computeMin() {
	const inf = 1 << 20
	a.minToStop = make([]int, len(a.states))
	for i := range a.minToStop {
		a.minToStop[i] = inf
	}
	for _, s := range a.ruleStop {
		a.minToStop[s] = 0
	}
	for changed := true; changed; {
		changed = false
		for i, st := range a.states {
			for _, e := range st.edges {
				c := inf
				switch e.kind {
				case 3:
					callee := a.minToStop[e.a1]
					if callee < inf && a.minToStop[e.target] < inf {
						c = 1 + callee + a.minToStop[e.target]
					}
				default:
					if a.minToStop[e.target] < inf {
						c = 1 + a.minToStop[e.target]
					}
				}
				if c < a.minToStop[i] {
					a.minToStop[i] = c
					changed = true
				}
			}
		}
	}
}

// Walk takes a random walk through rule ruleIndex of a PARSER automaton. tokenName maps a token type to its symbolic
// name. It returns the token sequence (EOF written as "EOF") and false when the walk was abandoned.
func (a *ATN) Walk(c Chooser, ruleIndex, budget int, tokenName func(int) string, anyTok func(exclude map[string]bool) string) ([]string, bool) {
	return a.walk(c, ruleIndex, budget, tokenName, func(sets [][2]int) string {
		ex := map[string]bool{}
		for _, iv := range sets {
			for t := iv[0]; t <= iv[1]; t++ {
				if t >= 0 {
					ex[tokenName(t)] = true
				}
			}
		}
		return anyTok(ex)
	})
}

// walk is the common random walk: sym is called for every symbol read on an atom / range / set transition, notIn for
// a negated set or wildcard transition (with the excluded intervals); non-empty results are collected.
func (a *ATN) walk(c Chooser, ruleIndex, budget int, sym func(int) string, notIn func(sets [][2]int) string) ([]string, bool) {
	var out []string
	add := func(s string) {
		if s != "" {
			out = append(out, s)
		}
	}
	var stack []int
	state := a.ruleStart[ruleIndex]
	steps := 0
	for {
		steps++
		if steps > 5000 {
			return nil, false
		}
		st := a.states[state]
		if st.kind == 7 { // rule stop
			if len(stack) == 0 {
				return out, true
			}
			state = stack[len(stack)-1]
			stack = stack[:len(stack)-1]
			continue
		}
		if len(st.edges) == 0 {
			return nil, false
		}
		var e atnEdge
		if steps > budget {
			// steer home: cheapest continuation
			best, bestCost := 0, 1<<30
			for i, x := range st.edges {
				cost := a.minToStop[x.target]
				if x.kind == 3 {
					cost += a.minToStop[x.a1]
				}
				if cost < bestCost {
					best, bestCost = i, cost
				}
			}
			e = st.edges[best]
		} else {
			e = st.edges[c.Intn(len(st.edges), "edge")]
		}
		switch e.kind {
		case 1, 4, 6, 10:
			state = e.target
		case 3:
			stack = append(stack, e.target)
			state = e.a1
		case 5:
			if e.a3 != 0 {
				add("EOF")
			} else {
				add(sym(e.a1))
			}
			state = e.target
		case 2:
			add(sym(e.a1 + c.Intn(e.a2-e.a1+1, "range")))
			state = e.target
		case 7:
			set := a.sets[e.a1]
			iv := set[c.Intn(len(set), "interval")]
			if iv[0] == -1 {
				add("EOF")
			} else {
				add(sym(iv[0] + c.Intn(iv[1]-iv[0]+1, "inset")))
			}
			state = e.target
		case 8:
			add(notIn(a.sets[e.a1]))
			state = e.target
		case 9:
			add(notIn(nil))
			state = e.target
		default:
			return nil, false
		}
	}
}
