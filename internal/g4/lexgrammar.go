package g4

import (
	"fmt"
	"strconv"
	"strings"
)

// An own reader of ANTLR4 LEXER grammars (the subset used by OpenFGALexer.g4: literals, ranges 'a'..'z',
// references to other rules and fragments, groups, | ? * + *? +? ~x ~( a | b ), '.', lexer commands
// "-> type(X), pushMode(M), popMode, channel(HIDDEN), skip, more, mode(M)", "mode NAME;" sections and the
// tokens { } block). It exists so that the lexer AUTOMATON embedded in the generated packages can be compared
// with the lexer GRAMMAR of the repository rule by rule, without running any generated code.

type LNode struct {
	Kind   string // lit range ref not any seq alt opt star plus
	Lit    []rune // lit
	Lo, Hi rune   // range
	Name   string // ref
	Kids   []*LNode
}

type LexCmd struct{ Name, Arg string }

type LexRule struct {
	Name     string
	Fragment bool
	Mode     string // "DEFAULT_MODE" or the mode section the rule stands in
	Body     *LNode
	Commands []LexCmd
}

type LexGrammar struct {
	Rules  []*LexRule
	ByName map[string]*LexRule
	Modes  []string // DEFAULT_MODE first
}

func unescapeG4(s string) ([]rune, error) {
	s = strings.TrimSuffix(strings.TrimPrefix(s, "'"), "'")
	var out []rune
	rs := []rune(s)
	for i := 0; i < len(rs); i++ {
		if rs[i] != '\\' {
			out = append(out, rs[i])
			continue
		}
		i++
		if i >= len(rs) {
			return nil, fmt.Errorf("dangling backslash in %q", s)
		}
		switch rs[i] {
		case 'n':
			out = append(out, '\n')
		case 'r':
			out = append(out, '\r')
		case 't':
			out = append(out, '\t')
		case 'f':
			out = append(out, '\f')
		case 'b':
			out = append(out, '\b')
		case '\\', '\'', '"', '-', ']':
			out = append(out, rs[i])
		case 'u':
			if i+1 < len(rs) && rs[i+1] == '{' {
				j := i + 2
				for j < len(rs) && rs[j] != '}' {
					j++
				}
				v, err := strconv.ParseInt(string(rs[i+2:j]), 16, 32)
				if err != nil {
					return nil, err
				}
				out = append(out, rune(v))
				i = j
			} else {
				if i+4 >= len(rs) {
					return nil, fmt.Errorf("short \\u escape in %q", s)
				}
				v, err := strconv.ParseInt(string(rs[i+1:i+5]), 16, 32)
				if err != nil {
					return nil, err
				}
				out = append(out, rune(v))
				i += 4
			}
		default:
			return nil, fmt.Errorf("unknown escape \\%c in %q", rs[i], s)
		}
	}
	return out, nil
}

type lexParser struct {
	toks []string
	i    int
}

func (p *lexParser) peek() string {
	if p.i < len(p.toks) {
		return p.toks[p.i]
	}
	return ""
}

func (p *lexParser) alt() *LNode {
	n := &LNode{Kind: "alt", Kids: []*LNode{p.seq()}}
	for p.peek() == "|" {
		p.i++
		n.Kids = append(n.Kids, p.seq())
	}
	if len(n.Kids) == 1 {
		return n.Kids[0]
	}
	return n
}

func (p *lexParser) seq() *LNode {
	n := &LNode{Kind: "seq"}
	for {
		t := p.peek()
		if t == "|" || t == ")" || t == ";" || t == "" || t == "->" {
			break
		}
		n.Kids = append(n.Kids, p.elem())
	}
	return n
}

func (p *lexParser) elem() *LNode {
	t := p.peek()
	var n *LNode
	switch {
	case t == "(":
		p.i++
		n = p.alt()
		if p.peek() != ")" {
			panic("expected ')' near " + p.peek())
		}
		p.i++
	case t == "~":
		p.i++
		n = &LNode{Kind: "not", Kids: []*LNode{p.elemNoSuffix()}}
	case t == ".":
		p.i++
		n = &LNode{Kind: "any"}
	case strings.HasPrefix(t, "'"):
		n = p.literalOrRange()
	case t == "[":
		panic("character sets [..] are not supported by this reader")
	case t != "" && (t[0] == '_' || (t[0] >= 'A' && t[0] <= 'Z') || (t[0] >= 'a' && t[0] <= 'z')):
		n = &LNode{Kind: "ref", Name: t}
		p.i++
	default:
		panic("unexpected token " + t)
	}
	loop := false // the previous suffix was '*' or '+'
	for {
		switch p.peek() {
		case "?":
			// "x*?" / "x+?" (non-greedy) describe the same language as the greedy form
			if loop {
				loop = false
				p.i++
				continue
			}
			n = &LNode{Kind: "opt", Kids: []*LNode{n}}
		case "*":
			n = &LNode{Kind: "star", Kids: []*LNode{n}}
			loop = true
			p.i++
			continue
		case "+":
			n = &LNode{Kind: "plus", Kids: []*LNode{n}}
			loop = true
			p.i++
			continue
		default:
			return n
		}
		loop = false
		p.i++
	}
}

func (p *lexParser) elemNoSuffix() *LNode {
	t := p.peek()
	switch {
	case t == "(":
		p.i++
		n := p.alt()
		if p.peek() != ")" {
			panic("expected ')'")
		}
		p.i++
		return n
	case strings.HasPrefix(t, "'"):
		return p.literalOrRange()
	}
	panic("unsupported operand of ~: " + t)
}

func (p *lexParser) literalOrRange() *LNode {
	lit, err := unescapeG4(p.peek())
	if err != nil {
		panic(err.Error())
	}
	p.i++
	if p.peek() == ".." {
		p.i++
		hi, err := unescapeG4(p.peek())
		if err != nil || len(hi) != 1 || len(lit) != 1 {
			panic("bad range")
		}
		p.i++
		return &LNode{Kind: "range", Lo: lit[0], Hi: hi[0]}
	}
	return &LNode{Kind: "lit", Lit: lit}
}

// ParseLexerGrammar parses a lexer grammar.
func ParseLexerGrammar(src string) (g *LexGrammar, err error) {
	defer func() {
		if r := recover(); r != nil {
			err = fmt.Errorf("lexer grammar: %v", r)
		}
	}()
	toks := tokenize(src)
	p := &lexParser{toks: toks}
	g = &LexGrammar{ByName: map[string]*LexRule{}, Modes: []string{"DEFAULT_MODE"}}
	// header "lexer grammar X;"
	for p.peek() != ";" && p.peek() != "" {
		p.i++
	}
	p.i++
	mode := "DEFAULT_MODE"
	for p.peek() != "" {
		switch p.peek() {
		case "tokens", "channels", "options":
			for p.peek() != "}" && p.peek() != "" {
				p.i++
			}
			p.i++
			continue
		case "mode":
			mode = p.toks[p.i+1]
			g.Modes = append(g.Modes, mode)
			p.i += 3
			continue
		}
		r := &LexRule{Mode: mode}
		if p.peek() == "fragment" {
			r.Fragment = true
			p.i++
		}
		r.Name = p.peek()
		p.i++
		if p.peek() != ":" {
			panic("expected ':' after " + r.Name)
		}
		p.i++
		r.Body = p.alt()
		if p.peek() == "->" {
			p.i++
			for p.peek() != ";" && p.peek() != "" {
				c := LexCmd{Name: p.peek()}
				p.i++
				if p.peek() == "(" {
					c.Arg = p.toks[p.i+1]
					p.i += 3
				}
				r.Commands = append(r.Commands, c)
				if p.peek() == "," {
					p.i++
				}
			}
		}
		if p.peek() != ";" {
			panic("expected ';' at the end of " + r.Name + ", found " + p.peek())
		}
		p.i++
		g.Rules = append(g.Rules, r)
		g.ByName[r.Name] = r
	}
	return g, nil
}

// ---- language of a rule ----------------------------------------------------------------------

// ProbeChars are the characters "any" / "not" elements are sampled from: one or two representatives of every class
// the OpenFGA lexer distinguishes, plus a few outsiders.
var ProbeChars = []rune("aZ09_ \t\n\r\f\"'\\`#/*-.+:,<>()[]{}!?%&|=xXuUeErRbBfnvté中\u00a0\x00")

func (g *LexGrammar) charSet(n *LNode) (map[rune]bool, [][2]rune, bool) {
	// the set denoted by an operand of "~": single characters and ranges
	chars := map[rune]bool{}
	var ranges [][2]rune
	var walk func(n *LNode) bool
	walk = func(n *LNode) bool {
		switch n.Kind {
		case "lit":
			if len(n.Lit) != 1 {
				return false
			}
			chars[n.Lit[0]] = true
		case "range":
			ranges = append(ranges, [2]rune{n.Lo, n.Hi})
		case "alt":
			for _, k := range n.Kids {
				if !walk(k) {
					return false
				}
			}
		case "seq":
			if len(n.Kids) != 1 {
				return false
			}
			return walk(n.Kids[0])
		case "ref":
			r := g.ByName[n.Name]
			if r == nil {
				return false
			}
			return walk(r.Body)
		default:
			return false
		}
		return true
	}
	ok := walk(n)
	return chars, ranges, ok
}

func inSet(c rune, chars map[rune]bool, ranges [][2]rune) bool {
	if chars[c] {
		return true
	}
	for _, r := range ranges {
		if c >= r[0] && c <= r[1] {
			return true
		}
	}
	return false
}

// Sample draws one string of rule name's language. ok=false when the grammar uses something unsupported.
func (g *LexGrammar) Sample(c Chooser, name string, budget int) (out []rune, ok bool) {
	ok = true
	steps := 0
	var gen func(n *LNode, depth int)
	gen = func(n *LNode, depth int) {
		steps++
		if !ok || depth > 40 {
			ok = ok && depth <= 40
			return
		}
		short := steps > budget
		switch n.Kind {
		case "lit":
			out = append(out, n.Lit...)
		case "range":
			out = append(out, n.Lo+rune(c.Intn(int(n.Hi-n.Lo)+1, "inRange")))
		case "any":
			out = append(out, ProbeChars[c.Intn(len(ProbeChars), "anyChar")])
		case "not":
			chars, ranges, good := g.charSet(n.Kids[0])
			if !good {
				ok = false
				return
			}
			var cand []rune
			for _, p := range ProbeChars {
				if !inSet(p, chars, ranges) {
					cand = append(cand, p)
				}
			}
			if len(cand) == 0 {
				ok = false
				return
			}
			out = append(out, cand[c.Intn(len(cand), "notChar")])
		case "ref":
			r := g.ByName[n.Name]
			if r == nil {
				ok = false
				return
			}
			gen(r.Body, depth+1)
		case "seq":
			for _, k := range n.Kids {
				gen(k, depth)
			}
		case "alt":
			if short {
				gen(n.Kids[0], depth)
			} else {
				gen(n.Kids[c.Intn(len(n.Kids), "alt")], depth)
			}
		case "opt":
			if !short && c.Intn(2, "opt") == 1 {
				gen(n.Kids[0], depth)
			}
		case "star", "plus":
			k := 0
			if !short {
				k = c.Intn(4, "reps")
			}
			if n.Kind == "plus" && k == 0 {
				k = 1
			}
			for i := 0; i < k; i++ {
				gen(n.Kids[0], depth)
			}
		}
	}
	r := g.ByName[name]
	if r == nil {
		return nil, false
	}
	gen(r.Body, 0)
	return out, ok
}

// Matches reports whether s is in the language of rule name (whole-string match).
func (g *LexGrammar) Matches(name string, s []rune) (matched bool, ok bool) {
	ok = true
	type key struct {
		n   *LNode
		pos int
	}
	memo := map[key][]int{}
	active := map[key]bool{}
	var ends func(n *LNode, pos int) []int
	union := func(a []int, b []int) []int {
		seen := map[int]bool{}
		for _, x := range a {
			seen[x] = true
		}
		for _, x := range b {
			if !seen[x] {
				seen[x] = true
				a = append(a, x)
			}
		}
		return a
	}
	ends = func(n *LNode, pos int) []int {
		k := key{n, pos}
		if v, done := memo[k]; done {
			return v
		}
		if active[k] {
			return nil // left recursion without progress: contributes nothing new
		}
		active[k] = true
		defer delete(active, k)
		var out []int
		switch n.Kind {
		case "lit":
			if pos+len(n.Lit) <= len(s) && string(s[pos:pos+len(n.Lit)]) == string(n.Lit) {
				out = []int{pos + len(n.Lit)}
			}
		case "range":
			if pos < len(s) && s[pos] >= n.Lo && s[pos] <= n.Hi {
				out = []int{pos + 1}
			}
		case "any":
			if pos < len(s) {
				out = []int{pos + 1}
			}
		case "not":
			chars, ranges, good := g.charSet(n.Kids[0])
			if !good {
				ok = false
				return nil
			}
			if pos < len(s) && !inSet(s[pos], chars, ranges) {
				out = []int{pos + 1}
			}
		case "ref":
			r := g.ByName[n.Name]
			if r == nil {
				ok = false
				return nil
			}
			out = ends(r.Body, pos)
		case "seq":
			cur := []int{pos}
			for _, kid := range n.Kids {
				var next []int
				for _, p := range cur {
					next = union(next, ends(kid, p))
				}
				cur = next
				if len(cur) == 0 {
					break
				}
			}
			out = cur
		case "alt":
			for _, kid := range n.Kids {
				out = union(out, ends(kid, pos))
			}
		case "opt":
			out = union([]int{pos}, ends(n.Kids[0], pos))
		case "star", "plus":
			reach := map[int]bool{}
			var frontier []int
			if n.Kind == "star" {
				reach[pos] = true
				out = append(out, pos)
			}
			frontier = []int{pos}
			for len(frontier) > 0 {
				var next []int
				for _, p := range frontier {
					for _, e := range ends(n.Kids[0], p) {
						if !reach[e] {
							reach[e] = true
							out = append(out, e)
							if e > p {
								next = append(next, e)
							}
						}
					}
				}
				frontier = next
			}
		}
		memo[k] = out
		return out
	}
	r := g.ByName[name]
	if r == nil {
		return false, false
	}
	for _, e := range ends(r.Body, 0) {
		if e == len(s) {
			return true, ok
		}
	}
	return false, ok
}
