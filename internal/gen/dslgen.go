package gen

import (
	"strings"

	"pgregory.net/rapid"
)

// DSLOpts tunes the "dsl"/"json" profiles used by the transformer properties.
type DSLOpts struct {
	Rich        bool // identifiers from every lexer shape incl. keywords
	JSONOnly    bool // "json" profile: `this` anywhere and repeated, single-child operators
	MaxTypes    int  // default 4
	MaxRels     int  // default 4
	MaxDepth    int  // default 3 (operator nesting)
	Conditions  bool
	MultiLine   bool // allow multi-line condition expressions
	RestrNoThis bool // json profile: restrictions on relations without `this`
	Scale       bool // one model in eight is scaled up along one dimension (InflateDSL): operands, nesting depth, relations, types, restrictions, conditions, parameters, expression length, name length
}

var ParamScalars = []string{"bool", "string", "int", "uint", "double", "duration", "timestamp", "ipaddress"}

type dslCtx struct {
	t     *rapid.T
	o     DSLOpts
	types []string
	rels  []string // relation names of the current type
	conds []string
	nThis int
	maxD  int
}

// DSLModel draws a model for the transformer properties (plain, non-modular).
func DSLModel(t *rapid.T, o DSLOpts) *Model {
	if o.MaxTypes == 0 {
		o.MaxTypes = 4
	}
	if o.MaxRels == 0 {
		o.MaxRels = 4
	}
	if o.MaxDepth == 0 {
		o.MaxDepth = 3
	}
	m := &Model{Schema: rapid.SampledFrom([]string{"1.1", "1.1", "1.1", "1.2", "1.0", "10.25"}).Draw(t, "schema")}
	c := &dslCtx{t: t, o: o, maxD: o.MaxDepth}
	nT := rapid.IntRange(0, o.MaxTypes).Draw(t, "nTypes")
	usedT := map[string]bool{}
	for i := 0; i < nT; i++ {
		c.types = append(c.types, UniqueIdent(t, IdentExtended, o.Rich, usedT, "type"))
	}
	if tw := caseTwin(t, c.types, usedT, "typeTwin"); tw != "" {
		c.types = append(c.types, tw)
		nT++
	}
	if o.Conditions {
		nC := rapid.IntRange(0, 3).Draw(t, "nConds")
		usedC := map[string]bool{}
		for i := 0; i < nC; i++ {
			m.Conds = append(m.Conds, c.condition(usedC))
			c.conds = append(c.conds, m.Conds[i].Name)
		}
		if o.MultiLine && rapid.IntRange(0, 5).Draw(t, "keywordLines") == 0 {
			// lines that look like declarations and are none: inside a condition the six keywords are ordinary parameter
			// names, and a multi-line body may continue with "module in ...", "type == ..." at the start of a line
			kw := rapid.SampledFrom([]string{"module", "module", "module", "type", "model", "schema", "extend", "relation"}).Draw(t, "keywordParam")
			cd := Condition{Name: UniqueIdent(t, IdentPlain, o.Rich, usedC, "cond"), Params: []Param{{Name: kw, Type: "int"}, {Name: "x_list", Type: "list", Elem: "int"}}}
			cd.Expr = "x_list.size() > 1 &&\n  " + kw + " in x_list ||\n" + kw + " == 3 ||\n\t" + kw + " < 0"
			m.Conds = append(m.Conds, cd)
			c.conds = append(c.conds, cd.Name)
		}
		if tw := caseTwinKind(t, c.conds, usedC, "condTwin", IdentPlain); tw != "" {
			cd := c.condition(map[string]bool{})
			cd.Name = tw
			m.Conds = append(m.Conds, cd)
			c.conds = append(c.conds, tw)
		}
	}
	for i := 0; i < nT; i++ {
		td := TypeDef{Name: c.types[i]}
		nR := rapid.IntRange(0, o.MaxRels).Draw(t, "nRels")
		usedR := map[string]bool{}
		c.rels = nil
		for j := 0; j < nR; j++ {
			c.rels = append(c.rels, UniqueIdent(t, IdentExtended, o.Rich, usedR, "rel"))
		}
		if tw := caseTwin(t, c.rels, usedR, "relTwin"); tw != "" {
			c.rels = append(c.rels, tw)
			nR++
		}
		for j := 0; j < nR; j++ {
			c.nThis = 0
			r := Relation{Name: c.rels[j]}
			if o.JSONOnly {
				r.Rw = c.jsonRewrite(0)
			} else {
				r.Rw = c.dslRewrite(0, true)
			}
			if c.nThis > 0 || (o.RestrNoThis && rapid.IntRange(0, 4).Draw(t, "rnt") == 0) {
				n := rapid.IntRange(1, 4).Draw(t, "nRestr")
				for k := 0; k < n; k++ {
					r.Restr = append(r.Restr, c.restriction())
				}
			}
			td.Rels = append(td.Rels, r)
		}
		m.Types = append(m.Types, td)
	}
	if o.Scale && rapid.IntRange(0, 7).Draw(t, "scale") == 0 {
		m.Scaled = InflateDSL(t, m, o.JSONOnly)
	}
	if o.Rich && rapid.IntRange(0, 5).Draw(t, "specialNames") == 0 {
		// two names that a derived key (hash, prefix, case, digits, ...) makes equal, see names.go
		p := DrawNamePair(t)
		if what := ApplyNamePair(t, m, p, nil); what != "" {
			m.Named = p.Kind + ":" + what
		}
	}
	return m
}

func (c *dslCtx) name(label string) string {
	// mostly existing relation names, sometimes a fresh identifier
	if len(c.rels) > 0 && rapid.IntRange(0, 4).Draw(c.t, label+"_ex") > 0 {
		return rapid.SampledFrom(c.rels).Draw(c.t, label)
	}
	return Ident(c.t, IdentExtended, c.o.Rich, label)
}

func (c *dslCtx) restriction() Restriction {
	x := Restriction{}
	if len(c.types) > 0 && rapid.IntRange(0, 4).Draw(c.t, "rt_ex") > 0 {
		x.Type = rapid.SampledFrom(c.types).Draw(c.t, "rtype")
	} else {
		x.Type = Ident(c.t, IdentExtended, c.o.Rich, "rtype")
	}
	switch rapid.IntRange(0, 5).Draw(c.t, "rkind") {
	case 0, 1:
		x.Wild = true
	case 2, 3:
		x.Rel = c.name("rrel")
	}
	if len(c.conds) > 0 && rapid.IntRange(0, 2).Draw(c.t, "rcond") == 0 {
		x.Cond = rapid.SampledFrom(c.conds).Draw(c.t, "rcondn")
	}
	return x
}

func (c *dslCtx) leaf() *Rewrite {
	if rapid.IntRange(0, 2).Draw(c.t, "leafk") == 0 {
		return &Rewrite{Kind: TTU, Rel: c.name("ttu_rel"), Tupleset: c.name("ttu_ts")}
	}
	return &Rewrite{Kind: Computed, Rel: c.name("comp")}
}

// dslRewrite: what the DSL can express. first = this subtree is in a "first position" (root, or
// first operand of a first-position operator), the only place a direct assignment may stand.
func (c *dslCtx) dslRewrite(depth int, first bool) *Rewrite {
	k := rapid.IntRange(0, 9).Draw(c.t, "kind")
	if depth >= c.maxD && k >= 5 {
		k %= 5
	}
	switch {
	case k <= 1:
		if first && c.nThis == 0 {
			c.nThis++
			return &Rewrite{Kind: This}
		}
		return c.leaf()
	case k <= 4:
		return c.leaf()
	case k <= 6, k == 7:
		kind := Union
		if k == 7 || (k == 6 && rapid.Bool().Draw(c.t, "isect")) {
			kind = Intersection
		}
		n := rapid.IntRange(2, 4).Draw(c.t, "n")
		wide := rapid.IntRange(0, 7).Draw(c.t, "wide") == 0
		if wide {
			// many operands at one level (5..15), the last one drawn freely (often a parenthesised group)
			n = rapid.IntRange(5, 15).Draw(c.t, "nWide")
		}
		r := &Rewrite{Kind: kind}
		for i := 0; i < n; i++ {
			if wide && i >= 3 && i < n-1 {
				r.Kids = append(r.Kids, c.leaf())
				continue
			}
			r.Kids = append(r.Kids, c.dslRewrite(depth+1, first && i == 0))
		}
		return r
	default:
		return &Rewrite{Kind: Difference, Kids: []*Rewrite{c.dslRewrite(depth+1, first), c.dslRewrite(depth+1, false)}}
	}
}

// jsonRewrite: any tree the JSON/protobuf model can carry.
func (c *dslCtx) jsonRewrite(depth int) *Rewrite {
	k := rapid.IntRange(0, 11).Draw(c.t, "kind")
	if depth >= c.maxD && k >= 6 {
		k %= 6
	}
	switch {
	case k <= 1:
		if c.nThis < 3 && (c.nThis == 0 || rapid.IntRange(0, 2).Draw(c.t, "again") == 0) {
			c.nThis++
			return &Rewrite{Kind: This}
		}
		return c.leaf()
	case k <= 5:
		return c.leaf()
	case k <= 9:
		kind := Union
		if k >= 8 {
			kind = Intersection
		}
		n := rapid.IntRange(1, 4).Draw(c.t, "n")
		r := &Rewrite{Kind: kind}
		for i := 0; i < n; i++ {
			r.Kids = append(r.Kids, c.jsonRewrite(depth+1))
		}
		return r
	default:
		return &Rewrite{Kind: Difference, Kids: []*Rewrite{c.jsonRewrite(depth + 1), c.jsonRewrite(depth + 1)}}
	}
}

func (c *dslCtx) condition(used map[string]bool) Condition {
	cd := Condition{Name: UniqueIdent(c.t, IdentPlain, c.o.Rich, used, "cond")}
	nP := rapid.IntRange(1, 4).Draw(c.t, "nParams")
	usedP := map[string]bool{}
	for i := 0; i < nP; i++ {
		p := Param{Name: UniqueIdent(c.t, IdentParam, c.o.Rich, usedP, "param")}
		switch rapid.IntRange(0, 5).Draw(c.t, "ptype") {
		case 0:
			p.Type, p.Elem = "list", rapid.SampledFrom(ParamScalars).Draw(c.t, "pelem")
		case 1:
			p.Type, p.Elem = "map", rapid.SampledFrom(ParamScalars).Draw(c.t, "pelem")
		default:
			p.Type = rapid.SampledFrom(ParamScalars).Draw(c.t, "pscalar")
		}
		cd.Params = append(cd.Params, p)
	}
	if tw := caseTwinParam(c.t, cd.Params); tw != nil {
		cd.Params = append(cd.Params, *tw)
	}
	cd.Expr = Expr(c.t, cd.Params, c.o.MultiLine)
	if rapid.IntRange(0, 14).Draw(c.t, "emptyBody") == 0 {
		cd.Expr = "" // an empty condition body is a sentence of the grammar
	}
	return cd
}

// caseTwin returns, for one name list in ten, a name that differs from one of the given names only in the case of its
// first letter ("viewer" / "Viewer"): different names for the library, equal under case folding.
func caseTwin(t *rapid.T, names []string, used map[string]bool, label string) string {
	return caseTwinKind(t, names, used, label, IdentExtended)
}

// caseTwinKind: as caseTwin; for IdentPlain names (conditions, parameters) the twin must not be one of the keywords that are
// usable as type/relation names only ("Type" -> "type" is no condition name: conditionName is IDENTIFIER).
func caseTwinKind(t *rapid.T, names []string, used map[string]bool, label string, kind IdentKind) string {
	if len(names) == 0 || rapid.IntRange(0, 9).Draw(t, label) != 0 {
		return ""
	}
	n := names[rapid.IntRange(0, len(names)-1).Draw(t, label+"Of")]
	for i, r := range n {
		var f string
		switch {
		case r >= 'a' && r <= 'z':
			f = n[:i] + string(r-32) + n[i+1:]
		case r >= 'A' && r <= 'Z':
			f = n[:i] + string(r+32) + n[i+1:]
		default:
			continue
		}
		if used[f] || reservedDefault[f] || reservedCondMode[f] || !singleToken(f) {
			return ""
		}
		if kind == IdentPlain && isKeywordName(f) {
			return ""
		}
		used[f] = true
		return f
	}
	return ""
}

func caseTwinParam(t *rapid.T, ps []Param) *Param {
	used := map[string]bool{}
	var names []string
	for _, p := range ps {
		used[p.Name] = true
		names = append(names, p.Name)
	}
	tw := caseTwinKind(t, names, used, "paramTwin", IdentPlain)
	if tw == "" {
		return nil
	}
	return &Param{Name: tw, Type: "int"}
}

var exprLiterals = []string{
	"1", "42", "0x1F", "3u", "2.5", "1e3", ".5", "1.25e-2", "true", "false", "null",
	`"abc"`, `'x y'`, `"a\"b"`, `r"raw\d"`, `b"bytes"`, `"""tri"ple"""`, `'it''s'`, `"é\n"`, `"(])"`, `"a, b"`,
	`duration("1h")`, `timestamp("2024-01-01T00:00:00Z")`, `ipaddress("10.0.0.1")`,
}

var exprBinOps = []string{"==", "!=", "<", "<=", ">=", ">", "+", "-", "*", "/", "%", "in"}

// Expr draws condition expression text from a CEL-like token grammar. It never contains '}',
// '#', "//" or a line break unless multiLine is set, and never starts or ends with whitespace.
func Expr(t *rapid.T, params []Param, multiLine bool) string {
	var operand func(d int) string
	pname := func() string { return rapid.SampledFrom(params).Draw(t, "ep").Name }
	operand = func(d int) string {
		k := rapid.IntRange(0, 9).Draw(t, "eok")
		if d >= 2 && k >= 6 {
			k %= 6
		}
		switch k {
		case 0, 1, 2:
			return pname()
		case 3, 4:
			return rapid.SampledFrom(exprLiterals).Draw(t, "elit")
		case 5:
			return pname() + "." + rapid.SampledFrom([]string{"size()", "field", "startsWith(\"a\")", "contains('x')", "type", "model"}).Draw(t, "esel")
		case 6:
			return "!" + operand(d+1)
		case 7:
			return "(" + operand(d+1) + " " + rapid.SampledFrom(exprBinOps).Draw(t, "ebo") + " " + operand(d+1) + ")"
		case 8:
			return "[" + operand(d+1) + "," + rapid.SampledFrom([]string{" ", "", "  "}).Draw(t, "esp") + operand(d+1) + "]"
		default:
			return pname() + "[" + rapid.SampledFrom([]string{"0", `"k"`, "1u"}).Draw(t, "eidx") + "]" + rapid.SampledFrom([]string{"", " ? 1 : 2", "-1", " {"}).Draw(t, "etail")
		}
	}
	clause := func() string {
		a := operand(0)
		if rapid.IntRange(0, 3).Draw(t, "ebin") > 0 {
			sp := rapid.SampledFrom([]string{" ", " ", "  ", "\t"}).Draw(t, "esp2")
			a += sp + rapid.SampledFrom(exprBinOps).Draw(t, "ebo2") + sp + operand(0)
		}
		return a
	}
	n := rapid.IntRange(1, 3).Draw(t, "eclauses")
	var parts []string
	for i := 0; i < n; i++ {
		parts = append(parts, clause())
	}
	seps := []string{" && ", " || ", " &&  "}
	if multiLine {
		seps = append(seps, " &&\n  ", "\n    || ", " &&\n\n  ", "\n&& ", " &&\r\n  ", "\r\n|| ")
	}
	s := parts[0]
	for _, p := range parts[1:] {
		s += rapid.SampledFrom(seps).Draw(t, "esep") + p
	}
	if strings.Contains(s, "//") || strings.Contains(s, "#") || strings.Contains(s, "}") {
		// cannot happen with the pools above; keep the generator sound if they are edited
		s = strings.NewReplacer("//", "/ /", "#", "", "}", "").Replace(s)
	}
	return s
}
