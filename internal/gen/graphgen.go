package gen

import (
	"pgregory.net/rapid"
)

// GraphOpts tunes the "graph" profile: models biased towards being well-founded so that the
// weighted-graph builder accepts a useful fraction, with boosted interesting classes.
type GraphOpts struct {
	WildBoost   bool // raise p(wildcard restriction) to ~0.4 (C11)
	Hazards     bool // allow TTU on relations without restrictions / unknown parents / undefined relations (C05)
	MultiThis   bool // allow several direct assignments in one rewrite (JSON-only shapes)
	DupRestr    bool // allow duplicated / mixed conditioned restrictions (C10)
	CycleBoost  bool // raise p(self / forward references) so that cycles of every kind are frequent
	MaxRel      int  // relations per object type (default 4)
	SmallModels bool // fewer types/relations (used where orders are enumerated exhaustively)
	Big         bool // up to 4 object types x 6 relations, operator nesting one level deeper (thorough tier)
	Interlock   bool // in a fifth of the models, redefine the relations of one object type as a random web of interlocking tuple cycles
	Names       bool // in a quarter of the models, rename types and relations: upper case, names that differ only in case, names starting with "R" (the prefix of the builder's internal cycle placeholders), '-', '.', '/' inside names
	Deep        bool // rarely (1 in 25) append a chain of 26..70 relations, each one hop or rewrite away from the next
	Depth3      bool // in a sixth of the models allow three operator levels (cousin operators) also outside the Big profile
	SingleChild bool // API-written models: unions / intersections with a single operand (one operator in ten)
	Scale       bool // one model in eight is scaled up along one dimension (InflateGraph) to counts around 8, 16, 32 (chains: up to 129)
	SparseMeta  bool // API-written models: one model in six carries relation metadata only for relations with type restrictions
	NoRestr     bool // API-written models: a direct assignment without any type restriction (one assignable relation in thirty)
}

var (
	gTermTypes = []string{"user", "emp", "bot", "svc"}
	gObjTypes  = []string{"doc", "fld", "grp", "org"}
	gRelNames  = []string{"a", "b", "c", "d", "e", "f", "g"}
)

type graphCtx struct {
	t      *rapid.T
	o      GraphOpts
	rels   []string // relation names of every object type
	cur    int      // index of the relation being generated
	nThis  int
	depth3 bool
}

// GraphModel draws a model of the graph profile. Every object type has the same relation names
// (so that TTU targets exist) plus a dedicated tupleset relation "p".
func GraphModel(t *rapid.T, o GraphOpts) *Model {
	m := &Model{Schema: "1.1"}
	maxT, maxO, maxRel := 3, 3, 4
	if o.MaxRel > 0 {
		maxRel = o.MaxRel
	}
	if o.SmallModels {
		maxT, maxO, maxRel = 2, 2, 3
	}
	if o.WildBoost {
		maxT = 4 // wildcard lists of length >= 3 need enough public types
	}
	if o.Big {
		maxO, maxRel = 4, 6
	}
	nTerm := rapid.IntRange(1, maxT).Draw(t, "nTerm")
	nObj := rapid.IntRange(1, maxO).Draw(t, "nObj")
	nRel := rapid.IntRange(1, maxRel).Draw(t, "nRel")
	for i := 0; i < nTerm; i++ {
		m.Types = append(m.Types, TypeDef{Name: gTermTypes[i]})
	}
	allTypes := append([]string{}, gTermTypes[:nTerm]...)
	allTypes = append(allTypes, gObjTypes[:nObj]...)
	useCond := false
	c := &graphCtx{t: t, o: o, rels: gRelNames[:nRel]}
	if o.Depth3 {
		c.depth3 = rapid.IntRange(0, 5).Draw(t, "depth3") == 0
	}
	for i := 0; i < nObj; i++ {
		td := TypeDef{Name: gObjTypes[i]}
		// tupleset relation
		{
			rd := Relation{Name: "p", Rw: &Rewrite{Kind: This}}
			n := rapid.IntRange(1, 3).Draw(t, "np")
			for k := 0; k < n; k++ {
				x := Restriction{Type: rapid.SampledFrom(gObjTypes[:nObj]).Draw(t, "ptyp")}
				if o.Hazards && rapid.IntRange(0, 79).Draw(t, "pterm") == 0 {
					x.Type = gTermTypes[0] // parent type lacking every relation
				}
				if rapid.IntRange(0, 7).Draw(t, "pc") == 0 {
					x.Cond, useCond = "c1", true
				}
				rd.Restr = append(rd.Restr, x)
				if rapid.IntRange(0, 5).Draw(t, "pdup") == 0 {
					// the same parent type again, conditioned (de-duplicated TTU edge), possibly before other parents
					y := x
					y.Cond, useCond = rapid.SampledFrom([]string{"c1", "c2"}).Draw(t, "pdupc"), true
					rd.Restr = append(rd.Restr, y)
				}
			}
			td.Rels = append(td.Rels, rd)
		}
		for j := 0; j < nRel; j++ {
			rd := Relation{Name: gRelNames[j]}
			c.cur, c.nThis = j, 0
			rd.Rw = c.rewrite(0)
			if c.nThis > 0 && o.NoRestr && rapid.IntRange(0, 29).Draw(t, "noRestr") == 0 {
				// no restriction at all: nothing can ever be assigned, the relation reaches no terminal type through it
			} else if c.nThis > 0 {
				maxRestr := 3
				if o.WildBoost {
					maxRestr = 5
				}
				n := rapid.IntRange(1, maxRestr).Draw(t, "nRestr")
				for k := 0; k < n; k++ {
					x := Restriction{Type: rapid.SampledFrom(allTypes).Draw(t, "rtyp")}
					isObj := false
					for _, ot := range gObjTypes {
						if ot == x.Type {
							isObj = true
						}
					}
					kind := rapid.IntRange(0, 9).Draw(t, "rkind")
					wildMax := 1
					if o.WildBoost {
						wildMax = 4
					}
					switch {
					case kind <= wildMax:
						x.Wild = true
					case kind <= 5 && isObj:
						x.Rel = rapid.SampledFrom(c.rels).Draw(t, "rrel")
					case kind == 6 && o.Hazards && rapid.IntRange(0, 9).Draw(t, "tu") == 0:
						x.Rel = "a" // userset of a (possibly terminal) type
					}
					if rapid.IntRange(0, 5).Draw(t, "rc") == 0 {
						x.Cond, useCond = rapid.SampledFrom([]string{"c1", "c2"}).Draw(t, "rcn"), true
					}
					rd.Restr = append(rd.Restr, x)
					if o.DupRestr && rapid.IntRange(0, 3).Draw(t, "dup") == 0 {
						y := x
						y.Cond = rapid.SampledFrom([]string{"", "c1", "c2"}).Draw(t, "dupc")
						if y.Cond != "" {
							useCond = true
						}
						rd.Restr = append(rd.Restr, y)
					}
				}
			}
			td.Rels = append(td.Rels, rd)
		}
		m.Types = append(m.Types, td)
	}
	if o.Interlock && nRel >= 3 && rapid.IntRange(0, 4).Draw(t, "interlock") == 0 {
		interlock(t, m, nTerm, nRel)
	}
	if useCond {
		m.Conds = []Condition{
			{Name: "c1", Params: []Param{{Name: "x", Type: "int"}}, Expr: "x > 1"},
			{Name: "c2", Params: []Param{{Name: "y", Type: "string"}}, Expr: "y == \"a\""},
		}
	}
	if o.Scale && rapid.IntRange(0, 7).Draw(t, "scale") == 0 {
		m.Scaled = InflateGraph(t, m)
	}
	if o.SparseMeta && rapid.IntRange(0, 5).Draw(t, "sparseMeta") == 0 {
		m.SparseMeta = true
	}
	if o.Deep && rapid.IntRange(0, 24).Draw(t, "deep") == 0 {
		deepChain(t, m)
	}
	if o.Names && rapid.IntRange(0, 3).Draw(t, "names") == 0 {
		renameGraphModel(t, m)
	} else if o.Names && rapid.IntRange(0, 7).Draw(t, "positionalName") == 0 {
		positionalName(t, m)
	} else if o.Names {
		keep := map[string]bool{"p": true, "zz": true}
		switch rapid.IntRange(0, 11).Draw(t, "specialNames") {
		case 0, 1:
			// two names that a derived key (hash, prefix, suffix, case, digits, ...) makes equal, see names.go
			p := DrawNamePair(t)
			if what := ApplyNamePair(t, m, p, keep); what != "" {
				m.Named = p.Kind + ":" + what
			}
		case 2:
			if GlueWithoutSeparator(t, m, keep) {
				m.Named = "glue0"
			}
		case 3:
			if mirrorTTU(m) {
				m.Named = "mirror-ttu"
			}
		}
	}
	return m
}

// positionalName renames one relation b to "<a>.<N>" where relation a of the same type has, at operand position N of
// its outermost operator, a nested operator of the kind of b's outermost operator: a legal name that reads like the
// position of a nested operator (identity schemes built from names and positions must keep the two apart).
func positionalName(t *rapid.T, m *Model) {
	type cand struct{ b, name string }
	var cands []cand
	used := map[string]bool{}
	for _, td := range m.Types {
		for _, r := range td.Rels {
			used[r.Name] = true
		}
	}
	for _, td := range m.Types {
		for _, ra := range td.Rels {
			if !ra.Rw.IsOp() {
				continue
			}
			for pos, k := range ra.Rw.Kids {
				if !k.IsOp() || pos > 9 {
					continue
				}
				for _, rb := range td.Rels {
					if rb.Name != ra.Name && rb.Name != "p" && rb.Rw.IsOp() && rb.Rw.Kind == k.Kind {
						cands = append(cands, cand{rb.Name, ra.Name + "." + string(rune('0'+pos))})
					}
				}
			}
		}
	}
	if len(cands) == 0 {
		return
	}
	c := cands[rapid.IntRange(0, len(cands)-1).Draw(t, "positionalPick")]
	if used[c.name] {
		return
	}
	for i := range m.Types {
		td := &m.Types[i]
		for j := range td.Rels {
			r := &td.Rels[j]
			if r.Name == c.b {
				r.Name = c.name
			}
			for k := range r.Restr {
				if r.Restr[k].Rel == c.b {
					r.Restr[k].Rel = c.name
				}
			}
			r.Rw.Walk(func(x *Rewrite, _ int) {
				if x.Rel == c.b {
					x.Rel = c.name
				}
				if x.Tupleset == c.b {
					x.Tupleset = c.name
				}
			})
		}
	}
}

// deepChain appends relations k00..kNN (26 <= N <= 70) to the first object type: each is one direct-userset hop, one
// tuple-to-userset hop or one computed rewrite away from the next, sometimes in a union with an earlier relation; the
// last one is assignable to the first terminal type. Well-founded by construction (no back references).
func deepChain(t *rapid.T, m *Model) {
	var td *TypeDef
	for i := range m.Types {
		if len(m.Types[i].Rels) > 0 {
			td = &m.Types[i]
			break
		}
	}
	if td == nil {
		return
	}
	// the tupleset must be able to stay inside the type for the tuple-to-userset hops of the chain
	td.Rels[0].Restr = append([]Restriction{{Type: td.Name}}, td.Rels[0].Restr...)
	n := rapid.IntRange(26, 70).Draw(t, "deepN")
	name := func(i int) string { return "k" + string(rune('0'+i/10)) + string(rune('0'+i%10)) }
	for i := 0; i < n; i++ {
		rd := Relation{Name: name(i)}
		if i == n-1 {
			rd.Rw, rd.Restr = &Rewrite{Kind: This}, []Restriction{{Type: m.Types[0].Name}}
		} else {
			switch rapid.IntRange(0, 3).Draw(t, "deepLink") {
			case 0:
				rd.Rw, rd.Restr = &Rewrite{Kind: This}, []Restriction{{Type: td.Name, Rel: name(i + 1)}}
			case 1:
				rd.Rw = &Rewrite{Kind: TTU, Rel: name(i + 1), Tupleset: "p"}
			default:
				rd.Rw = &Rewrite{Kind: Computed, Rel: name(i + 1)}
			}
			if rapid.IntRange(0, 5).Draw(t, "deepUnion") == 0 {
				other := &Rewrite{Kind: Computed, Rel: name(rapid.IntRange(i+1, n-1).Draw(t, "deepChord"))}
				if rd.Rw.Kind == This {
					rd.Rw = &Rewrite{Kind: Union, Kids: []*Rewrite{rd.Rw, other}}
				} else {
					rd.Rw = &Rewrite{Kind: Union, Kids: []*Rewrite{other, rd.Rw}}
				}
			}
		}
		td.Rels = append(td.Rels, rd)
	}
	// an entry point with an early name so that sorted start orders descend the whole chain
	if len(td.Rels) > 1 && rapid.Bool().Draw(t, "deepEntry") {
		td.Rels[1].Rw = &Rewrite{Kind: Union, Kids: []*Rewrite{td.Rels[1].Rw, {Kind: Computed, Rel: name(0)}}}
	}
}

var (
	gAltTerm = []string{"User", "R", "u-1", "x.y", "USER", "E", "union", "exclusion", "t1", "t01", "team-", "a--b", "service-account"}
	gAltObj  = []string{"Repo", "Role", "R", "Doc", "DOC", "d/1", "RR", "Rx-1", "union", "intersection", "exclusion", "group", "subgroup", "Release", "o1", "o01", "org-", "català", "查看者", "Århus"}
	gAltRel  = []string{"A", "R", "Ra", "a-b", "a.b", "B", "r/1", "Rel", "member", "members", "s1", "s01", "view-", "lectură", "閲覧"}
)

// renameGraphModel renames some types and relations consistently everywhere they are used. Names that differ from
// another name only in case are made on purpose ("doc"/"Doc"/"DOC", "a"/"A"); hazard names that are meant to be
// undefined stay undefined.
func renameGraphModel(t *rapid.T, m *Model) {
	tmap, rmap := map[string]string{}, map[string]string{}
	usedT, usedR := map[string]bool{}, map[string]bool{"zz": true}
	for _, td := range m.Types {
		usedT[td.Name] = true
		for _, r := range td.Rels {
			usedR[r.Name] = true
		}
	}
	for _, td := range m.Types {
		if rapid.IntRange(0, 1).Draw(t, "renT") == 0 {
			pool := gAltObj
			if len(td.Rels) == 0 {
				pool = gAltTerm
			}
			n := rapid.SampledFrom(pool).Draw(t, "newT")
			if rapid.IntRange(0, 2).Draw(t, "freshT") == 0 {
				// a name nobody chose: whatever is keyed by a hash, a first letter or the length of a name sees many
				// different names over a run
				n = rapid.StringMatching(`[a-zA-Z][a-zA-Z0-9_]{0,9}`).Draw(t, "freshTName")
			}
			if !usedT[n] && !reservedDefault[n] && n != "p" {
				usedT[n] = true
				tmap[td.Name] = n
			}
		}
	}
	var relNames []string
	seen := map[string]bool{}
	for _, td := range m.Types {
		for _, r := range td.Rels {
			if !seen[r.Name] && len(r.Name) == 1 { // the short pool names only: p and the chain names stay
				seen[r.Name] = true
				relNames = append(relNames, r.Name)
			}
		}
	}
	for _, rn := range relNames {
		if rapid.IntRange(0, 2).Draw(t, "renR") == 0 {
			n := rapid.SampledFrom(gAltRel).Draw(t, "newR")
			if rapid.IntRange(0, 2).Draw(t, "freshR") == 0 {
				n = rapid.StringMatching(`[a-zA-Z][a-zA-Z0-9_]{0,9}`).Draw(t, "freshRName")
			}
			if !usedR[n] && !reservedDefault[n] && n != "p" && n != "zz" {
				usedR[n] = true
				rmap[rn] = n
			}
		}
	}
	// names built from other names: "<relation>.<digit>" (a position-like suffix is a legal part of a name) and pairs
	// whose concatenations coincide ("k"+"xz" == "kx"+"z": keys glued together without a separator collide)
	if len(relNames) >= 2 {
		switch rapid.IntRange(0, 5).Draw(t, "derivedNames") {
		case 0, 2:
			a := rapid.IntRange(0, len(relNames)-1).Draw(t, "derivA")
			b := rapid.IntRange(0, len(relNames)-1).Draw(t, "derivB")
			base := relNames[a]
			if n, ok := rmap[base]; ok {
				base = n
			}
			digit := rapid.SampledFrom([]string{"0", "1", "2", "3"}).Draw(t, "derivDigit")
			// prefer a coincidence that means something: relation b's outermost operator has the kind of the operator
			// nested at operand position N of relation a's outermost operator -> b is named "<a>.<N>"
			{
				for _, td := range m.Types {
					var ra, rb *Rewrite
					for i := range td.Rels {
						if td.Rels[i].Name == relNames[a] {
							ra = td.Rels[i].Rw
						}
						if td.Rels[i].Name == relNames[b] {
							rb = td.Rels[i].Rw
						}
					}
					if ra != nil && rb != nil && ra.IsOp() && rb.IsOp() {
						for pos, k := range ra.Kids {
							if k.IsOp() && k.Kind == rb.Kind {
								digit = string(rune('0' + pos))
							}
						}
					}
				}
			}
			n := base + "." + digit
			if a != b && !usedR[n] {
				usedR[n] = true
				rmap[relNames[b]] = n
			}
		case 1:
			var tn []string
			for _, td := range m.Types {
				tn = append(tn, td.Name)
			}
			if len(tn) >= 2 {
				a := rapid.IntRange(0, len(relNames)-1).Draw(t, "glueA")
				b := rapid.IntRange(0, len(relNames)-1).Draw(t, "glueB")
				x := rapid.IntRange(0, len(tn)-1).Draw(t, "glueX")
				y := rapid.IntRange(0, len(tn)-1).Draw(t, "glueY")
				if a != b && x != y && !usedR["k"] && !usedR["kx"] && !usedT["xz"] && !usedT["z"] {
					usedR["k"], usedR["kx"], usedT["xz"], usedT["z"] = true, true, true, true
					rmap[relNames[a]], rmap[relNames[b]] = "k", "kx"
					tmap[tn[x]], tmap[tn[y]] = "xz", "z"
				}
			}
		}
	}
	T := func(s string) string {
		if n, ok := tmap[s]; ok {
			return n
		}
		return s
	}
	R := func(s string) string {
		if n, ok := rmap[s]; ok {
			return n
		}
		return s
	}
	for i := range m.Types {
		td := &m.Types[i]
		td.Name = T(td.Name)
		for j := range td.Rels {
			r := &td.Rels[j]
			r.Name = R(r.Name)
			for k := range r.Restr {
				r.Restr[k].Type = T(r.Restr[k].Type)
				if r.Restr[k].Rel != "" {
					r.Restr[k].Rel = R(r.Restr[k].Rel)
				}
			}
			r.Rw.Walk(func(x *Rewrite, _ int) {
				if x.Rel != "" {
					x.Rel = R(x.Rel)
				}
				if x.Tupleset != "" {
					x.Tupleset = R(x.Tupleset)
				}
			})
		}
	}
}

func (c *graphCtx) pickRel() string {
	acyc := 9
	if c.o.CycleBoost {
		acyc = 5
	}
	if c.cur > 0 && rapid.IntRange(0, 9).Draw(c.t, "acyc") < acyc {
		return rapid.SampledFrom(c.rels[:c.cur]).Draw(c.t, "crel")
	}
	if c.o.Hazards && rapid.IntRange(0, 59).Draw(c.t, "undef") == 0 {
		return "zz"
	}
	return rapid.SampledFrom(c.rels).Draw(c.t, "crel")
}

func (c *graphCtx) rewrite(depth int) *Rewrite {
	k := rapid.IntRange(0, 11).Draw(c.t, "kind")
	maxDepth := 2
	if c.o.Big || c.depth3 {
		maxDepth = 3
	}
	if depth >= maxDepth && k > 6 {
		k %= 7
	}
	switch {
	case k <= 2:
		if c.nThis == 0 || (c.o.MultiThis && rapid.IntRange(0, 3).Draw(c.t, "mt") == 0) {
			c.nThis++
			return &Rewrite{Kind: This}
		}
		if c.cur == 0 && !c.o.CycleBoost {
			return &Rewrite{Kind: TTU, Rel: rapid.SampledFrom(c.rels).Draw(c.t, "trel"), Tupleset: "p"}
		}
		return &Rewrite{Kind: Computed, Rel: c.pickRel()}
	case k <= 4:
		if c.cur == 0 && !c.o.CycleBoost && rapid.IntRange(0, 9).Draw(c.t, "c0") < 8 {
			// the first relation has no earlier relation to refer to: a computed reference would
			// almost always close a rewrite cycle, so prefer a tuple-to-userset here
			return &Rewrite{Kind: TTU, Rel: rapid.SampledFrom(c.rels).Draw(c.t, "trel"), Tupleset: "p"}
		}
		return &Rewrite{Kind: Computed, Rel: c.pickRel()}
	case k <= 6:
		ts := "p"
		if c.o.Hazards && rapid.IntRange(0, 49).Draw(c.t, "ts") == 0 {
			ts = rapid.SampledFrom([]string{"a", "zz", "b"}).Draw(c.t, "tsn")
		}
		return &Rewrite{Kind: TTU, Rel: rapid.SampledFrom(c.rels).Draw(c.t, "trel"), Tupleset: ts}
	case k <= 8:
		n := rapid.IntRange(2, 3).Draw(c.t, "n")
		if c.o.SingleChild && rapid.IntRange(0, 9).Draw(c.t, "single") == 0 {
			n = 1
		}
		r := &Rewrite{Kind: Union}
		for i := 0; i < n; i++ {
			r.Kids = append(r.Kids, c.rewrite(depth+1))
		}
		c.twins(r, depth)
		return r
	case k <= 10:
		n := rapid.IntRange(2, 3).Draw(c.t, "n")
		if c.o.SingleChild && rapid.IntRange(0, 9).Draw(c.t, "single") == 0 {
			n = 1
		}
		r := &Rewrite{Kind: Intersection}
		for i := 0; i < n; i++ {
			r.Kids = append(r.Kids, c.rewrite(depth+1))
		}
		c.twins(r, depth)
		return r
	default:
		r := &Rewrite{Kind: Difference, Kids: []*Rewrite{c.rewrite(depth + 1), c.rewrite(depth + 1)}}
		c.twins(r, depth)
		return r
	}
}

// twins: in a fifth of the operators below the depth limit, two operands are replaced by operators of the SAME kind
// over fresh leaves ("(b and c) or (d and e)"): sibling occurrences of one operator kind are distinct nodes with their
// own operands, which an identity scheme derived from the parent or from the position can confuse.
func (c *graphCtx) twins(r *Rewrite, depth int) {
	maxDepth := 2
	if c.o.Big || c.depth3 {
		maxDepth = 3
	}
	if depth+1 >= maxDepth || rapid.IntRange(0, 4).Draw(c.t, "twins") != 0 {
		return
	}
	kind := rapid.SampledFrom([]string{Union, Intersection, Difference}).Draw(c.t, "twinKind")
	leaf := func() *Rewrite {
		if c.cur > 0 && rapid.Bool().Draw(c.t, "twinLeafComputed") {
			return &Rewrite{Kind: Computed, Rel: rapid.SampledFrom(c.rels[:c.cur]).Draw(c.t, "twinRel")}
		}
		return &Rewrite{Kind: TTU, Rel: rapid.SampledFrom(c.rels).Draw(c.t, "twinTTU"), Tupleset: "p"}
	}
	for i := 0; i < 2 && i < len(r.Kids); i++ {
		if r.Kids[i].CountThis() > 0 {
			continue // keep the direct assignments where they were drawn (nThis bookkeeping)
		}
		r.Kids[i] = &Rewrite{Kind: kind, Kids: []*Rewrite{leaf(), leaf()}}
	}
}

// interlock redefines relations a.. of the first object type as unions whose operands reach each other through
// tuple hops (userset restrictions, tuple-to-userset) in a random, mostly strongly connected pattern, with computed
// chords pointing only to later relations (so that no tuple-free cycle arises) and at least one exit to a user type:
// several interlocking tuple cycles with reconverging paths, nearly always a well-founded model.
func interlock(t *rapid.T, m *Model, nTerm, nRel int) {
	var td *TypeDef
	for i := range m.Types {
		if len(m.Types[i].Rels) > 0 {
			td = &m.Types[i]
			break
		}
	}
	if td == nil {
		return
	}
	k := rapid.IntRange(3, nRel).Draw(t, "ilk")
	for i := 0; i < k; i++ {
		rel := &td.Rels[1+i] // Rels[0] is the tupleset relation p
		u := &Rewrite{Kind: Union}
		var restr []Restriction
		if i == 0 || rapid.IntRange(0, 2).Draw(t, "ilexit") == 0 {
			x := Restriction{Type: gTermTypes[rapid.IntRange(0, nTerm-1).Draw(t, "ilterm")]}
			if rapid.IntRange(0, 3).Draw(t, "ilwild") == 0 {
				x.Wild = true
			}
			restr = append(restr, x)
		}
		for n, cnt := 0, rapid.IntRange(1, 2).Draw(t, "ilhops"); n < cnt; n++ {
			j := rapid.IntRange(0, k-1).Draw(t, "iltarget")
			if rapid.Bool().Draw(t, "ilttu") {
				u.Kids = append(u.Kids, &Rewrite{Kind: TTU, Rel: gRelNames[j], Tupleset: "p"})
			} else {
				restr = append(restr, Restriction{Type: td.Name, Rel: gRelNames[j]})
			}
		}
		if i < k-1 && rapid.IntRange(0, 2).Draw(t, "ilchord") == 0 {
			u.Kids = append(u.Kids, &Rewrite{Kind: Computed, Rel: gRelNames[rapid.IntRange(i+1, k-1).Draw(t, "ilchordTo")]})
		}
		if len(restr) > 0 {
			u.Kids = append([]*Rewrite{{Kind: This}}, u.Kids...)
		}
		switch len(u.Kids) {
		case 0:
			u = &Rewrite{Kind: This}
			restr = []Restriction{{Type: gTermTypes[0]}}
		case 1:
			u = u.Kids[0]
		}
		rel.Rw, rel.Restr = u, restr
	}
	// the tupleset of this type must point back to the type itself for the tuple-to-userset hops to stay inside the web
	td.Rels[0].Restr = append([]Restriction{{Type: td.Name}}, td.Rels[0].Restr...)
}

// mirrorTTU adds, to the first object type, two tupleset relations q1, q2 towards the type itself and a relation
// "mir: q1 from q2 or q2 from q1 or [user]": two tuple-to-userset operands of one operator whose target relation and
// tupleset relation are each other's (keys built symmetrically from the two labels coincide).
func mirrorTTU(m *Model) bool {
	for ti := range m.Types {
		td := &m.Types[ti]
		if len(td.Rels) == 0 {
			continue
		}
		for _, r := range td.Rels {
			if r.Name == "q1" || r.Name == "q2" || r.Name == "mir" {
				return false
			}
		}
		self := []Restriction{{Type: td.Name}}
		td.Rels = append(td.Rels,
			Relation{Name: "q1", Rw: &Rewrite{Kind: This}, Restr: self},
			Relation{Name: "q2", Rw: &Rewrite{Kind: This}, Restr: self},
			Relation{Name: "mir", Rw: &Rewrite{Kind: Union, Kids: []*Rewrite{{Kind: This}, {Kind: TTU, Rel: "q1", Tupleset: "q2"}, {Kind: TTU, Rel: "q2", Tupleset: "q1"}}}, Restr: []Restriction{{Type: m.Types[0].Name}}})
		return true
	}
	return false
}
