package gen

import (
	"fmt"

	"pgregory.net/rapid"
)

// ScaleCounts are the counts the scale-up transformations draw from: the values around the powers of two at which
// implementations switch algorithms or exhaust fixed-size buffers (linear scan -> index, inline array -> heap,
// pre-sized buffer, bitset word), plus one past them.
var ScaleCounts = []int{7, 8, 9, 15, 16, 17, 18, 24, 31, 32, 33, 40}

// ScaleCountsLarge reach the next two thresholds (64, 128); used for the cheap dimensions.
var ScaleCountsLarge = []int{15, 16, 17, 31, 32, 33, 63, 64, 65, 66, 72, 100, 127, 128, 129}

// InflateGraph scales a graph-profile model up along ONE drawn dimension to a count from ScaleCounts and returns the
// name of the dimension. The result is still a legal model of the quantified domain; whether it is well-founded is for
// the oracle to say. Dimensions:
//
//	types        N more types: terminal types (some used in restrictions) and empty object types
//	operands     one relation becomes a union/intersection with N more operands (computed references and TTUs through
//	             several tupleset relations towards the same and different relations)
//	ttu-fanout   `x: [user] or x from q01 or ... or x from qN`: N tupleset relations towards the relation itself
//	             (one tuple cycle with N dependant edges between the same two nodes)
//	restrictions one direct assignment gets N more type restrictions (terminal types, wildcards, usersets)
//	wildcards    N public terminal types reachable over one edge
//	parents      one tupleset relation gets N parent types (copies of an object type), i.e. N TTU edges per operand
//	chain        a chain of N relations (N from ScaleCountsLarge), each one rewrite or one hop away from the next
//	conditions   one direct edge carries N conditions
//	relations    N more relations in one object type (plain, referenced from an existing one)
func InflateGraph(t *rapid.T, m *Model) string {
	var obj []int
	for i := range m.Types {
		if len(m.Types[i].Rels) > 1 {
			obj = append(obj, i)
		}
	}
	if len(obj) == 0 {
		return ""
	}
	dim := rapid.SampledFrom([]string{"types", "operands", "ttu-fanout", "restrictions", "wildcards", "parents", "chain", "conditions", "relations", "ring", "name-length"}).Draw(t, "scaleDim")
	n := rapid.SampledFrom(ScaleCounts).Draw(t, "scaleN")
	if dim != "parents" && dim != "chain" && dim != "ring" && dim != "name-length" && rapid.IntRange(0, 5).Draw(t, "scaleLarge") == 0 {
		n = rapid.SampledFrom([]int{63, 64, 65, 66, 100, 127, 128, 129, 255, 256, 257, 300}).Draw(t, "scaleNLarge") // the next thresholds, up to one past a byte
	}
	ti := obj[rapid.IntRange(0, len(obj)-1).Draw(t, "scaleType")]
	td := &m.Types[ti]
	term := m.Types[0].Name
	// a relation of td other than the tupleset relation (index 0)
	ri := rapid.IntRange(1, len(td.Rels)-1).Draw(t, "scaleRel")
	usedT := map[string]bool{}
	for _, x := range m.Types {
		usedT[x.Name] = true
	}
	usedR := map[string]bool{}
	for _, r := range td.Rels {
		usedR[r.Name] = true
	}
	freshT := func(prefix string, i int) string {
		for k := 0; ; k++ {
			s := fmt.Sprintf("%s%02d", prefix, i+k*100)
			if !usedT[s] {
				usedT[s] = true
				return s
			}
		}
	}
	freshR := func(prefix string, i int) string {
		for k := 0; ; k++ {
			s := fmt.Sprintf("%s%02d", prefix, i+k*100)
			if !usedR[s] {
				usedR[s] = true
				return s
			}
		}
	}
	addThis := func(r *Relation) {
		// make sure the relation has a direct assignment (first operand of a union)
		if r.Rw.CountThis() > 0 {
			return
		}
		r.Rw = &Rewrite{Kind: Union, Kids: []*Rewrite{{Kind: This}, r.Rw}}
	}
	switch dim {
	case "types":
		// new types sort before, between and behind the existing ones
		pf := rapid.SampledFrom([]string{"aa", "k", "zz"}).Draw(t, "scaleTypePrefix")
		var names []string
		for i := 0; i < n; i++ {
			nm := freshT(pf, i)
			names = append(names, nm)
			m.Types = append(m.Types, TypeDef{Name: nm})
		}
		td = &m.Types[ti]
		// some of them become user types of an assignable relation
		r := &td.Rels[ri]
		if r.Rw.CountThis() > 0 {
			for i := 0; i < len(names) && i < 3; i++ {
				r.Restr = append(r.Restr, Restriction{Type: names[i], Wild: i == 1})
			}
		}
	case "operands":
		r := &td.Rels[ri]
		kind := rapid.SampledFrom([]string{Union, Union, Intersection}).Draw(t, "scaleOpKind")
		// extra tupleset relations so that several TTUs towards one relation differ only in their tupleset
		var tsNames []string
		for i := 0; i < 2; i++ {
			ts := freshR("q", i)
			td.Rels = append(td.Rels, Relation{Name: ts, Rw: &Rewrite{Kind: This}, Restr: []Restriction{{Type: td.Name}}})
			tsNames = append(tsNames, ts)
		}
		r = &m.Types[ti].Rels[ri]
		op := &Rewrite{Kind: kind, Kids: []*Rewrite{r.Rw}}
		if r.Rw.Kind == kind {
			op = r.Rw
		}
		var others []string
		for j, x := range td.Rels {
			if j != 0 && j != ri && x.Name[0] != 'q' {
				others = append(others, x.Name)
			}
		}
		for i := 0; i < n; i++ {
			switch k := rapid.IntRange(0, 5).Draw(t, "scaleOperand"); {
			case k <= 2 && len(others) > 0:
				op.Kids = append(op.Kids, &Rewrite{Kind: Computed, Rel: others[i%len(others)]})
			case k == 3:
				op.Kids = append(op.Kids, &Rewrite{Kind: TTU, Rel: td.Rels[1+i%(len(td.Rels)-3)].Name, Tupleset: tsNames[i%2]})
			case k == 4:
				op.Kids = append(op.Kids, &Rewrite{Kind: TTU, Rel: r.Name, Tupleset: tsNames[i%2]})
			default:
				op.Kids = append(op.Kids, &Rewrite{Kind: TTU, Rel: td.Rels[1+i%(len(td.Rels)-3)].Name, Tupleset: "p"})
			}
		}
		r.Rw = op
	case "ttu-fanout":
		// x: [term] or x from q00 or ... or x from qN  (every q is a tupleset relation towards the type itself)
		name := freshR("x", 0)
		u := &Rewrite{Kind: Union, Kids: []*Rewrite{{Kind: This}}}
		for i := 0; i < n; i++ {
			ts := freshR("q", i)
			td.Rels = append(td.Rels, Relation{Name: ts, Rw: &Rewrite{Kind: This}, Restr: []Restriction{{Type: td.Name}}})
			u.Kids = append(u.Kids, &Rewrite{Kind: TTU, Rel: name, Tupleset: ts})
		}
		x := Restriction{Type: term}
		if rapid.IntRange(0, 2).Draw(t, "scaleFanWild") == 0 {
			x.Wild = true
		}
		td.Rels = append(td.Rels, Relation{Name: name, Rw: u, Restr: []Restriction{x}})
		// somebody refers to it
		r := &m.Types[ti].Rels[ri]
		r.Rw = &Rewrite{Kind: Union, Kids: []*Rewrite{r.Rw, {Kind: Computed, Rel: name}}}
	case "restrictions":
		r := &td.Rels[ri]
		addThis(r)
		var others []string
		for j, x := range td.Rels {
			if j != 0 {
				others = append(others, x.Name)
			}
		}
		for i := 0; i < n; i++ {
			switch rapid.IntRange(0, 3).Draw(t, "scaleRestr") {
			case 0:
				nm := freshT("u", i)
				m.Types = append(m.Types, TypeDef{Name: nm})
				td = &m.Types[ti]
				r = &td.Rels[ri]
				r.Restr = append(r.Restr, Restriction{Type: nm})
			case 1:
				nm := freshT("u", i)
				m.Types = append(m.Types, TypeDef{Name: nm})
				td = &m.Types[ti]
				r = &td.Rels[ri]
				r.Restr = append(r.Restr, Restriction{Type: nm, Wild: true})
			case 2:
				r.Restr = append(r.Restr, Restriction{Type: td.Name, Rel: others[i%len(others)]})
			default:
				r.Restr = append(r.Restr, Restriction{Type: term, Wild: i%2 == 0})
			}
		}
	case "wildcards":
		// N public types on one relation, looked at through a computed reference, a TTU and a userset
		name := freshR("w", 0)
		rel := Relation{Name: name, Rw: &Rewrite{Kind: This}}
		for i := 0; i < n; i++ {
			nm := freshT("u", i)
			m.Types = append(m.Types, TypeDef{Name: nm})
			rel.Restr = append(rel.Restr, Restriction{Type: nm, Wild: true})
		}
		td = &m.Types[ti]
		td.Rels = append(td.Rels, rel)
		r := &td.Rels[ri]
		switch rapid.IntRange(0, 2).Draw(t, "scaleWildVia") {
		case 0:
			r.Rw = &Rewrite{Kind: Union, Kids: []*Rewrite{r.Rw, {Kind: Computed, Rel: name}}}
		case 1:
			r.Rw = &Rewrite{Kind: Union, Kids: []*Rewrite{r.Rw, {Kind: TTU, Rel: name, Tupleset: "p"}}}
			td.Rels[0].Restr = append(td.Rels[0].Restr, Restriction{Type: td.Name})
		default:
			addThis(r)
			r.Restr = append(r.Restr, Restriction{Type: td.Name, Rel: name})
		}
	case "parents":
		// N copies of the object type as further parent types of its tupleset relation
		src := *td
		for i := 0; i < n; i++ {
			nm := freshT("par", (i*7)%41) // not in name order
			cp := TypeDef{Name: nm}
			for _, r := range src.Rels {
				cp.Rels = append(cp.Rels, Relation{Name: r.Name, Rw: r.Rw.Clone(), Restr: append([]Restriction(nil), r.Restr...)})
			}
			m.Types = append(m.Types, cp)
			x := Restriction{Type: nm}
			if i%5 == 4 {
				x.Cond = "c1"
			}
			m.Types[ti].Rels[0].Restr = append(m.Types[ti].Rels[0].Restr, x)
		}
		ensureConds(m)
	case "name-length":
		// one object type and one relation get names of 200..254 characters (the validators allow 254 for a type; a
		// relation of that length is legal in a model, the 50-character rule applies to tuples): labels such as
		// "type#relation" grow beyond 256 bytes
		ln := rapid.SampledFrom([]int{200, 206, 250, 254}).Draw(t, "scaleNameLen")
		long := func(first byte, n int) string {
			b := make([]byte, n)
			for i := range b {
				b[i] = "abcdefghij_0123456789"[i%21]
			}
			b[0] = first
			return string(b)
		}
		oldT, oldR := td.Name, td.Rels[ri].Name
		newT, newR := long('t', ln), long('r', rapid.SampledFrom([]int{40, 50, 200}).Draw(t, "scaleRelNameLen"))
		if !usedT[newT] && !usedR[newR] && oldR != "p" {
			RenameModel(m, func(s string) string {
				if s == oldT {
					return newT
				}
				return s
			}, func(s string) string {
				if s == oldR {
					return newR
				}
				return s
			}, func(s string) string { return s })
		}
	case "ring":
		// N relations in a ring: every one refers to the next (the last to the first) by a computed userset, by a
		// tuple-to-userset, or by both; with a computed link everywhere the ring is a tuple-free rewrite cycle through N
		// relation nodes (and N operator nodes), with one hop somewhere it is a tuple cycle with exits
		n = rapid.SampledFrom([]int{3, 8, 17, 33, 64, 65, 127, 128, 129, 130, 200, 257}).Draw(t, "scaleRingN")
		td.Rels[0].Restr = append([]Restriction{{Type: td.Name}}, td.Rels[0].Restr...)
		nm := func(i int) string { return fmt.Sprintf("rg%03d", i%n) }
		mode := rapid.IntRange(0, 3).Draw(t, "scaleRingMode") // 0: computed + ttu everywhere; 1: computed everywhere; 2: one link is a ttu only; 3: ttu everywhere
		hop := rapid.IntRange(0, n-1).Draw(t, "scaleRingHop")
		for i := 0; i < n; i++ {
			u := &Rewrite{Kind: Union, Kids: []*Rewrite{{Kind: This}}}
			comp := &Rewrite{Kind: Computed, Rel: nm(i + 1)}
			ttu := &Rewrite{Kind: TTU, Rel: nm(i + 1), Tupleset: "p"}
			switch {
			case mode == 0:
				u.Kids = append(u.Kids, ttu, comp)
			case mode == 1, mode == 2 && i != hop:
				u.Kids = append(u.Kids, comp)
			default:
				u.Kids = append(u.Kids, ttu)
			}
			td.Rels = append(td.Rels, Relation{Name: nm(i), Rw: u, Restr: []Restriction{{Type: term}}})
		}
	case "chain":
		n = rapid.SampledFrom(ScaleCountsLarge).Draw(t, "scaleChainN")
		if rapid.IntRange(0, 7).Draw(t, "scaleChainHuge") == 0 {
			n = rapid.SampledFrom([]int{255, 256, 257, 1023, 1024, 1025, 1500}).Draw(t, "scaleChainNHuge")
		}
		td.Rels[0].Restr = append([]Restriction{{Type: td.Name}}, td.Rels[0].Restr...)
		nm := func(i int) string { return fmt.Sprintf("ch%04d", i) }
		mode := rapid.IntRange(0, 3).Draw(t, "scaleChainMode") // 0 rewrites only, 1 usersets, 2 TTUs, 3 mixed
		for i := 0; i < n; i++ {
			rd := Relation{Name: nm(i)}
			link := mode
			if mode == 3 {
				link = rapid.IntRange(0, 2).Draw(t, "scaleChainLink")
			}
			switch {
			case i == n-1:
				rd.Rw, rd.Restr = &Rewrite{Kind: This}, []Restriction{{Type: term}}
			case link == 0:
				rd.Rw = &Rewrite{Kind: Computed, Rel: nm(i + 1)}
			case link == 1:
				rd.Rw, rd.Restr = &Rewrite{Kind: This}, []Restriction{{Type: td.Name, Rel: nm(i + 1)}}
			default:
				rd.Rw = &Rewrite{Kind: TTU, Rel: nm(i + 1), Tupleset: "p"}
			}
			td.Rels = append(td.Rels, rd)
		}
		r := &td.Rels[ri]
		if rapid.Bool().Draw(t, "scaleChainEntry") {
			r.Rw = &Rewrite{Kind: Union, Kids: []*Rewrite{r.Rw, {Kind: Computed, Rel: nm(0)}}}
		}
	case "conditions":
		r := &td.Rels[ri]
		addThis(r)
		x := Restriction{Type: term}
		if rapid.Bool().Draw(t, "scaleCondWild") {
			x.Wild = true
		}
		have := map[string]bool{}
		for _, c := range m.Conds {
			have[c.Name] = true
		}
		for i := 0; i < n; i++ {
			cn := fmt.Sprintf("k%02d", i)
			if !have[cn] {
				m.Conds = append(m.Conds, Condition{Name: cn, Params: []Param{{Name: "x", Type: "int"}}, Expr: "x > 1"})
			}
			y := x
			y.Cond = cn
			r.Restr = append(r.Restr, y)
			if i == n/2 {
				r.Restr = append(r.Restr, x) // the unconditioned form in the middle
			}
		}
	case "relations":
		pf := rapid.SampledFrom([]string{"aa", "m", "zz"}).Draw(t, "scaleRelPrefix")
		var prev string
		for i := 0; i < n; i++ {
			nm := freshR(pf, i)
			rd := Relation{Name: nm, Rw: &Rewrite{Kind: This}, Restr: []Restriction{{Type: term}}}
			if prev != "" && i%3 == 1 {
				rd = Relation{Name: nm, Rw: &Rewrite{Kind: Computed, Rel: prev}}
			} else if prev != "" && i%3 == 2 {
				rd = Relation{Name: nm, Rw: &Rewrite{Kind: TTU, Rel: prev, Tupleset: "p"}}
			}
			td.Rels = append(td.Rels, rd)
			prev = nm
		}
		r := &td.Rels[ri]
		r.Rw = &Rewrite{Kind: Union, Kids: []*Rewrite{r.Rw, {Kind: Computed, Rel: prev}}}
	}
	return dim
}

func ensureConds(m *Model) {
	have := map[string]bool{}
	for _, c := range m.Conds {
		have[c.Name] = true
	}
	if !have["c1"] {
		m.Conds = append(m.Conds, Condition{Name: "c1", Params: []Param{{Name: "x", Type: "int"}}, Expr: "x > 1"})
	}
	if !have["c2"] {
		m.Conds = append(m.Conds, Condition{Name: "c2", Params: []Param{{Name: "y", Type: "string"}}, Expr: "y == \"a\""})
	}
}

// InflateDSL scales a transformer-profile model up along ONE drawn dimension (counts from ScaleCounts) and returns the
// name of the dimension. In the dsl profile (jsonOnly false) the result stays DSL-expressible: operands are only added
// behind the first one and consist of leaves, nesting is added around a non-first operand. In the json profile a
// direct assignment may end up deep inside the added nesting, on or off the leading path. Dimensions:
//
//	operands     one operator (or a new one around a leaf) gets N more leaf operands
//	depth        N more operator levels around one operand, kinds alternating, the old operand innermost
//	relations    N more relations in one type (names sorting before, between and behind the existing ones)
//	types        N more types
//	restrictions N more type restrictions on one direct assignment
//	conditions   N more conditions
//	params       N more parameters on one condition
//	expr         a condition body of N clauses (well over 64 tokens), sometimes with a lone '{' in the middle
//	name-length  one type and one relation get names of 50..255 characters
func InflateDSL(t *rapid.T, m *Model, jsonOnly bool) string {
	dims := []string{"operands", "depth", "relations", "types", "restrictions", "conditions", "params", "expr", "name-length", "lines"}
	dim := rapid.SampledFrom(dims).Draw(t, "scaleDim")
	n := rapid.SampledFrom(ScaleCounts).Draw(t, "scaleN")
	if dim != "depth" && dim != "name-length" && dim != "lines" && rapid.IntRange(0, 5).Draw(t, "scaleLarge") == 0 {
		n = rapid.SampledFrom([]int{63, 64, 65, 66, 100, 127, 128, 129, 255, 256, 257, 300}).Draw(t, "scaleNLarge") // the next thresholds, up to one past a byte
	}
	usedT := map[string]bool{}
	for _, x := range m.Types {
		usedT[x.Name] = true
	}
	var withRels []int
	for i := range m.Types {
		if len(m.Types[i].Rels) > 0 {
			withRels = append(withRels, i)
		}
	}
	pickRel := func() (*TypeDef, *Relation) {
		if len(withRels) == 0 {
			m.Types = append(m.Types, TypeDef{Name: "scaled", Rels: []Relation{{Name: "r", Rw: &Rewrite{Kind: Computed, Rel: "r0"}}}})
			usedT["scaled"] = true
			withRels = append(withRels, len(m.Types)-1)
		}
		td := &m.Types[withRels[rapid.IntRange(0, len(withRels)-1).Draw(t, "scaleType")]]
		return td, &td.Rels[rapid.IntRange(0, len(td.Rels)-1).Draw(t, "scaleRel")]
	}
	leaf := func(i int) *Rewrite {
		if i%3 == 2 {
			return &Rewrite{Kind: TTU, Rel: fmt.Sprintf("s%02d", i), Tupleset: "parent"}
		}
		return &Rewrite{Kind: Computed, Rel: fmt.Sprintf("s%02d", i)}
	}
	switch dim {
	case "operands":
		_, r := pickRel()
		// the operator to widen: the root if it is a union/intersection, else a new union around the old rewrite
		op := r.Rw
		if op.Kind != Union && op.Kind != Intersection {
			kind := rapid.SampledFrom([]string{Union, Intersection}).Draw(t, "scaleOpKind")
			op = &Rewrite{Kind: kind, Kids: []*Rewrite{r.Rw}}
			r.Rw = op
		}
		// sometimes the wide group is a nested, non-first operand: `x or (s00 or s01 or ...)`
		if rapid.IntRange(0, 2).Draw(t, "scaleNestedWide") == 0 {
			inner := &Rewrite{Kind: rapid.SampledFrom([]string{Union, Intersection}).Draw(t, "scaleInnerKind")}
			op.Kids = append(op.Kids, inner)
			op = inner
		}
		for i := 0; i < n; i++ {
			op.Kids = append(op.Kids, leaf(i))
		}
	case "depth":
		_, r := pickRel()
		n = rapid.SampledFrom([]int{4, 5, 7, 8, 9, 10, 12, 15, 16, 17}).Draw(t, "scaleDepthN")
		kinds := []string{Union, Intersection, Difference}
		// innermost: the old rewrite (json profile) or a leaf / a group of leaves (dsl profile: no direct assignment off
		// the first position)
		var inner *Rewrite
		if jsonOnly {
			inner = r.Rw
			if rapid.IntRange(0, 2).Draw(t, "scaleDeepThis") == 0 {
				inner = &Rewrite{Kind: This}
			}
		} else {
			inner = &Rewrite{Kind: Union, Kids: []*Rewrite{leaf(0), leaf(1)}}
		}
		leftNested := jsonOnly && rapid.Bool().Draw(t, "scaleLeftNested") // the old rewrite stays on the leading path
		cur := inner
		for i := 0; i < n; i++ {
			k := kinds[(i+rapid.IntRange(0, 2).Draw(t, "scaleKind"))%3]
			if leftNested {
				cur = &Rewrite{Kind: k, Kids: []*Rewrite{cur, leaf(i + 2)}}
			} else {
				cur = &Rewrite{Kind: k, Kids: []*Rewrite{leaf(i + 2), cur}}
			}
		}
		if jsonOnly {
			r.Rw = cur
			if len(r.Restr) == 0 && cur.CountThis() > 0 {
				r.Restr = []Restriction{{Type: "user"}}
			}
		} else {
			// behind the first operand of the definition
			if r.Rw.Kind == Union || r.Rw.Kind == Intersection {
				r.Rw.Kids = append(r.Rw.Kids, cur)
			} else {
				r.Rw = &Rewrite{Kind: Union, Kids: []*Rewrite{r.Rw, cur}}
			}
		}
	case "relations":
		td, _ := pickRel()
		usedR := map[string]bool{}
		for _, r := range td.Rels {
			usedR[r.Name] = true
		}
		pf := rapid.SampledFrom([]string{"a", "m", "zz", "A"}).Draw(t, "scaleRelPrefix")
		for i := 0; i < n; i++ {
			nm := fmt.Sprintf("%s%02d", pf, scramble(i, n))
			if usedR[nm] {
				continue
			}
			usedR[nm] = true
			td.Rels = append(td.Rels, Relation{Name: nm, Rw: &Rewrite{Kind: This}, Restr: []Restriction{{Type: td.Name}}})
		}
	case "types":
		pf := rapid.SampledFrom([]string{"a", "m", "zz", "A"}).Draw(t, "scaleTypePrefix")
		for i := 0; i < n; i++ {
			nm := fmt.Sprintf("%s%02d", pf, scramble(i, n))
			if usedT[nm] {
				continue
			}
			usedT[nm] = true
			td := TypeDef{Name: nm}
			if i%2 == 0 {
				td.Rels = []Relation{{Name: "r", Rw: &Rewrite{Kind: This}, Restr: []Restriction{{Type: nm}}}}
			}
			m.Types = append(m.Types, td)
		}
	case "restrictions":
		_, r := pickRel()
		if r.Rw.CountThis() == 0 {
			if jsonOnly || r.Rw.Kind == Difference || !(r.Rw.Kind == Union || r.Rw.Kind == Intersection) {
				r.Rw = &Rewrite{Kind: Union, Kids: []*Rewrite{{Kind: This}, r.Rw}}
			} else {
				r.Rw.Kids = append([]*Rewrite{{Kind: This}}, r.Rw.Kids...)
			}
		}
		for i := 0; i < n; i++ {
			x := Restriction{Type: fmt.Sprintf("u%02d", i)}
			switch i % 4 {
			case 1:
				x.Wild = true
			case 2:
				x.Rel = "member"
			case 3:
				if len(m.Conds) > 0 {
					x.Cond = m.Conds[i%len(m.Conds)].Name
				}
			}
			r.Restr = append(r.Restr, x)
		}
	case "conditions":
		have := map[string]bool{}
		for _, c := range m.Conds {
			have[c.Name] = true
		}
		for i := 0; i < n; i++ {
			nm := fmt.Sprintf("cond_%02d", scramble(i, n))
			if have[nm] {
				continue
			}
			have[nm] = true
			m.Conds = append(m.Conds, Condition{Name: nm, Params: []Param{{Name: "x", Type: ParamScalars[i%len(ParamScalars)]}}, Expr: "x == x"})
		}
	case "params":
		if len(m.Conds) == 0 {
			m.Conds = append(m.Conds, Condition{Name: "scaled_cond", Params: []Param{{Name: "x", Type: "int"}}, Expr: "x > 1"})
		}
		c := &m.Conds[rapid.IntRange(0, len(m.Conds)-1).Draw(t, "scaleCond")]
		have := map[string]bool{}
		for _, p := range c.Params {
			have[p.Name] = true
		}
		for i := 0; i < n; i++ {
			nm := fmt.Sprintf("p%02d", scramble(i, n))
			if have[nm] {
				continue
			}
			have[nm] = true
			p := Param{Name: nm, Type: ParamScalars[i%len(ParamScalars)]}
			if i%5 == 4 {
				p = Param{Name: nm, Type: []string{"list", "map"}[i%2], Elem: ParamScalars[i%len(ParamScalars)]}
			}
			c.Params = append(c.Params, p)
		}
	case "expr":
		if len(m.Conds) == 0 {
			m.Conds = append(m.Conds, Condition{Name: "scaled_cond", Params: []Param{{Name: "x", Type: "int"}}, Expr: "x > 1"})
		}
		c := &m.Conds[rapid.IntRange(0, len(m.Conds)-1).Draw(t, "scaleCond")]
		p := c.Params[0].Name
		var b []byte
		brace := -1
		if rapid.Bool().Draw(t, "scaleExprBrace") {
			brace = rapid.IntRange(0, n-1).Draw(t, "scaleExprBraceAt")
		}
		for i := 0; i < n; i++ {
			if i > 0 {
				b = append(b, " && "...)
			}
			b = append(b, fmt.Sprintf("%s < %d", p, i)...)
			if i == brace {
				b = append(b, " || {"+p...)
			}
		}
		c.Expr = string(b)
	case "lines":
		// many blank lines in front of one type: line numbers beyond 255 and 511 (one past a byte). Not more: the library
		// needs time quadratic in the length of a run of blank lines (1 024 lines: 0.16 s, 4 096: 2.1 s, 16 384: 32 s) -
		// inside the bound C08 states, but too slow to draw thousands of times. The renderer writes the run only into files
		// with plain LF line ends: runs of CR LF are recorded finding T5.
		m.PadLines = rapid.SampledFrom([]int{255, 256, 257, 300, 511, 512, 513}).Draw(t, "scalePadLines")
		if len(m.Types) > 0 {
			m.PadBefore = rapid.IntRange(0, len(m.Types)-1).Draw(t, "scalePadBefore")
		}
	case "name-length":
		ln := rapid.SampledFrom([]int{50, 51, 63, 64, 65, 127, 128, 129, 254, 255, 256, 257, 1023, 1024, 1025, 4096, 4097}).Draw(t, "scaleNameLen")
		td, r := pickRel()
		long := func(first byte) string {
			b := make([]byte, ln)
			for i := range b {
				b[i] = "abcdefghij_0123456789"[i%21]
			}
			b[0] = first
			return string(b)
		}
		oldT, newT := td.Name, long('t')
		oldR, newR := r.Name, long('r')
		if usedT[newT] {
			return dim
		}
		for ti := range m.Types {
			x := &m.Types[ti]
			if x.Name == oldT {
				x.Name = newT
			}
			for ri := range x.Rels {
				rr := &x.Rels[ri]
				if rr.Name == oldR {
					rr.Name = newR
				}
				for k := range rr.Restr {
					if rr.Restr[k].Type == oldT {
						rr.Restr[k].Type = newT
					}
					if rr.Restr[k].Rel == oldR {
						rr.Restr[k].Rel = newR
					}
				}
				rr.Rw.Walk(func(w *Rewrite, _ int) {
					if w.Rel == oldR {
						w.Rel = newR
					}
					if w.Tupleset == oldR {
						w.Tupleset = newR
					}
				})
			}
		}
	}
	return dim
}

// scramble maps 0..n-1 one-to-one onto numbers that do not come in ascending order (names built from them do not arrive
// sorted).
func scramble(i, n int) int {
	if n <= 41 {
		return (i * 7) % 41
	}
	return (i * 7) % 131
}
