package gen

import (
	"fmt"

	"pgregory.net/rapid"
)

// ScaleCounts are the counts the scale-up transformations draw from: the values around the powers of two at which
// implementations switch algorithms or exhaust fixed-size buffers (linear scan -> index, inline array -> heap,
// pre-sized buffer, bitset word), plus one past them.
var ScaleCounts = []int{7, 8, 9, 15, 16, 17, 18, 24, 31, 32, 33, 40}

// ScaleCountsLarge reach the next two thresholds (64, 128); used for the cheap dimensions.
var ScaleCountsLarge = []int{15, 16, 17, 31, 32, 33, 63, 64, 65, 66, 72, 100, 127, 128, 129}

// InflateGraph scales a graph-profile model up along ONE drawn dimension to a count from ScaleCounts and returns the
// name of the dimension. The result is still a legal model of the quantified domain; whether it is well-founded is for
// the oracle to say. Dimensions:
//
//	types        N more types: terminal types (some used in restrictions) and empty object types
//	operands     one relation becomes a union/intersection with N more operands (computed references and TTUs through
//	             several tupleset relations towards the same and different relations)
//	ttu-fanout   `x: [user] or x from q01 or ... or x from qN`: N tupleset relations towards the relation itself
//	             (one tuple cycle with N dependant edges between the same two nodes)
//	restrictions one direct assignment gets N more type restrictions (terminal types, wildcards, usersets)
//	wildcards    N public terminal types reachable over one edge
//	parents      one tupleset relation gets N parent types (copies of an object type), i.e. N TTU edges per operand
//	chain        a chain of N relations (N from ScaleCountsLarge), each one rewrite or one hop away from the next
//	conditions   one direct edge carries N conditions
//	relations    N more relations in one object type (plain, referenced from an existing one)
func InflateGraph(t *rapid.T, m *Model) string {
	var obj []int
	for i := range m.Types {
		if len(m.Types[i].Rels) > 1 {
			obj = append(obj, i)
		}
	}
	if len(obj) == 0 {
		return ""
	}
	dim := rapid.SampledFrom([]string{"types", "operands", "ttu-fanout", "restrictions", "wildcards", "parents", "chain", "conditions", "relations"}).Draw(t, "scaleDim")
	n := rapid.SampledFrom(ScaleCounts).Draw(t, "scaleN")
	ti := obj[rapid.IntRange(0, len(obj)-1).Draw(t, "scaleType")]
	td := &m.Types[ti]
	term := m.Types[0].Name
	// a relation of td other than the tupleset relation (index 0)
	ri := rapid.IntRange(1, len(td.Rels)-1).Draw(t, "scaleRel")
	usedT := map[string]bool{}
	for _, x := range m.Types {
		usedT[x.Name] = true
	}
	usedR := map[string]bool{}
	for _, r := range td.Rels {
		usedR[r.Name] = true
	}
	freshT := func(prefix string, i int) string {
		for k := 0; ; k++ {
			s := fmt.Sprintf("%s%02d", prefix, i+k*100)
			if !usedT[s] {
				usedT[s] = true
				return s
			}
		}
	}
	freshR := func(prefix string, i int) string {
		for k := 0; ; k++ {
			s := fmt.Sprintf("%s%02d", prefix, i+k*100)
			if !usedR[s] {
				usedR[s] = true
				return s
			}
		}
	}
	addThis := func(r *Relation) {
		// make sure the relation has a direct assignment (first operand of a union)
		if r.Rw.CountThis() > 0 {
			return
		}
		r.Rw = &Rewrite{Kind: Union, Kids: []*Rewrite{{Kind: This}, r.Rw}}
	}
	switch dim {
	case "types":
		// new types sort before, between and behind the existing ones
		pf := rapid.SampledFrom([]string{"aa", "k", "zz"}).Draw(t, "scaleTypePrefix")
		var names []string
		for i := 0; i < n; i++ {
			nm := freshT(pf, i)
			names = append(names, nm)
			m.Types = append(m.Types, TypeDef{Name: nm})
		}
		td = &m.Types[ti]
		// some of them become user types of an assignable relation
		r := &td.Rels[ri]
		if r.Rw.CountThis() > 0 {
			for i := 0; i < len(names) && i < 3; i++ {
				r.Restr = append(r.Restr, Restriction{Type: names[i], Wild: i == 1})
			}
		}
	case "operands":
		r := &td.Rels[ri]
		kind := rapid.SampledFrom([]string{Union, Union, Intersection}).Draw(t, "scaleOpKind")
		// extra tupleset relations so that several TTUs towards one relation differ only in their tupleset
		var tsNames []string
		for i := 0; i < 2; i++ {
			ts := freshR("q", i)
			td.Rels = append(td.Rels, Relation{Name: ts, Rw: &Rewrite{Kind: This}, Restr: []Restriction{{Type: td.Name}}})
			tsNames = append(tsNames, ts)
		}
		r = &m.Types[ti].Rels[ri]
		op := &Rewrite{Kind: kind, Kids: []*Rewrite{r.Rw}}
		if r.Rw.Kind == kind {
			op = r.Rw
		}
		var others []string
		for j, x := range td.Rels {
			if j != 0 && j != ri && x.Name[0] != 'q' {
				others = append(others, x.Name)
			}
		}
		for i := 0; i < n; i++ {
			switch k := rapid.IntRange(0, 5).Draw(t, "scaleOperand"); {
			case k <= 2 && len(others) > 0:
				op.Kids = append(op.Kids, &Rewrite{Kind: Computed, Rel: others[i%len(others)]})
			case k == 3:
				op.Kids = append(op.Kids, &Rewrite{Kind: TTU, Rel: td.Rels[1+i%(len(td.Rels)-3)].Name, Tupleset: tsNames[i%2]})
			case k == 4:
				op.Kids = append(op.Kids, &Rewrite{Kind: TTU, Rel: r.Name, Tupleset: tsNames[i%2]})
			default:
				op.Kids = append(op.Kids, &Rewrite{Kind: TTU, Rel: td.Rels[1+i%(len(td.Rels)-3)].Name, Tupleset: "p"})
			}
		}
		r.Rw = op
	case "ttu-fanout":
		// x: [term] or x from q00 or ... or x from qN  (every q is a tupleset relation towards the type itself)
		name := freshR("x", 0)
		u := &Rewrite{Kind: Union, Kids: []*Rewrite{{Kind: This}}}
		for i := 0; i < n; i++ {
			ts := freshR("q", i)
			td.Rels = append(td.Rels, Relation{Name: ts, Rw: &Rewrite{Kind: This}, Restr: []Restriction{{Type: td.Name}}})
			u.Kids = append(u.Kids, &Rewrite{Kind: TTU, Rel: name, Tupleset: ts})
		}
		x := Restriction{Type: term}
		if rapid.IntRange(0, 2).Draw(t, "scaleFanWild") == 0 {
			x.Wild = true
		}
		td.Rels = append(td.Rels, Relation{Name: name, Rw: u, Restr: []Restriction{x}})
		// somebody refers to it
		r := &m.Types[ti].Rels[ri]
		r.Rw = &Rewrite{Kind: Union, Kids: []*Rewrite{r.Rw, {Kind: Computed, Rel: name}}}
	case "restrictions":
		r := &td.Rels[ri]
		addThis(r)
		var others []string
		for j, x := range td.Rels {
			if j != 0 {
				others = append(others, x.Name)
			}
		}
		for i := 0; i < n; i++ {
			switch rapid.IntRange(0, 3).Draw(t, "scaleRestr") {
			case 0:
				nm := freshT("u", i)
				m.Types = append(m.Types, TypeDef{Name: nm})
				td = &m.Types[ti]
				r = &td.Rels[ri]
				r.Restr = append(r.Restr, Restriction{Type: nm})
			case 1:
				nm := freshT("u", i)
				m.Types = append(m.Types, TypeDef{Name: nm})
				td = &m.Types[ti]
				r = &td.Rels[ri]
				r.Restr = append(r.Restr, Restriction{Type: nm, Wild: true})
			case 2:
				r.Restr = append(r.Restr, Restriction{Type: td.Name, Rel: others[i%len(others)]})
			default:
				r.Restr = append(r.Restr, Restriction{Type: term, Wild: i%2 == 0})
			}
		}
	case "wildcards":
		// N public types on one relation, looked at through a computed reference, a TTU and a userset
		name := freshR("w", 0)
		rel := Relation{Name: name, Rw: &Rewrite{Kind: This}}
		for i := 0; i < n; i++ {
			nm := freshT("u", i)
			m.Types = append(m.Types, TypeDef{Name: nm})
			rel.Restr = append(rel.Restr, Restriction{Type: nm, Wild: true})
		}
		td = &m.Types[ti]
		td.Rels = append(td.Rels, rel)
		r := &td.Rels[ri]
		switch rapid.IntRange(0, 2).Draw(t, "scaleWildVia") {
		case 0:
			r.Rw = &Rewrite{Kind: Union, Kids: []*Rewrite{r.Rw, {Kind: Computed, Rel: name}}}
		case 1:
			r.Rw = &Rewrite{Kind: Union, Kids: []*Rewrite{r.Rw, {Kind: TTU, Rel: name, Tupleset: "p"}}}
			td.Rels[0].Restr = append(td.Rels[0].Restr, Restriction{Type: td.Name})
		default:
			addThis(r)
			r.Restr = append(r.Restr, Restriction{Type: td.Name, Rel: name})
		}
	case "parents":
		// N copies of the object type as further parent types of its tupleset relation
		src := *td
		for i := 0; i < n; i++ {
			nm := freshT("par", i)
			cp := TypeDef{Name: nm}
			for _, r := range src.Rels {
				cp.Rels = append(cp.Rels, Relation{Name: r.Name, Rw: r.Rw.Clone(), Restr: append([]Restriction(nil), r.Restr...)})
			}
			m.Types = append(m.Types, cp)
			x := Restriction{Type: nm}
			if i%5 == 4 {
				x.Cond = "c1"
			}
			m.Types[ti].Rels[0].Restr = append(m.Types[ti].Rels[0].Restr, x)
		}
		ensureConds(m)
	case "chain":
		n = rapid.SampledFrom(ScaleCountsLarge).Draw(t, "scaleChainN")
		td.Rels[0].Restr = append([]Restriction{{Type: td.Name}}, td.Rels[0].Restr...)
		nm := func(i int) string { return fmt.Sprintf("ch%03d", i) }
		mode := rapid.IntRange(0, 3).Draw(t, "scaleChainMode") // 0 rewrites only, 1 usersets, 2 TTUs, 3 mixed
		for i := 0; i < n; i++ {
			rd := Relation{Name: nm(i)}
			link := mode
			if mode == 3 {
				link = rapid.IntRange(0, 2).Draw(t, "scaleChainLink")
			}
			switch {
			case i == n-1:
				rd.Rw, rd.Restr = &Rewrite{Kind: This}, []Restriction{{Type: term}}
			case link == 0:
				rd.Rw = &Rewrite{Kind: Computed, Rel: nm(i + 1)}
			case link == 1:
				rd.Rw, rd.Restr = &Rewrite{Kind: This}, []Restriction{{Type: td.Name, Rel: nm(i + 1)}}
			default:
				rd.Rw = &Rewrite{Kind: TTU, Rel: nm(i + 1), Tupleset: "p"}
			}
			td.Rels = append(td.Rels, rd)
		}
		r := &td.Rels[ri]
		if rapid.Bool().Draw(t, "scaleChainEntry") {
			r.Rw = &Rewrite{Kind: Union, Kids: []*Rewrite{r.Rw, {Kind: Computed, Rel: nm(0)}}}
		}
	case "conditions":
		r := &td.Rels[ri]
		addThis(r)
		x := Restriction{Type: term}
		if rapid.Bool().Draw(t, "scaleCondWild") {
			x.Wild = true
		}
		have := map[string]bool{}
		for _, c := range m.Conds {
			have[c.Name] = true
		}
		for i := 0; i < n; i++ {
			cn := fmt.Sprintf("k%02d", i)
			if !have[cn] {
				m.Conds = append(m.Conds, Condition{Name: cn, Params: []Param{{Name: "x", Type: "int"}}, Expr: "x > 1"})
			}
			y := x
			y.Cond = cn
			r.Restr = append(r.Restr, y)
			if i == n/2 {
				r.Restr = append(r.Restr, x) // the unconditioned form in the middle
			}
		}
	case "relations":
		pf := rapid.SampledFrom([]string{"aa", "m", "zz"}).Draw(t, "scaleRelPrefix")
		var prev string
		for i := 0; i < n; i++ {
			nm := freshR(pf, i)
			rd := Relation{Name: nm, Rw: &Rewrite{Kind: This}, Restr: []Restriction{{Type: term}}}
			if prev != "" && i%3 == 1 {
				rd = Relation{Name: nm, Rw: &Rewrite{Kind: Computed, Rel: prev}}
			} else if prev != "" && i%3 == 2 {
				rd = Relation{Name: nm, Rw: &Rewrite{Kind: TTU, Rel: prev, Tupleset: "p"}}
			}
			td.Rels = append(td.Rels, rd)
			prev = nm
		}
		r := &td.Rels[ri]
		r.Rw = &Rewrite{Kind: Union, Kids: []*Rewrite{r.Rw, {Kind: Computed, Rel: prev}}}
	}
	return dim
}

func ensureConds(m *Model) {
	have := map[string]bool{}
	for _, c := range m.Conds {
		have[c.Name] = true
	}
	if !have["c1"] {
		m.Conds = append(m.Conds, Condition{Name: "c1", Params: []Param{{Name: "x", Type: "int"}}, Expr: "x > 1"})
	}
	if !have["c2"] {
		m.Conds = append(m.Conds, Condition{Name: "c2", Params: []Param{{Name: "y", Type: "string"}}, Expr: "y == \"a\""})
	}
}
