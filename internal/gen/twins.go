package gen

import (
	"hash/crc32"
	"hash/crc64"
	"strings"
)

var (
	twinCastagnoli = crc32.MakeTable(crc32.Castagnoli)
	twinKoopman    = crc32.MakeTable(crc32.Koopman)
	twinISO        = crc64.MakeTable(crc64.ISO)
	twinECMA       = crc64.MakeTable(crc64.ECMA)
)

// ChecksumTwins appends one full-line '#' comment to each of two different documents so that the results have the same
// length AND the same checksums under the usual non-cryptographic checksum functions that are linear over GF(2):
// CRC-32 (IEEE, Castagnoli, Koopman) and CRC-64 (ISO, ECMA). A cache keyed by "length and checksum of the text" instead
// of the text cannot tell the two apart. The comment of the second document is found by Gaussian elimination: each of
// its characters is 'a' or 'b' ('a' xor 'b' = 0x03), and every CRC is an affine function of those choices.
// ok is false when the system happens to have no solution (then the caller simply skips the case).
func ChecksumTwins(a, b string) (a2, b2 string, ok bool) {
	const free = 320 // unknowns; 224 equations
	la, lb := len(a), len(b)
	padA, padB := free, free
	if la > lb {
		padB += la - lb
	} else {
		padA += lb - la
	}
	a2 = a + "\n#" + strings.Repeat("a", padA) + "\n"
	prefix := b + "\n#" + strings.Repeat("a", padB-free)
	sums := func(s []byte) []uint64 {
		return []uint64{
			uint64(crc32.ChecksumIEEE(s)),
			uint64(crc32.Checksum(s, twinCastagnoli)),
			uint64(crc32.Checksum(s, twinKoopman)),
			crc64.Checksum(s, twinISO),
			crc64.Checksum(s, twinECMA),
		}
	}
	widths := []int{32, 32, 32, 64, 64}
	const rows = 224
	bits := func(v []uint64) []bool {
		out := make([]bool, 0, rows)
		for i, w := range widths {
			for k := 0; k < w; k++ {
				out = append(out, v[i]>>uint(k)&1 == 1)
			}
		}
		return out
	}
	xor := func(x, y []uint64) []uint64 {
		out := make([]uint64, len(x))
		for i := range x {
			out[i] = x[i] ^ y[i]
		}
		return out
	}
	base := []byte(prefix + strings.Repeat("a", free) + "\n")
	f0 := sums(base)
	target := bits(xor(f0, sums([]byte(a2))))
	// matrix columns: effect of turning character i of the free part into 'b'
	off := len(prefix)
	cols := make([][]bool, free)
	for i := 0; i < free; i++ {
		base[off+i] = 'b'
		cols[i] = bits(xor(f0, sums(base)))
		base[off+i] = 'a'
	}
	// Gaussian elimination on the augmented system  sum_i x_i * cols[i] = target  over GF(2); rows are bit sets
	// (free coefficient bits, then the right-hand side in bit number `free`)
	const words = free/64 + 1
	m := make([][words]uint64, rows)
	for r := 0; r < rows; r++ {
		for i := 0; i < free; i++ {
			if cols[i][r] {
				m[r][i/64] |= 1 << uint(i%64)
			}
		}
		if target[r] {
			m[r][free/64] |= 1 << uint(free%64)
		}
	}
	pivotCol := make([]int, 0, rows)
	r := 0
	for c := 0; c < free && r < rows; c++ {
		p := -1
		for k := r; k < rows; k++ {
			if m[k][c/64]>>uint(c%64)&1 == 1 {
				p = k
				break
			}
		}
		if p < 0 {
			continue
		}
		m[r], m[p] = m[p], m[r]
		for k := 0; k < rows; k++ {
			if k != r && m[k][c/64]>>uint(c%64)&1 == 1 {
				for w := 0; w < words; w++ {
					m[k][w] ^= m[r][w]
				}
			}
		}
		pivotCol = append(pivotCol, c)
		r++
	}
	rhs := func(k int) bool { return m[k][free/64]>>uint(free%64)&1 == 1 }
	for k := r; k < rows; k++ {
		if rhs(k) {
			return "", "", false // inconsistent
		}
	}
	x := make([]bool, free)
	for k, c := range pivotCol {
		x[c] = rhs(k)
	}
	for i := 0; i < free; i++ {
		if x[i] {
			base[off+i] = 'b'
		}
	}
	b2 = string(base)
	if len(a2) != len(b2) {
		return "", "", false
	}
	sa, sb := sums([]byte(a2)), sums([]byte(b2))
	for i := range sa {
		if sa[i] != sb[i] {
			return "", "", false
		}
	}
	return a2, b2, true
}
