package gen

import (
	"fmt"
	"strings"
	"unicode/utf8"
)

// Chooser is the source of layout choices. Canonical{} always answers 0 (the plainest layout);
// the checks pass a rapid-backed chooser so that every layout choice is a rapid draw.
type Chooser interface {
	Intn(n int, label string) int
}

type Canonical struct{}

func (Canonical) Intn(int, string) int { return 0 }

// Forced is the canonical layout except for the listed choice labels.
type Forced map[string]int

func (f Forced) Intn(n int, label string) int {
	if v, ok := f[label]; ok && v < n {
		return v
	}
	return 0
}

type Pos struct {
	Line int `json:"line"` // zero-based
	Col  int `json:"col"`  // zero-based, in runes
}

// Rendered is a DSL document produced by the independent renderer, with a source map and the
// layout feature classes that were actually used.
type Rendered struct {
	Text     string
	Pos      map[string]Pos // "type:i", "rel:i:j", "cond:i", "param:i:j", "module"
	Features map[string]bool
}

type RenderOpts struct {
	Module string // non-empty: module file with this header name; else model file with m.Schema
	// Extend[i] marks type i as "extend type" (module files only)
	Extend map[int]bool
	// Header (fault injection only): "both" writes a model header followed by a module header,
	// "neither" writes no header at all.
	Header string
}

type writer struct {
	b        strings.Builder
	line     int
	col      int
	c        Chooser
	eol      string
	feat     map[string]bool
	comments bool
}

func (w *writer) emit(s string) {
	w.b.WriteString(s)
	for _, r := range s {
		if r == '\n' {
			w.line++
			w.col = 0
		} else {
			w.col++
		}
	}
}

func (w *writer) pick(n int, label string) int {
	if n <= 1 {
		return 0
	}
	return w.c.Intn(n, label)
}

// ws emits mandatory whitespace (a WHITESPACE token): one blank, several, or tabs.
func (w *writer) ws() {
	switch w.pick(6, "ws") {
	case 0, 1, 2:
		w.emit(" ")
	case 3:
		w.emit("  ")
		w.feat["extra-spaces"] = true
	case 4:
		w.emit("\t")
		w.feat["tabs"] = true
	default:
		// a form feed is WHITESPACE too (the rule is listed before NEWLINE, so a lone '\f' between two tokens of
		// one line is a blank, not a line end)
		if w.pick(3, "ws_ff") == 2 {
			w.emit("\f")
			w.feat["form-feed"] = true
		} else {
			w.emit(" \t ")
			w.feat["tabs"] = true
		}
	}
}

// ows emits optional whitespace (WHITESPACE?). def is the canonical choice (0 = none, 1 = one blank).
func (w *writer) ows(def int) {
	k := w.pick(5, "ows")
	if k == 0 {
		if def == 1 {
			w.emit(" ")
		}
		return
	}
	switch k {
	case 1:
	case 2:
		w.emit(" ")
	case 3:
		w.emit("   ")
		w.feat["extra-spaces"] = true
	default:
		w.emit("\t")
		w.feat["tabs"] = true
	}
	if (k == 1) != (def == 0) {
		w.feat["optional-space-toggled"] = true
	}
}

var commentTexts = []string{"c", " comment", "", " type user", " define x: [user]", "# nested # hashes", " tab\there", " quote \" ' ", " [ ( { ", " é ünï", "   ", " model", " }"}

// LongComment is a comment text of more than 64 KiB: a line of any length is a legal line (line-oriented readers with
// a fixed buffer, e.g. bufio.Scanner with its default limit, silently stop in front of it).
var LongComment = " l" + strings.Repeat("o", 66000) + "ng line"

func (w *writer) commentText() string {
	i := w.pick(len(commentTexts), "ctext")
	if i == len(commentTexts)-1 && w.pick(6, "ctext_long") == 5 {
		// rare (about one comment in eighty)
		w.feat["line-longer-than-64KiB"] = true
		return LongComment
	}
	return commentTexts[i]
}

func (w *writer) indent(def int) {
	switch w.pick(7, "indent") {
	case 0, 1:
		w.emit(strings.Repeat(" ", def))
	case 2:
		w.emit(strings.Repeat(" ", w.pick(9, "indent_n")))
		w.feat["odd-indent"] = true
	case 3:
		w.emit(strings.Repeat("\t", 1+w.pick(3, "indent_t")))
		w.feat["tabs"] = true
	case 4:
		w.feat["odd-indent"] = true // no indentation at all
	case 5:
		w.emit(" \t")
		w.feat["tabs"] = true
	default:
		w.emit(strings.Repeat(" ", def+2))
		w.feat["odd-indent"] = true
	}
}

// nl emits a NEWLINE position: optional trailing blanks, optional trailing comment, the line end,
// optional blank / whitespace-only / comment lines, then the indentation of the next line.
// last=true means nothing follows (end of file): the final newline itself becomes optional.
func (w *writer) nl(def int, last bool) {
	if last {
		switch w.pick(7, "eof") {
		case 0: // single final newline
			w.emit(w.eol)
		case 1:
			if w.pick(4, "eof_blank") == 3 {
				w.emit("  ") // trailing blanks without a newline: removed by the documented pre-pass
				w.feat["trailing-whitespace"] = true
			}
			w.feat["no-final-newline"] = true
		case 2:
			if !w.comments {
				w.emit(w.eol)
				return
			}
			// trailing comment on the last line, no final newline. The documented pre-pass cuts at " #" and then
			// removes trailing blanks, so any number of blanks (and tabs before them) may precede the '#'
			switch w.pick(4, "eof_comment_gap") {
			case 0, 1:
				w.emit(" #" + w.commentText())
			case 2:
				w.emit("   #" + w.commentText())
				w.feat["extra-spaces"] = true
			default:
				w.emit("\t  #" + w.commentText())
				w.feat["tabs"] = true
			}
			w.feat["trailing-comments"] = true
			w.feat["no-final-newline"] = true
		case 3:
			w.emit(w.eol + w.eol + "  " + w.eol)
			w.feat["blank-lines"] = true
		case 4:
			w.emit("  " + w.eol)
			w.feat["trailing-whitespace"] = true
		case 5:
			if !w.comments {
				w.emit(w.eol)
				return
			}
			w.emit(w.eol + "# end" + w.eol)
			w.feat["comment-lines"] = true
		default:
			// trailing tab on the last line, then the final newline: one NEWLINE token ("\t\n")
			w.emit("\t" + w.eol)
			w.feat["trailing-whitespace"] = true
			w.feat["tabs"] = true
		}
		return
	}
	switch w.pick(8, "trail") {
	case 0, 1, 2, 3:
	case 4:
		w.emit("  ")
		w.feat["trailing-whitespace"] = true
	case 5:
		w.emit("\t")
		w.feat["trailing-whitespace"] = true
		w.feat["tabs"] = true
	default:
		if w.comments {
			w.trailingComment()
		}
	}
	w.emit(w.eol)
	for i, n := 0, w.pick(5, "extra_lines"); i < n-2; i++ { // 0,0,0,1,2 extra lines
		switch w.pick(4, "extra_kind") {
		case 0:
			w.emit(w.eol)
			w.feat["blank-lines"] = true
		case 1:
			w.emit("   " + w.eol)
			w.feat["blank-lines"] = true
		default:
			if w.comments {
				w.emit(strings.Repeat(" ", w.pick(6, "cindent")) + "#" + w.commentText() + w.eol)
				w.feat["comment-lines"] = true
			} else {
				w.emit(w.eol)
				w.feat["blank-lines"] = true
			}
		}
	}
	w.indent(def)
}

func (w *writer) trailingComment() {
	w.emit(strings.Repeat(" ", 1+w.pick(3, "tc_sp")) + "#" + w.commentText())
	w.feat["trailing-comments"] = true
}

func (w *writer) mark(pos map[string]Pos, key string) { pos[key] = Pos{Line: w.line, Col: w.col} }

// Render writes m as DSL with layout choices taken from c. The model must be DSL-expressible
// (at most one direct assignment per relation, in a first position; operators with >= 2 operands).
func Render(m *Model, c Chooser, o RenderOpts) *Rendered {
	w := &writer{c: c, eol: "\n", feat: map[string]bool{}, comments: true}
	r := &Rendered{Pos: map[string]Pos{}, Features: w.feat}
	if w.pick(5, "crlf") == 4 {
		w.eol = "\r\n"
		w.feat["crlf"] = true
		if w.pick(5, "cr_only") == 4 {
			// a lone carriage return is a line end for the lexer too (NEWLINE: '\r'? '\n' | '\r' | '\f'). The documented
			// comment pre-pass works on '\n'-separated lines, so such a file cannot carry comments.
			w.eol = "\r"
			w.comments = false
			delete(w.feat, "crlf")
			w.feat["cr-only-line-ends"] = true
		}
	}
	// leading material
	switch w.pick(6, "lead") {
	case 0, 1, 2:
	case 3:
		w.emit(w.eol + w.eol)
		w.feat["blank-lines"] = true
	case 4:
		if w.comments {
			w.emit("# leading comment" + w.eol + "  #" + w.commentText() + w.eol)
			w.feat["comment-lines"] = true
		}
	default:
		w.emit("  ")
		w.feat["odd-indent"] = true
	}
	if o.Header == "neither" {
		// nothing: the first type definition supplies the leading NEWLINE
	} else if o.Header == "both" {
		w.emit("model")
		w.nl(2, false)
		w.emit("schema")
		w.ws()
		w.emit(m.Schema)
		w.nl(0, false)
		w.emit("module")
		w.ws()
		w.emit("m")
	} else if o.Module != "" {
		w.emit("module")
		w.ws()
		w.mark(r.Pos, "module")
		w.emit(o.Module)
	} else {
		w.emit("model")
		w.nl(2, false)
		w.emit("schema")
		w.ws()
		w.emit(m.Schema)
	}
	nItems := len(m.Types) + len(m.Conds)
	item := 0
	for ti, t := range m.Types {
		if m.PadLines > 0 && ti == m.PadBefore {
			n := m.PadLines
			if w.eol != "\n" && n > 200 {
				n = 200 // long runs of CR LF (or CR) lex in more than quadratic time: recorded finding T5
			}
			w.emit(strings.Repeat(w.eol, n))
			w.feat["blank-lines"] = true
		}
		w.nl(0, false)
		if o.Extend[ti] {
			w.emit("extend")
			w.ws()
		}
		w.emit("type")
		w.ws()
		w.mark(r.Pos, fmt.Sprintf("type:%d", ti))
		w.emit(t.Name)
		if len(t.Rels) > 0 {
			w.nl(2, false)
			w.emit("relations")
			for ri, rel := range t.Rels {
				w.nl(4, false)
				w.emit("define")
				w.ws()
				w.mark(r.Pos, fmt.Sprintf("rel:%d:%d", ti, ri))
				w.emit(rel.Name)
				w.ows(0)
				w.emit(":")
				w.ows(1)
				w.relationDef(rel.Rw, rel.Restr, true, true)
			}
		}
		item++
		_ = nItems
	}
	for ci, cd := range m.Conds {
		w.nl(0, false)
		w.emit("condition")
		w.ws()
		w.mark(r.Pos, fmt.Sprintf("cond:%d", ci))
		w.emit(cd.Name)
		w.ows(0)
		w.emit("(")
		for pi, p := range cd.Params {
			if pi > 0 {
				w.emit(",")
				w.ows(1)
			} else {
				w.ows(0)
			}
			w.mark(r.Pos, fmt.Sprintf("param:%d:%d", ci, pi))
			w.emit(p.Name)
			w.ows(0)
			w.emit(":")
			w.ows(1)
			w.emit(p.TypeString())
			w.ows(0)
		}
		w.emit(")")
		w.ows(1)
		w.emit("{")
		// body layout; the expression text itself is emitted verbatim
		switch w.pick(5, "body") {
		case 0, 1:
			w.emit(w.eol + "  " + w.expr(cd.Expr) + w.eol + "}")
		case 2:
			w.emit(" " + w.expr(cd.Expr) + " }")
			w.feat["inline-condition-body"] = true
		case 3:
			w.emit(w.expr(cd.Expr) + "}")
			w.feat["inline-condition-body"] = true
		default:
			w.emit(w.eol + w.eol + "\t" + w.expr(cd.Expr) + "  " + w.eol + "  }")
			w.feat["tabs"] = true
		}
	}
	w.nl(0, true)
	r.Text = w.b.String()
	return r
}

// expr adapts line ends of a multi-line expression to the file's convention.
func (w *writer) expr(e string) string {
	if w.eol == "\r\n" {
		return strings.ReplaceAll(strings.ReplaceAll(e, "\r\n", "\n"), "\n", "\r\n")
	}
	return e
}

func opWord(kind string) string {
	switch kind {
	case Union:
		return "or"
	case Intersection:
		return "and"
	}
	return "but not"
}

// relationDef writes a rewrite at the top level of a definition or inside parentheses.
// first: a direct assignment may still appear in this subtree; top: not yet inside parentheses.
func (w *writer) relationDef(r *Rewrite, restr []Restriction, first, top bool) {
	// redundant parentheses around the whole definition / any operand
	if w.pick(8, "redundant_parens") == 7 {
		w.feat["redundant-parens"] = true
		// one pair, or (one time in six) many pairs at once: depths around 8, 16 and 32
		pairs := 1
		if w.pick(6, "paren_pairs") == 5 {
			pairs = []int{7, 8, 9, 15, 16, 17, 33}[w.pick(7, "paren_pairs_n")]
			w.feat["deep-redundant-parens"] = true
		}
		for i := 0; i < pairs; i++ {
			w.emit("(")
			w.ows(0)
		}
		w.relationDef(r, restr, first, false)
		for i := 0; i < pairs; i++ {
			w.ows(0)
			w.emit(")")
		}
		return
	}
	switch r.Kind {
	case This:
		w.direct(restr)
	case Computed:
		w.emit(r.Rel)
	case TTU:
		w.emit(r.Rel)
		w.ws()
		w.emit("from")
		w.ws()
		w.emit(r.Tupleset)
	default:
		for i, k := range r.Kids {
			if i > 0 {
				w.ws()
				if r.Mixed != "" && i == len(r.Kids)-1 {
					w.emit(opWord(r.Mixed))
				} else {
					w.emit(opWord(r.Kind))
				}
				w.ws()
			}
			w.operand(k, restr, first && i == 0)
		}
	}
}

// operand writes one operand of an operator: leaves bare (or redundantly parenthesised), nested
// operators always in parentheses.
func (w *writer) operand(r *Rewrite, restr []Restriction, first bool) {
	if r.IsOp() {
		w.emit("(")
		w.ows(0)
		w.relationDef(r, restr, first, false)
		w.ows(0)
		w.emit(")")
		return
	}
	w.relationDef(r, restr, first, false)
}

func (w *writer) direct(restr []Restriction) {
	multi := w.pick(5, "restr_multiline") == 4
	if multi {
		w.feat["multi-line-restrictions"] = true
	}
	saved := w.comments
	w.emit("[")
	if len(restr) == 0 && w.pick(2, "empty_restr_blank") == 1 {
		w.emit(" ")
	}
	for i, x := range restr {
		if i > 0 {
			w.emit(",")
		}
		if multi {
			w.nl(6, false)
		} else if i > 0 {
			w.ows(1)
		} else {
			w.ows(0)
		}
		w.emit(x.Type)
		if x.Wild {
			w.emit(":*")
		}
		if x.Rel != "" {
			w.emit("#" + x.Rel)
		}
		if x.Cond != "" {
			w.ws()
			w.emit("with")
			w.ws()
			w.emit(x.Cond)
		}
		if !multi {
			w.ows(0)
		}
	}
	if multi {
		w.nl(4, false)
	}
	w.comments = saved
	w.emit("]")
}

// CountFeatures returns how many layout feature classes differ from the canonical printer's layout.
func (r *Rendered) CountFeatures() int { return len(r.Features) }

// LineCount is the number of "\n"-separated lines.
func LineCount(s string) int { return strings.Count(s, "\n") + 1 }

// RuneLen of line i.
func LineRuneLen(s string, i int) int {
	lines := strings.Split(s, "\n")
	if i < 0 || i >= len(lines) {
		return -1
	}
	return utf8.RuneCountInString(lines[i])
}
