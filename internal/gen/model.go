// Package gen holds the shared generators: a small authorization-model AST, conversions to the
// protobuf model, rapid generators for several profiles, an independent DSL renderer with random
// layout, module file sets and byte mutators.
package gen

import (
	"fmt"
	"sort"
	"strings"

	openfgav1 "github.com/openfga/api/proto/openfga/v1"
)

const (
	This         = "this"
	Computed     = "computed"
	TTU          = "ttu"
	Union        = "union"
	Intersection = "intersection"
	Difference   = "difference"
)

type Rewrite struct {
	Kind     string     `json:"k"`
	Rel      string     `json:"r,omitempty"`
	Tupleset string     `json:"ts,omitempty"`
	Kids     []*Rewrite `json:"c,omitempty"`
	// Mixed (fault injection only): the renderer writes the LAST separator of this operator with the
	// word of operator kind Mixed, producing different operators at one nesting level.
	Mixed string `json:"mixed,omitempty"`
}

type Restriction struct {
	Type string `json:"t"`
	Rel  string `json:"r,omitempty"`
	Wild bool   `json:"w,omitempty"`
	Cond string `json:"c,omitempty"`
}

type Relation struct {
	Name  string        `json:"name"`
	Rw    *Rewrite      `json:"rw"`
	Restr []Restriction `json:"restr,omitempty"`
	// attribution (modular models): module/file of the extension that contributed the relation
	Module string `json:"module,omitempty"`
	File   string `json:"file,omitempty"`
}

type TypeDef struct {
	Name   string     `json:"name"`
	Rels   []Relation `json:"rels,omitempty"`
	Module string     `json:"module,omitempty"`
	File   string     `json:"file,omitempty"`
}

type Param struct {
	Name string `json:"name"`
	Type string `json:"type"`           // bool string int uint double duration timestamp ipaddress any list map
	Elem string `json:"elem,omitempty"` // element type of list/map
}

type Condition struct {
	Name   string  `json:"name"`
	Params []Param `json:"params"`
	Expr   string  `json:"expr"`
	Module string  `json:"module,omitempty"`
	File   string  `json:"file,omitempty"`
}

type Model struct {
	Schema string      `json:"schema"`
	Types  []TypeDef   `json:"types"`
	Conds  []Condition `json:"conds,omitempty"`
	// SparseMeta: the protobuf form carries relation metadata only where there is something to say (type
	// restrictions or attribution), the way hand-written API models do; relations defined purely by rewrites have no
	// metadata entry.
	SparseMeta bool `json:"sparse_meta,omitempty"`
	// Scaled names the dimension along which InflateGraph scaled the model up ("" = not scaled); informational.
	Scaled string `json:"scaled,omitempty"`
	// Named: "<family>:<kind of name>" when two names were renamed to a special pair (names.go); informational
	Named string `json:"special_names,omitempty"`
	// PadLines blank lines are written in front of type number PadBefore (renderer; layout only, no meaning)
	PadLines  int `json:"pad_lines,omitempty"`
	PadBefore int `json:"pad_before,omitempty"`
}

func (r *Rewrite) Clone() *Rewrite {
	if r == nil {
		return nil
	}
	c := &Rewrite{Kind: r.Kind, Rel: r.Rel, Tupleset: r.Tupleset, Mixed: r.Mixed}
	for _, k := range r.Kids {
		c.Kids = append(c.Kids, k.Clone())
	}
	return c
}

func (m *Model) Clone() *Model {
	c := &Model{Schema: m.Schema, SparseMeta: m.SparseMeta, Scaled: m.Scaled, PadLines: m.PadLines, PadBefore: m.PadBefore, Named: m.Named}
	for _, t := range m.Types {
		ct := TypeDef{Name: t.Name, Module: t.Module, File: t.File}
		for _, r := range t.Rels {
			ct.Rels = append(ct.Rels, Relation{Name: r.Name, Rw: r.Rw.Clone(), Restr: append([]Restriction(nil), r.Restr...), Module: r.Module, File: r.File})
		}
		c.Types = append(c.Types, ct)
	}
	for _, cd := range m.Conds {
		c.Conds = append(c.Conds, Condition{Name: cd.Name, Params: append([]Param(nil), cd.Params...), Expr: cd.Expr, Module: cd.Module, File: cd.File})
	}
	return c
}

// Walk visits every node of a rewrite tree in pre-order.
func (r *Rewrite) Walk(f func(*Rewrite, int)) { r.walk(f, 0) }
func (r *Rewrite) walk(f func(*Rewrite, int), d int) {
	if r == nil {
		return
	}
	f(r, d)
	for _, k := range r.Kids {
		k.walk(f, d+1)
	}
}

func (r *Rewrite) IsOp() bool {
	return r != nil && (r.Kind == Union || r.Kind == Intersection || r.Kind == Difference)
}

func (r *Rewrite) CountThis() int {
	n := 0
	r.Walk(func(x *Rewrite, _ int) {
		if x.Kind == This {
			n++
		}
	})
	return n
}

func (r *Rewrite) Depth() int {
	d := 0
	r.Walk(func(_ *Rewrite, dd int) {
		if dd > d {
			d = dd
		}
	})
	return d
}

func (r *Rewrite) CountOps() int {
	n := 0
	r.Walk(func(x *Rewrite, _ int) {
		if x.IsOp() {
			n++
		}
	})
	return n
}

// String is a compact, unambiguous debugging form (not DSL).
func (r *Rewrite) String() string {
	if r == nil {
		return "<nil>"
	}
	switch r.Kind {
	case This:
		return "this"
	case Computed:
		return r.Rel
	case TTU:
		return r.Rel + " from " + r.Tupleset
	}
	op := map[string]string{Union: " or ", Intersection: " and ", Difference: " but not "}[r.Kind]
	s := []string{}
	for _, k := range r.Kids {
		s = append(s, k.String())
	}
	return "(" + strings.Join(s, op) + ")"
}

func (x Restriction) String() string {
	y := x.Type
	if x.Wild {
		y += ":*"
	}
	if x.Rel != "" {
		y += "#" + x.Rel
	}
	if x.Cond != "" {
		y += " with " + x.Cond
	}
	return y
}

func (m *Model) String() string {
	var b strings.Builder
	fmt.Fprintf(&b, "schema %s\n", m.Schema)
	for _, t := range m.Types {
		fmt.Fprintf(&b, "type %s", t.Name)
		if t.Module != "" || t.File != "" {
			fmt.Fprintf(&b, "  # module=%s file=%s", t.Module, t.File)
		}
		b.WriteString("\n")
		for _, r := range t.Rels {
			rs := []string{}
			for _, x := range r.Restr {
				rs = append(rs, x.String())
			}
			fmt.Fprintf(&b, "    define %s: %s   [%s]", r.Name, r.Rw.String(), strings.Join(rs, ", "))
			if r.Module != "" || r.File != "" {
				fmt.Fprintf(&b, "  # module=%s file=%s", r.Module, r.File)
			}
			b.WriteString("\n")
		}
	}
	for _, c := range m.Conds {
		ps := []string{}
		for _, p := range c.Params {
			ps = append(ps, p.Name+": "+p.TypeString())
		}
		fmt.Fprintf(&b, "condition %s(%s) {%q}\n", c.Name, strings.Join(ps, ", "), c.Expr)
	}
	return b.String()
}

func (p Param) TypeString() string {
	if (p.Type == "list" || p.Type == "map") && p.Elem != "" {
		return p.Type + "<" + p.Elem + ">"
	}
	return p.Type
}

// ---------------------------------------------------------------------------------------------
// AST -> protobuf

func typeName(s string) openfgav1.ConditionParamTypeRef_TypeName {
	return openfgav1.ConditionParamTypeRef_TypeName(openfgav1.ConditionParamTypeRef_TypeName_value["TYPE_NAME_"+strings.ToUpper(s)])
}

func (r *Rewrite) Userset() *openfgav1.Userset {
	switch r.Kind {
	case This:
		return &openfgav1.Userset{Userset: &openfgav1.Userset_This{This: &openfgav1.DirectUserset{}}}
	case Computed:
		return &openfgav1.Userset{Userset: &openfgav1.Userset_ComputedUserset{ComputedUserset: &openfgav1.ObjectRelation{Relation: r.Rel}}}
	case TTU:
		return &openfgav1.Userset{Userset: &openfgav1.Userset_TupleToUserset{TupleToUserset: &openfgav1.TupleToUserset{
			Tupleset: &openfgav1.ObjectRelation{Relation: r.Tupleset}, ComputedUserset: &openfgav1.ObjectRelation{Relation: r.Rel}}}}
	case Union, Intersection:
		kids := []*openfgav1.Userset{}
		for _, k := range r.Kids {
			kids = append(kids, k.Userset())
		}
		if r.Kind == Union {
			return &openfgav1.Userset{Userset: &openfgav1.Userset_Union{Union: &openfgav1.Usersets{Child: kids}}}
		}
		return &openfgav1.Userset{Userset: &openfgav1.Userset_Intersection{Intersection: &openfgav1.Usersets{Child: kids}}}
	case Difference:
		return &openfgav1.Userset{Userset: &openfgav1.Userset_Difference{Difference: &openfgav1.Difference{Base: r.Kids[0].Userset(), Subtract: r.Kids[1].Userset()}}}
	}
	panic("gen: unknown rewrite kind " + r.Kind)
}

func (x Restriction) Ref() *openfgav1.RelationReference {
	ref := &openfgav1.RelationReference{Type: x.Type, Condition: x.Cond}
	if x.Wild {
		ref.RelationOrWildcard = &openfgav1.RelationReference_Wildcard{Wildcard: &openfgav1.Wildcard{}}
	} else if x.Rel != "" {
		ref.RelationOrWildcard = &openfgav1.RelationReference_Relation{Relation: x.Rel}
	}
	return ref
}

// Proto builds the protobuf model the way the API carries it: metadata only for types with
// relations, one RelationMetadata per relation (restrictions in order), module/file attribution
// where the AST has it.
func (m *Model) Proto() *openfgav1.AuthorizationModel {
	out := &openfgav1.AuthorizationModel{SchemaVersion: m.Schema}
	for _, t := range m.Types {
		td := &openfgav1.TypeDefinition{Type: t.Name}
		if len(t.Rels) > 0 || t.Module != "" || t.File != "" {
			td.Metadata = &openfgav1.Metadata{Module: t.Module}
			if t.File != "" {
				td.Metadata.SourceInfo = &openfgav1.SourceInfo{File: t.File}
			}
		}
		if len(t.Rels) > 0 {
			td.Relations = map[string]*openfgav1.Userset{}
			td.Metadata.Relations = map[string]*openfgav1.RelationMetadata{}
			for _, r := range t.Rels {
				td.Relations[r.Name] = r.Rw.Userset()
				rm := &openfgav1.RelationMetadata{Module: r.Module}
				if r.File != "" {
					rm.SourceInfo = &openfgav1.SourceInfo{File: r.File}
				}
				for _, x := range r.Restr {
					rm.DirectlyRelatedUserTypes = append(rm.DirectlyRelatedUserTypes, x.Ref())
				}
				if m.SparseMeta && len(r.Restr) == 0 && r.Module == "" && r.File == "" && r.Rw.CountThis() == 0 {
					continue
				}
				td.Metadata.Relations[r.Name] = rm
			}
		}
		out.TypeDefinitions = append(out.TypeDefinitions, td)
	}
	if len(m.Conds) > 0 {
		out.Conditions = map[string]*openfgav1.Condition{}
		for _, c := range m.Conds {
			pc := &openfgav1.Condition{Name: c.Name, Expression: c.Expr, Parameters: map[string]*openfgav1.ConditionParamTypeRef{}}
			for _, p := range c.Params {
				ref := &openfgav1.ConditionParamTypeRef{TypeName: typeName(p.Type)}
				if p.Elem != "" {
					ref.GenericTypes = []*openfgav1.ConditionParamTypeRef{{TypeName: typeName(p.Elem)}}
				}
				pc.Parameters[p.Name] = ref
			}
			if c.Module != "" || c.File != "" {
				pc.Metadata = &openfgav1.ConditionMetadata{Module: c.Module}
				if c.File != "" {
					pc.Metadata.SourceInfo = &openfgav1.SourceInfo{File: c.File}
				}
			}
			out.Conditions[c.Name] = pc
		}
	}
	return out
}

// ---------------------------------------------------------------------------------------------
// protobuf -> AST (canonical view used for comparisons; relations, conditions and parameters are
// maps in the protobuf model, so they are sorted by name here; types and restrictions keep order)

func RewriteFromUserset(u *openfgav1.Userset) *Rewrite {
	return rewriteFromUserset(u, map[*openfgav1.Userset]bool{})
}

// CyclicModel reports the first relation whose rewrite tree is not a tree (a node is its own descendant); walking such
// a model with the protobuf library overflows the stack, so checks ask before they compare, clone or marshal a model the
// library returned.
func CyclicModel(pm *openfgav1.AuthorizationModel) string {
	for _, td := range pm.GetTypeDefinitions() {
		for n, u := range td.GetRelations() {
			cyc := false
			rewriteFromUserset(u, map[*openfgav1.Userset]bool{}).Walk(func(x *Rewrite, _ int) {
				if strings.HasPrefix(x.Kind, "cyclic!") {
					cyc = true
				}
			})
			if cyc {
				return td.GetType() + "#" + n
			}
		}
	}
	return ""
}

func rewriteFromUserset(u *openfgav1.Userset, path map[*openfgav1.Userset]bool) *Rewrite {
	if u == nil {
		return &Rewrite{Kind: "nil"}
	}
	if path[u] {
		return &Rewrite{Kind: "cyclic! (a rewrite node is its own descendant)"}
	}
	path[u] = true
	defer delete(path, u)
	RewriteFromUserset := func(c *openfgav1.Userset) *Rewrite { return rewriteFromUserset(c, path) }
	switch x := u.GetUserset().(type) {
	case *openfgav1.Userset_This:
		return &Rewrite{Kind: This}
	case *openfgav1.Userset_ComputedUserset:
		return &Rewrite{Kind: Computed, Rel: x.ComputedUserset.GetRelation()}
	case *openfgav1.Userset_TupleToUserset:
		return &Rewrite{Kind: TTU, Rel: x.TupleToUserset.GetComputedUserset().GetRelation(), Tupleset: x.TupleToUserset.GetTupleset().GetRelation()}
	case *openfgav1.Userset_Union:
		r := &Rewrite{Kind: Union}
		for _, c := range x.Union.GetChild() {
			r.Kids = append(r.Kids, RewriteFromUserset(c))
		}
		return r
	case *openfgav1.Userset_Intersection:
		r := &Rewrite{Kind: Intersection}
		for _, c := range x.Intersection.GetChild() {
			r.Kids = append(r.Kids, RewriteFromUserset(c))
		}
		return r
	case *openfgav1.Userset_Difference:
		return &Rewrite{Kind: Difference, Kids: []*Rewrite{RewriteFromUserset(x.Difference.GetBase()), RewriteFromUserset(x.Difference.GetSubtract())}}
	}
	return &Rewrite{Kind: "empty"}
}

func typeNameString(t openfgav1.ConditionParamTypeRef_TypeName) string {
	return strings.ToLower(strings.TrimPrefix(t.String(), "TYPE_NAME_"))
}

func FromProto(pm *openfgav1.AuthorizationModel) *Model {
	m := &Model{Schema: pm.GetSchemaVersion()}
	for _, td := range pm.GetTypeDefinitions() {
		t := TypeDef{Name: td.GetType(), Module: td.GetMetadata().GetModule(), File: td.GetMetadata().GetSourceInfo().GetFile()}
		names := []string{}
		for n := range td.GetRelations() {
			names = append(names, n)
		}
		sort.Strings(names)
		for _, n := range names {
			r := Relation{Name: n, Rw: RewriteFromUserset(td.GetRelations()[n])}
			if rm, ok := td.GetMetadata().GetRelations()[n]; ok {
				r.Module, r.File = rm.GetModule(), rm.GetSourceInfo().GetFile()
				for _, ref := range rm.GetDirectlyRelatedUserTypes() {
					r.Restr = append(r.Restr, Restriction{Type: ref.GetType(), Rel: ref.GetRelation(), Wild: ref.GetWildcard() != nil, Cond: ref.GetCondition()})
				}
			}
			t.Rels = append(t.Rels, r)
		}
		// metadata entries for relations that do not exist are reported as pseudo relations so that
		// "nothing invented" comparisons see them
		extra := []string{}
		for n := range td.GetMetadata().GetRelations() {
			if _, ok := td.GetRelations()[n]; !ok {
				extra = append(extra, n)
			}
		}
		sort.Strings(extra)
		for _, n := range extra {
			t.Rels = append(t.Rels, Relation{Name: "<metadata-only>" + n})
		}
		m.Types = append(m.Types, t)
	}
	names := []string{}
	for n := range pm.GetConditions() {
		names = append(names, n)
	}
	sort.Strings(names)
	for _, n := range names {
		pc := pm.GetConditions()[n]
		c := Condition{Name: pc.GetName(), Expr: pc.GetExpression(), Module: pc.GetMetadata().GetModule(), File: pc.GetMetadata().GetSourceInfo().GetFile()}
		if n != pc.GetName() {
			c.Name = n + "<key!=name>" + pc.GetName()
		}
		pn := []string{}
		for k := range pc.GetParameters() {
			pn = append(pn, k)
		}
		sort.Strings(pn)
		for _, k := range pn {
			ref := pc.GetParameters()[k]
			p := Param{Name: k, Type: typeNameString(ref.GetTypeName())}
			for i, g := range ref.GetGenericTypes() {
				if i == 0 {
					p.Elem = typeNameString(g.GetTypeName())
				} else {
					p.Elem += "," + typeNameString(g.GetTypeName())
				}
			}
			c.Params = append(c.Params, p)
		}
		m.Conds = append(m.Conds, c)
	}
	return m
}

// Canon returns a copy with relations, conditions and parameters sorted by name (the protobuf
// model keeps them in maps) so that two ASTs can be compared with Diff.
func (m *Model) Canon() *Model {
	c := m.Clone()
	for i := range c.Types {
		sort.SliceStable(c.Types[i].Rels, func(a, b int) bool { return c.Types[i].Rels[a].Name < c.Types[i].Rels[b].Name })
	}
	sort.SliceStable(c.Conds, func(a, b int) bool { return c.Conds[a].Name < c.Conds[b].Name })
	for i := range c.Conds {
		sort.SliceStable(c.Conds[i].Params, func(a, b int) bool { return c.Conds[i].Params[a].Name < c.Conds[i].Params[b].Name })
	}
	return c
}

// NormExprLoose collapses every run of whitespace to one blank and trims (expression text
// "compared modulo whitespace").
func NormExprLoose(s string) string { return strings.Join(strings.Fields(s), " ") }

// NormExprTrim removes trailing whitespace of every line and surrounding whitespace
// ("modulo surrounding/trailing whitespace").
func NormExprTrim(s string) string {
	lines := strings.Split(strings.ReplaceAll(s, "\r\n", "\n"), "\n")
	for i := range lines {
		lines[i] = strings.TrimRight(lines[i], " \t\r\f")
	}
	return strings.TrimSpace(strings.Join(lines, "\n"))
}

type DiffOpts struct {
	Expr          func(string) string // expression normaliser (nil = exact)
	IgnoreAttrib  bool                // ignore module/file attribution
	IgnoreSchema  bool
	TypesAsSet    bool // compare types sorted by name
	IgnoreRestrOf func(r Relation) bool
}

// Diff returns "" when a and b (both canonical) denote the same model, else a description of the
// first difference.
func Diff(a, b *Model, o DiffOpts) string {
	a, b = a.Canon(), b.Canon()
	if o.TypesAsSet {
		sort.SliceStable(a.Types, func(i, j int) bool { return a.Types[i].Name < a.Types[j].Name })
		sort.SliceStable(b.Types, func(i, j int) bool { return b.Types[i].Name < b.Types[j].Name })
	}
	if !o.IgnoreSchema && a.Schema != b.Schema {
		return fmt.Sprintf("schema %q vs %q", a.Schema, b.Schema)
	}
	if len(a.Types) != len(b.Types) {
		return fmt.Sprintf("%d types vs %d types (%v vs %v)", len(a.Types), len(b.Types), typeNames(a), typeNames(b))
	}
	for i := range a.Types {
		ta, tb := a.Types[i], b.Types[i]
		if ta.Name != tb.Name {
			return fmt.Sprintf("type #%d: %q vs %q", i, ta.Name, tb.Name)
		}
		if !o.IgnoreAttrib && (ta.Module != tb.Module || ta.File != tb.File) {
			return fmt.Sprintf("type %s attribution: module=%q file=%q vs module=%q file=%q", ta.Name, ta.Module, ta.File, tb.Module, tb.File)
		}
		if len(ta.Rels) != len(tb.Rels) {
			return fmt.Sprintf("type %s: %d relations vs %d (%v vs %v)", ta.Name, len(ta.Rels), len(tb.Rels), relNames(ta), relNames(tb))
		}
		for j := range ta.Rels {
			ra, rb := ta.Rels[j], tb.Rels[j]
			if ra.Name != rb.Name {
				return fmt.Sprintf("type %s relation #%d: %q vs %q", ta.Name, j, ra.Name, rb.Name)
			}
			if ra.Rw.String() != rb.Rw.String() {
				return fmt.Sprintf("%s#%s rewrite: %s vs %s", ta.Name, ra.Name, ra.Rw, rb.Rw)
			}
			if !o.IgnoreAttrib && (ra.Module != rb.Module || ra.File != rb.File) {
				return fmt.Sprintf("%s#%s attribution: module=%q file=%q vs module=%q file=%q", ta.Name, ra.Name, ra.Module, ra.File, rb.Module, rb.File)
			}
			if o.IgnoreRestrOf != nil && o.IgnoreRestrOf(ra) {
				continue
			}
			if fmt.Sprint(ra.Restr) != fmt.Sprint(rb.Restr) || len(ra.Restr) != len(rb.Restr) {
				return fmt.Sprintf("%s#%s type restrictions: %v vs %v", ta.Name, ra.Name, ra.Restr, rb.Restr)
			}
		}
	}
	if len(a.Conds) != len(b.Conds) {
		return fmt.Sprintf("%d conditions vs %d", len(a.Conds), len(b.Conds))
	}
	for i := range a.Conds {
		ca, cb := a.Conds[i], b.Conds[i]
		if ca.Name != cb.Name {
			return fmt.Sprintf("condition #%d: %q vs %q", i, ca.Name, cb.Name)
		}
		if fmt.Sprint(ca.Params) != fmt.Sprint(cb.Params) {
			return fmt.Sprintf("condition %s parameters: %v vs %v", ca.Name, ca.Params, cb.Params)
		}
		ea, eb := ca.Expr, cb.Expr
		if o.Expr != nil {
			ea, eb = o.Expr(ea), o.Expr(eb)
		}
		if ea != eb {
			return fmt.Sprintf("condition %s expression: %q vs %q", ca.Name, ca.Expr, cb.Expr)
		}
		if !o.IgnoreAttrib && (ca.Module != cb.Module || ca.File != cb.File) {
			return fmt.Sprintf("condition %s attribution: module=%q file=%q vs module=%q file=%q", ca.Name, ca.Module, ca.File, cb.Module, cb.File)
		}
	}
	return ""
}

func typeNames(m *Model) []string {
	s := []string{}
	for _, t := range m.Types {
		s = append(s, t.Name)
	}
	return s
}

func relNames(t TypeDef) []string {
	s := []string{}
	for _, r := range t.Rels {
		s = append(s, r.Name)
	}
	return s
}
