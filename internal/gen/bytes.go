package gen

import (
	"os"
	"path/filepath"
	"regexp"
	"sort"
	"strings"
	"sync"

	"gopkg.in/yaml.v3"
	"pgregory.net/rapid"
)

// Corpus is the repository's shared test data, read once per process from <repo>/tests/data.
type Corpus struct {
	DSL     []string // full model documents
	Modules []string // module files
	JSON    []string // authorization-model.json goldens
	Syntax  []string // documents of dsl-syntax-validation-cases.yaml (valid and invalid)
	ModYAML []string // fga.mod documents from fga-mod-transformer-cases.yaml
}

var (
	corpusOnce sync.Once
	corpus     *Corpus
)

func LoadCorpus(repo string) *Corpus {
	corpusOnce.Do(func() {
		c := &Corpus{}
		read := func(glob string) []string {
			ms, _ := filepath.Glob(filepath.Join(repo, glob))
			sort.Strings(ms)
			var out []string
			for _, p := range ms {
				if b, err := os.ReadFile(p); err == nil {
					out = append(out, string(b))
				}
			}
			return out
		}
		c.DSL = read("tests/data/transformer/*/authorization-model.fga")
		c.JSON = read("tests/data/transformer/*/authorization-model.json")
		c.Modules = read("tests/data/transformer-module/*/module/*.fga")
		c.Modules = append(c.Modules, read("tests/data/transformer-module/*/module/*/*.fga")...)
		for _, f := range []string{"tests/data/dsl-syntax-validation-cases.yaml", "tests/data/dsl-semantic-validation-cases.yaml"} {
			if b, err := os.ReadFile(filepath.Join(repo, f)); err == nil {
				var cases []struct {
					DSL string `yaml:"dsl"`
				}
				if yaml.Unmarshal(b, &cases) == nil {
					for _, cs := range cases {
						if cs.DSL != "" {
							c.Syntax = append(c.Syntax, cs.DSL)
						}
					}
				}
			}
		}
		if b, err := os.ReadFile(filepath.Join(repo, "tests/data/fga-mod-transformer-cases.yaml")); err == nil {
			var cases []struct {
				ModFile string `yaml:"modFile"`
			}
			if yaml.Unmarshal(b, &cases) == nil {
				for _, cs := range cases {
					if cs.ModFile != "" {
						c.ModYAML = append(c.ModYAML, cs.ModFile)
					}
				}
			}
		}
		corpus = c
	})
	return corpus
}

// Hostile constants: inputs that stress lexer modes, recovery paths and the comment pre-pass.
var Hostile = []string{
	"\n", "\r\n", "\r", "\t", " ", "  ", " # c", "\n# c\n", "#", " #", "(", ")", "[", "]", "{", "}", ",", ":", "*", "#x", ":*",
	" or ", " and ", " but not ", " from ", " with ", "define", "define ", "type", "type ", "extend type ", "extend", "module", "module ", "module\n",
	"model", "model\n  schema 1.1\n", "schema", "schema 1.1", "relations", "relations\n", "condition", "condition c(x: int) {\n x > 1\n}\n", "condition c(",
	"list<", "map<string>", "<", ">", "\"", "'", "\"\"\"", "'''", "r'", "b\"", "//", "// c\n", "\\", "\x00", "\xff", "é", " ", "0x", "1.", "1.1", ".", "-", "/", "--",
	"x", "a-", "a.b", "a/b", "_", "in", "true", "null", "but", "not", "[user]", "[user:*]", "[user with c]", "[]", "[ ]", "user:*#r", "(((", ")))",
	"\n\n\n", "    ", "\t\t", "&&", "||", "==", "!", "?", "%", "+",
	// characters no lexer rule matches, alone and where an empty construct surrounds them
	"@", "$", ";", "`", "~", "^", "{@}", "{ $}", "{\n;}", "{\n  é}", "(@)", "[$]", "condition c(x: int) {@}\n", "condition c(x: int) {\n  $\n}\n",
	// white space that is white space for Go's strings/unicode packages but not for the lexer, as lines of their own
	"\v", "\u0085", "\u00a0", "\u2028", "\u3000", "\n\v\n", "\n\u00a0\n", "\n\u2028\n", "\n\u3000\n", "\n\u0085\n", "\n\u00a0# c\n", "\n\v# c\n", "\n \u3000 \n",
}

var tokenSplit = regexp.MustCompile(`[A-Za-z_][A-Za-z0-9_\-./]*|\s+|.`)

// Mutate applies 1..n grammar-aware and byte-level mutations, every choice a rapid draw.
func Mutate(t *rapid.T, doc string, others []string, maxMut int) string {
	n := rapid.IntRange(1, maxMut).Draw(t, "nMut")
	for i := 0; i < n; i++ {
		toks := tokenSplit.FindAllString(doc, -1)
		switch rapid.IntRange(0, 11).Draw(t, "mutKind") {
		case 0: // delete a token
			if len(toks) > 0 {
				j := rapid.IntRange(0, len(toks)-1).Draw(t, "at")
				toks = append(toks[:j], toks[j+1:]...)
				doc = strings.Join(toks, "")
			}
		case 1: // duplicate a token
			if len(toks) > 0 {
				j := rapid.IntRange(0, len(toks)-1).Draw(t, "at")
				toks = append(toks[:j+1], toks[j:]...)
				doc = strings.Join(toks, "")
			}
		case 2: // swap two tokens
			if len(toks) > 1 {
				a := rapid.IntRange(0, len(toks)-1).Draw(t, "a")
				b := rapid.IntRange(0, len(toks)-1).Draw(t, "b")
				toks[a], toks[b] = toks[b], toks[a]
				doc = strings.Join(toks, "")
			}
		case 3, 4: // insert a hostile constant at a token boundary
			j := 0
			if len(toks) > 0 {
				j = rapid.IntRange(0, len(toks)).Draw(t, "at")
			}
			h := rapid.SampledFrom(Hostile).Draw(t, "hostile")
			doc = strings.Join(toks[:j], "") + h + strings.Join(toks[j:], "")
		case 5: // replace a token by a hostile constant
			if len(toks) > 0 {
				j := rapid.IntRange(0, len(toks)-1).Draw(t, "at")
				toks[j] = rapid.SampledFrom(Hostile).Draw(t, "hostile")
				doc = strings.Join(toks, "")
			}
		case 6: // truncate
			if len(doc) > 0 {
				doc = doc[:rapid.IntRange(0, len(doc)).Draw(t, "cut")]
			}
		case 7: // byte flip / random byte
			if len(doc) > 0 {
				b := []byte(doc)
				j := rapid.IntRange(0, len(b)-1).Draw(t, "at")
				b[j] = rapid.Byte().Draw(t, "byte")
				doc = string(b)
			}
		case 8: // splice with another document
			if len(others) > 0 {
				o := rapid.SampledFrom(others).Draw(t, "other")
				a := rapid.IntRange(0, len(doc)).Draw(t, "cutA")
				b := rapid.IntRange(0, len(o)).Draw(t, "cutB")
				doc = doc[:a] + o[b:]
			}
		case 9: // delete a line
			lines := strings.Split(doc, "\n")
			if len(lines) > 1 {
				j := rapid.IntRange(0, len(lines)-1).Draw(t, "line")
				lines = append(lines[:j], lines[j+1:]...)
				doc = strings.Join(lines, "\n")
			}
		case 10: // duplicate a line
			lines := strings.Split(doc, "\n")
			j := rapid.IntRange(0, len(lines)-1).Draw(t, "line")
			lines = append(lines[:j+1], lines[j:]...)
			doc = strings.Join(lines, "\n")
		default: // repeat a short hostile string
			h := rapid.SampledFrom(Hostile).Draw(t, "hostile")
			k := rapid.IntRange(2, 40).Draw(t, "rep")
			j := rapid.IntRange(0, len(doc)).Draw(t, "at")
			doc = doc[:j] + strings.Repeat(h, k) + doc[j:]
		}
		if len(doc) > 6000 {
			doc = doc[:6000]
		}
	}
	return doc
}

// HashInConditionArea: conservative text test for "a '#' may be inside a condition body": any '#'
// at or after the first line that starts a condition.
func HashInConditionArea(doc string) bool {
	lines := strings.Split(doc, "\n")
	in := false
	for _, l := range lines {
		if !in && strings.Contains(l, "condition") {
			in = true
		}
		if in && strings.Contains(l, "#") {
			return true
		}
	}
	return false
}
