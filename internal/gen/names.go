package gen

import (
	"strings"

	"pgregory.net/rapid"
)

// Special name pairs: two DIFFERENT legal names that some plausible derived key makes equal, or that are related in a
// way shortcuts get wrong. A model generator renames two of its names to such a pair in a fraction of its cases.
//
//	hash       equal under a usual 32-bit string hash (HashTwins)
//	prefix     one is a proper prefix of the other ("member"/"members", "r1"/"r10")
//	suffix     one is a proper suffix of the other ("group"/"subgroup")
//	longprefix equal length, equal first 8+ bytes ("document_viewer"/"document_editor")
//	zeros      equal under a natural (digit-run) comparison ("team1"/"team01")
//	case       equal under case folding ("viewer"/"Viewer")
//	dash       IDENTIFIER forms that EXTENDED_IDENTIFIER-shaped patterns reject ("team-", "a--b")
type NamePair struct {
	A, B string
	Kind string
}

var fixedNamePairs = []NamePair{
	{"member", "members", "prefix"}, {"member", "member_of", "prefix"}, {"r1", "r10", "prefix"}, {"own", "owner", "prefix"},
	{"group", "subgroup", "suffix"}, {"team", "subteam", "suffix"}, {"reader", "proofreader", "suffix"},
	{"document_viewer", "document_editor", "longprefix"}, {"workspace_member_a", "workspace_member_b", "longprefix"}, {"organization_x1", "organization_y2", "longprefix"},
	{"team1", "team01", "zeros"}, {"step1", "step001", "zeros"}, {"v7_reader", "v07_reader", "zeros"},
	{"viewer", "Viewer", "case"}, {"region", "REGION", "case"}, {"in_hours", "In_Hours", "case"},
	{"team-", "team", "dash"}, {"a--b", "a-b", "dash"}, {"tenant--eu", "tenant-eu", "dash"}, {"viewer-", "viewer-x", "dash"},
}

// DrawNamePair draws one special pair.
func DrawNamePair(t *rapid.T) NamePair {
	if rapid.IntRange(0, 3).Draw(t, "namePairHash") == 0 {
		tw := HashTwins()
		p := tw[rapid.IntRange(0, len(tw)-1).Draw(t, "hashTwin")]
		return NamePair{p[0], p[1], "hash"}
	}
	p := fixedNamePairs[rapid.IntRange(0, len(fixedNamePairs)-1).Draw(t, "namePair")]
	if rapid.Bool().Draw(t, "namePairSwap") {
		p.A, p.B = p.B, p.A
	}
	return p
}

// ApplyNamePair renames two distinct type names, relation names or condition names of the model (the same kind for
// both, drawn) to the pair, consistently everywhere they are used. keep lists names that must stay. It returns the
// kind of name that was renamed ("" when the model offers no two names of a kind or a new name is taken).
func ApplyNamePair(t *rapid.T, m *Model, p NamePair, keep map[string]bool) string {
	var types, rels, conds []string
	seenT, seenR, seenC := map[string]bool{}, map[string]bool{}, map[string]bool{}
	for _, td := range m.Types {
		if !seenT[td.Name] {
			seenT[td.Name] = true
			types = append(types, td.Name)
		}
		for _, r := range td.Rels {
			if !seenR[r.Name] {
				seenR[r.Name] = true
				rels = append(rels, r.Name)
			}
		}
	}
	for _, c := range m.Conds {
		if !seenC[c.Name] {
			seenC[c.Name] = true
			conds = append(conds, c.Name)
		}
	}
	what := rapid.SampledFrom([]string{"type", "relation", "relation", "condition"}).Draw(t, "namePairTarget")
	list, seen := types, seenT
	switch what {
	case "relation":
		list, seen = rels, seenR
	case "condition":
		list, seen = conds, seenC
		if !isPlainIdentifier(p.A) || !isPlainIdentifier(p.B) || reservedCondMode[p.A] || reservedCondMode[p.B] || isKeywordName(p.A) || isKeywordName(p.B) {
			return ""
		}
	}
	var cands []string
	for _, n := range list {
		if !keep[n] {
			cands = append(cands, n)
		}
	}
	if len(cands) < 2 || seen[p.A] || seen[p.B] || !singleToken(p.A) || !singleToken(p.B) || reservedDefault[p.A] || reservedDefault[p.B] {
		return ""
	}
	i := rapid.IntRange(0, len(cands)-1).Draw(t, "namePairFirst")
	j := rapid.IntRange(0, len(cands)-2).Draw(t, "namePairSecond")
	if j >= i {
		j++
	}
	ren := map[string]string{cands[i]: p.A, cands[j]: p.B}
	f := func(s string) string {
		if n, ok := ren[s]; ok {
			return n
		}
		return s
	}
	same := func(s string) string { return s }
	switch what {
	case "type":
		RenameModel(m, f, same, same)
	case "relation":
		RenameModel(m, same, f, same)
	default:
		RenameModel(m, same, same, f)
	}
	return what
}

// RenameModel applies T to type names, R to relation names and C to condition names wherever they occur.
func RenameModel(m *Model, T, R, C func(string) string) {
	for ti := range m.Types {
		td := &m.Types[ti]
		td.Name = T(td.Name)
		for ri := range td.Rels {
			r := &td.Rels[ri]
			r.Name = R(r.Name)
			for k := range r.Restr {
				r.Restr[k].Type = T(r.Restr[k].Type)
				if r.Restr[k].Rel != "" {
					r.Restr[k].Rel = R(r.Restr[k].Rel)
				}
				if r.Restr[k].Cond != "" {
					r.Restr[k].Cond = C(r.Restr[k].Cond)
				}
			}
			if r.Rw != nil {
				r.Rw.Walk(func(x *Rewrite, _ int) {
					if x.Rel != "" {
						x.Rel = R(x.Rel)
					}
					if x.Tupleset != "" {
						x.Tupleset = R(x.Tupleset)
					}
				})
			}
		}
	}
	for ci := range m.Conds {
		m.Conds[ci].Name = C(m.Conds[ci].Name)
	}
}

// GlueWithoutSeparator renames two types with relations to (a, a+x) and two relation names to (x+y, y): then
// "<a>"+"<x+y>" == "<a+x>"+"<y>", i.e. (type, relation) pairs whose plain concatenations coincide.
func GlueWithoutSeparator(t *rapid.T, m *Model, keep map[string]bool) bool {
	var types, rels []string
	seenT, seenR := map[string]bool{}, map[string]bool{}
	for _, td := range m.Types {
		seenT[td.Name] = true
		if len(td.Rels) > 0 && !keep[td.Name] {
			types = append(types, td.Name)
		}
		for _, r := range td.Rels {
			if !seenR[r.Name] && !keep[r.Name] {
				rels = append(rels, r.Name)
			}
			seenR[r.Name] = true
		}
	}
	a, x, y := "team", "space", "admin"
	if rapid.Bool().Draw(t, "glue0Names") {
		a, x, y = "ab", "c", "d"
	}
	if len(types) < 2 || len(rels) < 2 || seenT[a] || seenT[a+x] || seenR[x+y] || seenR[y] {
		return false
	}
	tm := map[string]string{types[0]: a, types[1]: a + x}
	rm := map[string]string{rels[0]: x + y, rels[1]: y}
	if strings.Contains(a+x+y, " ") {
		return false
	}
	RenameModel(m, func(s string) string {
		if n, ok := tm[s]; ok {
			return n
		}
		return s
	}, func(s string) string {
		if n, ok := rm[s]; ok {
			return n
		}
		return s
	}, func(s string) string { return s })
	return true
}
