package gen

import (
	"fmt"
	"sort"
	"strings"

	"pgregory.net/rapid"
)

// ModFileSpec is one module file: what it declares (known to the generator) and its text.
type ModFileSpec struct {
	Name        string         `json:"name"`
	Module      string         `json:"module"` // "" = file with a model header (not a module)
	Model       *Model         `json:"model"`  // types (base and extensions) and conditions of this file
	Extend      map[int]bool   `json:"extend,omitempty"`
	SyntaxError bool           `json:"syntax_error,omitempty"`
	ManyErrors  int            `json:"many_errors,omitempty"`  // the syntax error consists of this many unlexable characters
	Fixed       bool           `json:"fixed_layout,omitempty"` // always rendered in the canonical layout
	Text        string         `json:"text"`
	Pos         map[string]Pos `json:"pos,omitempty"`
}

// Conflict is one injected defect with the files that may be blamed for it.
type Conflict struct {
	Kind  string   `json:"kind"`
	Files []string `json:"files"`          // offending files (any of them is an acceptable blame)
	Name  string   `json:"name,omitempty"` // type / condition / relation name
	Type  string   `json:"type,omitempty"` // owning type of a clashing relation
	// Lines: per offending file, the zero-based lines on which a declaration of exactly Name stands
	// (for relations: inside a definition/extension of Type)
	Lines map[string][]int `json:"lines,omitempty"`
	Decoy bool             `json:"decoy,omitempty"`
}

type ModuleSet struct {
	Files     []ModFileSpec `json:"files"`
	Schema    string        `json:"schema"`
	Conflicts []Conflict    `json:"conflicts,omitempty"`
	Scale     string        `json:"scale,omitempty"` // dimension along which the set was scaled up ("" = none)
	// Expected (only meaningful when there is no conflict): the merged model with attribution
	Expected *Model `json:"expected,omitempty"`
}

type ModOpts struct {
	MaxFiles      int  // default 5
	MaxConflicts  int  // 0..n injected conflicts
	MinExtFiles   int  // at least this many files contribute extensions (C12)
	Layout        bool // random layout for some files
	Decoys        bool // C16: longer names sharing a prefix declared earlier, same-named relations in other types
	MultiDup      bool // C12: several conflicts inside one file (several duplicate conditions, several clashing relations)
	OnlyKinds     []string
	CaseNames     bool // in a quarter of the sets, rename a condition / relation / type to the upper-case form of another one (names that differ only in case)
	Twice         bool // one set in six: two more files, identical to the byte, each re-defining an existing type (the same conflict at the same position in two files)
	EmptySelfExt  bool // one set in eight: a file declares a type without relations and extends it, without relations, itself
	BigExt        bool // one set in ten: one extension contributes 13..20 more relations and one file 13..16 more conditions (sorts behave differently above 12 elements)
	Scale         bool // one set in five is scaled up along one dimension, to counts around the thresholds at which implementations switch algorithms (8, 16, 32, 64): many files (8..12, several of them broken), a base type with 14..40 relations, a broken file with 33..80 separate syntax errors, many conditions; and one set in three draws the first letter of its names at random (so that names of extensions do not always sort behind the names of the base type)
	ScaleNoBroken bool // Scale without the dimensions that add broken files (for checks that inject exactly one conflict)
	GlueNames     bool // one set in six: names arranged so that <type A> sep <relation> reads like <type B> sep <relation> ("a"+"."+"g.r" == "a.g"+"."+"r")
}

var ConflictKinds = []string{
	"not-a-module", "syntax-error", "duplicate-type-across", "duplicate-type-within", "duplicate-condition", "extend-missing-type",
	"relation-clash-base", "relation-clash-extensions",
}

type modCtx struct {
	t         *rapid.T
	names     map[string]bool
	mixPrefix bool
}

func (c *modCtx) fresh(prefix string) string {
	for i := 0; ; i++ {
		pf := prefix
		if c.mixPrefix && len(prefix) == 1 {
			pf = rapid.StringMatching(`[a-z]`).Draw(c.t, prefix+"prefix")
		}
		s := pf + rapid.StringMatching(`[a-z]{1,3}[0-9]?`).Draw(c.t, prefix+"name")
		if prefix != "c" && rapid.IntRange(0, 3).Draw(c.t, prefix+"sep") == 0 {
			// identifiers with the separators the lexer admits inside names
			s += rapid.SampledFrom([]string{"-", ".", "/"}).Draw(c.t, prefix+"sepc") + rapid.StringMatching(`[a-z0-9]{1,2}`).Draw(c.t, prefix+"tail")
		} else if prefix == "c" && rapid.IntRange(0, 3).Draw(c.t, prefix+"sep") == 0 {
			s += "-" + rapid.StringMatching(`[a-z0-9]{1,2}`).Draw(c.t, prefix+"tail")
		}
		if !c.names[s] && !reservedDefault[s] && !reservedCondMode[s] && singleToken(s) {
			c.names[s] = true
			return s
		}
	}
}

func simpleRewrite(t *rapid.T, rels []string) (*Rewrite, []Restriction) {
	leaf := func() *Rewrite {
		if len(rels) > 0 && rapid.Bool().Draw(t, "mleaf") {
			return &Rewrite{Kind: Computed, Rel: rapid.SampledFrom(rels).Draw(t, "mcomp")}
		}
		return &Rewrite{Kind: TTU, Rel: "viewer", Tupleset: "parent"}
	}
	switch rapid.IntRange(0, 4).Draw(t, "mrw") {
	case 0, 1:
		return &Rewrite{Kind: This}, []Restriction{{Type: "user"}}
	case 2:
		return &Rewrite{Kind: Union, Kids: []*Rewrite{{Kind: This}, leaf()}}, []Restriction{{Type: "user"}, {Type: "user", Wild: true}}
	case 3:
		return leaf(), nil
	default:
		return &Rewrite{Kind: Difference, Kids: []*Rewrite{leaf(), leaf()}}, nil
	}
}

// Modules draws a set of module files with known content and 0..MaxConflicts injected conflicts.
func Modules(t *rapid.T, o ModOpts) *ModuleSet {
	if o.MaxFiles == 0 {
		o.MaxFiles = 5
	}
	c := &modCtx{t: t, names: map[string]bool{"user": true, "viewer": true, "parent": true}}
	ms := &ModuleSet{Schema: rapid.SampledFrom([]string{"1.2", "1.2", "1.1", "", "weird version", "1.2.3"}).Draw(t, "schemaVersion")}
	minFiles := 1
	if o.MinExtFiles > 0 {
		minFiles = o.MinExtFiles
	}
	nFiles := rapid.IntRange(minFiles, o.MaxFiles).Draw(t, "nFiles")
	scale := ""
	if o.Scale {
		c.mixPrefix = rapid.IntRange(0, 2).Draw(t, "mixPrefix") == 0
		if rapid.IntRange(0, 4).Draw(t, "scale") == 0 {
			dims := []string{"files", "files-broken", "big-type", "many-errors", "many-conds", "many-types"}
			if o.ScaleNoBroken {
				dims = []string{"files", "big-type", "many-conds", "many-types"}
			}
			scale = rapid.SampledFrom(dims).Draw(t, "scaleDim")
		}
		if scale == "files" || scale == "files-broken" {
			nFiles = rapid.IntRange(8, 12).Draw(t, "nFilesBig")
		}
	}
	ms.Scale = scale
	modNames := []string{"core", "wiki", "team-a", "mod_4", "type"}
	usedFile := map[string]bool{}
	for i := 0; i < nFiles; i++ {
		name := rapid.SampledFrom([]string{"core.fga", "wiki.fga", "team/a.fga", "x y.fga", "b.fga", "dir/sub/c.fga", "é.fga", "Core.fga", "./core.fga", "CORE.FGA", "team\\a.fga", "Wiki.fga"}).Draw(t, "fileName")
		for usedFile[name] {
			name = fmt.Sprintf("f%d-%s", i, name)
		}
		usedFile[name] = true
		ms.Files = append(ms.Files, ModFileSpec{Name: name, Module: rapid.SampledFrom(modNames).Draw(t, "moduleName"), Model: &Model{}, Extend: map[int]bool{}})
	}
	// base types
	type baseInfo struct {
		file int
		rels []string
	}
	base := map[string]*baseInfo{}
	var baseNames []string
	nTypes := rapid.IntRange(1, 5).Draw(t, "nBaseTypes")
	if scale == "many-types" {
		nTypes = rapid.SampledFrom([]int{15, 16, 17, 31, 32, 33, 34, 40, 64, 65, 128, 255, 256, 257, 258}).Draw(t, "nBaseTypesBig")
	}
	for i := 0; i < nTypes; i++ {
		tn := c.fresh("t")
		fi := rapid.IntRange(0, nFiles-1).Draw(t, "typeFile")
		td := TypeDef{Name: tn}
		nr := rapid.IntRange(0, 3).Draw(t, "nBaseRels")
		bi := &baseInfo{file: fi}
		for j := 0; j < nr; j++ {
			rn := c.fresh("r")
			rw, restr := simpleRewrite(t, bi.rels)
			td.Rels = append(td.Rels, Relation{Name: rn, Rw: rw, Restr: restr})
			bi.rels = append(bi.rels, rn)
		}
		f := &ms.Files[fi]
		f.Model.Types = append(f.Model.Types, td)
		base[tn] = bi
		baseNames = append(baseNames, tn)
	}
	if scale == "big-type" {
		// one base type with relation counts around 16 and 32
		tn := baseNames[rapid.IntRange(0, len(baseNames)-1).Draw(t, "bigType")]
		n := rapid.SampledFrom([]int{14, 15, 16, 17, 18, 24, 31, 32, 33, 40}).Draw(t, "bigTypeN")
		f := &ms.Files[base[tn].file]
		for ti := range f.Model.Types {
			if f.Model.Types[ti].Name == tn {
				for k := 0; k < n; k++ {
					rn := c.fresh("r")
					f.Model.Types[ti].Rels = append(f.Model.Types[ti].Rels, Relation{Name: rn, Rw: &Rewrite{Kind: This}, Restr: []Restriction{{Type: "user"}}})
					base[tn].rels = append(base[tn].rels, rn)
				}
			}
		}
	}
	// extensions
	type extInfo struct {
		file int
		typ  string
		rels []string
	}
	var exts []extInfo
	nExt := rapid.IntRange(0, 5).Draw(t, "nExtensions")
	if scale == "many-types" {
		nExt = nTypes / 2 // every other type is extended by some file
	}
	if o.MinExtFiles > 0 && nExt < o.MinExtFiles {
		nExt = o.MinExtFiles
	}
	extended := map[string]bool{} // "file\x00type"
	for i := 0; i < nExt; i++ {
		fi := rapid.IntRange(0, nFiles-1).Draw(t, "extFile")
		if o.MinExtFiles > 0 && i < o.MinExtFiles {
			fi = i % nFiles
		}
		tn := rapid.SampledFrom(baseNames).Draw(t, "extType")
		key := fmt.Sprintf("%d\x00%s", fi, tn)
		if extended[key] {
			continue
		}
		extended[key] = true
		td := TypeDef{Name: tn}
		nr := rapid.IntRange(1, 2).Draw(t, "nExtRels")
		ei := extInfo{file: fi, typ: tn}
		for j := 0; j < nr; j++ {
			rn := c.fresh("x")
			rw, restr := simpleRewrite(t, base[tn].rels)
			td.Rels = append(td.Rels, Relation{Name: rn, Rw: rw, Restr: restr})
			ei.rels = append(ei.rels, rn)
		}
		f := &ms.Files[fi]
		// position of the extension inside the file: before or after the file's own types
		if rapid.Bool().Draw(t, "extFirst") && len(f.Model.Types) > 0 {
			f.Model.Types = append([]TypeDef{td}, f.Model.Types...)
			ne := map[int]bool{0: true}
			for k, v := range f.Extend {
				ne[k+1] = v
			}
			f.Extend = ne
		} else {
			f.Model.Types = append(f.Model.Types, td)
			f.Extend[len(f.Model.Types)-1] = true
		}
		exts = append(exts, ei)
	}
	// conditions
	var condNames []string
	nCond := rapid.IntRange(0, 3).Draw(t, "nConds")
	if scale == "many-conds" {
		nCond = rapid.SampledFrom([]int{8, 9, 15, 16, 17, 31, 32, 33}).Draw(t, "nCondsBig")
	}
	for i := 0; i < nCond; i++ {
		cn := c.fresh("c")
		// types and conditions live in different name spaces: a condition may be named like a type (or like a
		// relation) without any conflict
		if rapid.IntRange(0, 3).Draw(t, "condLikeType") == 0 {
			cand := rapid.SampledFrom(baseNames).Draw(t, "condTypeName")
			if rapid.Bool().Draw(t, "condLikeRel") && len(base[cand].rels) > 0 {
				cand = base[cand].rels[0]
			}
			taken := false
			for _, x := range condNames {
				if x == cand {
					taken = true
				}
			}
			if isPlainIdentifier(cand) && !reservedCondMode[cand] && !taken {
				cn = cand
			}
		}
		fi := rapid.IntRange(0, nFiles-1).Draw(t, "condFile")
		ms.Files[fi].Model.Conds = append(ms.Files[fi].Model.Conds, Condition{Name: cn, Params: []Param{{Name: "x", Type: "int"}}, Expr: "x > 1"})
		condNames = append(condNames, cn)
	}
	// decoys (C16): declared BEFORE the real thing in the same file
	if o.Decoys {
		for fi := range ms.Files {
			f := &ms.Files[fi]
			if rapid.Bool().Draw(t, "decoy") {
				continue
			}
			var nt []TypeDef
			ne := map[int]bool{}
			for ti, td := range f.Model.Types {
				tsfx := rapid.SampledFrom([]string{"x", "-x", ".x", "/x", "_1"}).Draw(t, "decoyTypeSfx")
				if !f.Extend[ti] && rapid.Bool().Draw(t, "decoyType") && !c.names[td.Name+tsfx] {
					c.names[td.Name+tsfx] = true
					d := TypeDef{Name: td.Name + tsfx}
					// a relation in the decoy type named like relations of the real type
					for _, r := range td.Rels {
						d.Rels = append(d.Rels, Relation{Name: r.Name, Rw: &Rewrite{Kind: This}, Restr: []Restriction{{Type: "user"}}})
					}
					nt = append(nt, d)
					base[d.Name] = &baseInfo{file: fi}
				}
				if f.Extend[ti] {
					ne[len(nt)] = true
					// longer relation names sharing the prefix, declared first in the extension
					var rels []Relation
					for _, r := range td.Rels {
						rsfx := rapid.SampledFrom([]string{"_all", "-edit", ".x", "/y", "2"}).Draw(t, "decoyRelSfx")
						if rapid.Bool().Draw(t, "decoyRel") && !c.names[r.Name+rsfx] {
							c.names[r.Name+rsfx] = true
							rels = append(rels, Relation{Name: r.Name + rsfx, Rw: &Rewrite{Kind: This}, Restr: []Restriction{{Type: "user"}}})
						}
						rels = append(rels, r)
					}
					td.Rels = rels
				}
				nt = append(nt, td)
			}
			f.Model.Types, f.Extend = nt, ne
			var nc []Condition
			for _, cd := range f.Model.Conds {
				csfx := rapid.SampledFrom([]string{"x", "-x", "_2"}).Draw(t, "decoyCondSfx")
				if rapid.Bool().Draw(t, "decoyCond") && !c.names[cd.Name+csfx] {
					c.names[cd.Name+csfx] = true
					nc = append(nc, Condition{Name: cd.Name + csfx, Params: cd.Params, Expr: cd.Expr})
				}
				nc = append(nc, cd)
			}
			f.Model.Conds = nc
		}
	}
	// conflicts
	nConf := 0
	if o.MaxConflicts > 0 {
		nConf = rapid.IntRange(0, o.MaxConflicts).Draw(t, "nConflicts")
	}
	kinds := ConflictKinds
	if len(o.OnlyKinds) > 0 {
		kinds = o.OnlyKinds
	}
	nonModule := -1
	for i := 0; i < nConf; i++ {
		kind := rapid.SampledFrom(kinds).Draw(t, "conflictKind")
		switch kind {
		case "not-a-module":
			if nonModule >= 0 {
				continue
			}
			fi := rapid.IntRange(0, nFiles-1).Draw(t, "badFile")
			f := &ms.Files[fi]
			if len(f.Extend) > 0 && hasTrue(f.Extend) {
				continue // "extend" in a model file is a syntax error of its own
			}
			f.Module = ""
			nonModule = fi
			ms.Conflicts = append(ms.Conflicts, Conflict{Kind: kind, Files: []string{f.Name}})
		case "syntax-error":
			fi := rapid.IntRange(0, nFiles-1).Draw(t, "badFile")
			f := &ms.Files[fi]
			if f.SyntaxError {
				continue
			}
			f.SyntaxError = true
			ms.Conflicts = append(ms.Conflicts, Conflict{Kind: kind, Files: []string{f.Name}})
		case "duplicate-type-across", "duplicate-type-within":
			tn := rapid.SampledFrom(baseNames).Draw(t, "dupType")
			src := base[tn].file
			fi := src
			if kind == "duplicate-type-across" {
				if nFiles < 2 {
					continue
				}
				fi = (src + 1 + rapid.IntRange(0, nFiles-2).Draw(t, "otherFile")) % nFiles
			}
			f := &ms.Files[fi]
			td := TypeDef{Name: tn}
			if rapid.Bool().Draw(t, "dupWithRel") {
				td.Rels = []Relation{{Name: c.fresh("d"), Rw: &Rewrite{Kind: This}, Restr: []Restriction{{Type: "user"}}}}
			}
			f.Model.Types = append(f.Model.Types, td)
			ms.Conflicts = append(ms.Conflicts, Conflict{Kind: kind, Name: tn, Files: uniq(ms.Files[src].Name, f.Name)})
		case "duplicate-condition":
			if len(condNames) == 0 || nFiles < 2 {
				continue
			}
			cn := rapid.SampledFrom(condNames).Draw(t, "dupCond")
			var src int
			for i := range ms.Files {
				for _, cd := range ms.Files[i].Model.Conds {
					if cd.Name == cn {
						src = i
					}
				}
			}
			fi := (src + 1 + rapid.IntRange(0, nFiles-2).Draw(t, "otherFile")) % nFiles
			f := &ms.Files[fi]
			dup := false
			for _, cd := range f.Model.Conds {
				if cd.Name == cn {
					dup = true
				}
			}
			if dup {
				continue
			}
			f.Model.Conds = append(f.Model.Conds, Condition{Name: cn, Params: []Param{{Name: "y", Type: "string"}}, Expr: "y == \"a\""})
			ms.Conflicts = append(ms.Conflicts, Conflict{Kind: kind, Name: cn, Files: uniq(ms.Files[src].Name, f.Name)})
		case "extend-missing-type":
			fi := rapid.IntRange(0, nFiles-1).Draw(t, "badFile")
			f := &ms.Files[fi]
			tn := c.fresh("missing")
			f.Model.Types = append(f.Model.Types, TypeDef{Name: tn, Rels: []Relation{{Name: c.fresh("m"), Rw: &Rewrite{Kind: This}, Restr: []Restriction{{Type: "user"}}}}})
			f.Extend[len(f.Model.Types)-1] = true
			ms.Conflicts = append(ms.Conflicts, Conflict{Kind: kind, Name: tn, Files: []string{f.Name}})
		case "relation-clash-base":
			// an extension (in any file that does not extend the type yet) repeats a base relation
			var cands []string
			for _, tn := range baseNames {
				if len(base[tn].rels) > 0 {
					cands = append(cands, tn)
				}
			}
			if len(cands) == 0 {
				continue
			}
			tn := rapid.SampledFrom(cands).Draw(t, "clashType")
			rn := rapid.SampledFrom(base[tn].rels).Draw(t, "clashRel")
			fi := rapid.IntRange(0, nFiles-1).Draw(t, "clashFile")
			if !addExtRelation(ms, fi, tn, rn, extended) {
				continue
			}
			ms.Conflicts = append(ms.Conflicts, Conflict{Kind: kind, Name: rn, Type: tn, Files: []string{ms.Files[fi].Name}})
		case "relation-clash-extensions":
			if len(exts) == 0 || nFiles < 2 {
				continue
			}
			e := rapid.SampledFrom(exts).Draw(t, "clashExt")
			rn := rapid.SampledFrom(e.rels).Draw(t, "clashRel")
			fi := (e.file + 1 + rapid.IntRange(0, nFiles-2).Draw(t, "otherFile")) % nFiles
			if !addExtRelation(ms, fi, e.typ, rn, extended) {
				continue
			}
			ms.Conflicts = append(ms.Conflicts, Conflict{Kind: kind, Name: rn, Type: e.typ, Files: uniq(ms.Files[e.file].Name, ms.Files[fi].Name)})
		}
	}
	if scale == "files-broken" {
		// several broken files among many: 3..6 files with a syntax error, at drawn positions
		k := rapid.IntRange(3, 6).Draw(t, "nBroken")
		for j := 0; j < k; j++ {
			fi := rapid.IntRange(0, nFiles-1).Draw(t, "brokenFile")
			f := &ms.Files[fi]
			if f.SyntaxError {
				continue
			}
			f.SyntaxError = true
			ms.Conflicts = append(ms.Conflicts, Conflict{Kind: "syntax-error", Files: []string{f.Name}})
		}
	}
	if scale == "many-errors" {
		fi := rapid.IntRange(0, nFiles-1).Draw(t, "manyErrFile")
		f := &ms.Files[fi]
		if !f.SyntaxError {
			f.SyntaxError = true
			ms.Conflicts = append(ms.Conflicts, Conflict{Kind: "syntax-error", Files: []string{f.Name}})
		}
		f.ManyErrors = rapid.SampledFrom([]int{31, 32, 33, 34, 63, 64, 65, 80}).Draw(t, "manyErrN")
	}
	// several conflicts inside ONE file (the order of their errors is then decided inside that file's processing):
	// one file re-declares two or three conditions of other files, or one extension repeats several base relations
	if o.MultiDup && rapid.IntRange(0, 2).Draw(t, "multiDup") == 0 && nFiles >= 2 {
		fi := rapid.IntRange(0, nFiles-1).Draw(t, "multiDupFile")
		f := &ms.Files[fi]
		if !f.SyntaxError && f.Module != "" {
			have := map[string]bool{}
			for _, cd := range f.Model.Conds {
				have[cd.Name] = true
			}
			added := 0
			for _, cn := range condNames {
				if !have[cn] && added < 3 {
					f.Model.Conds = append(f.Model.Conds, Condition{Name: cn, Params: []Param{{Name: "z", Type: "bool"}}, Expr: "z"})
					var src string
					for i := range ms.Files {
						for _, cd := range ms.Files[i].Model.Conds {
							if cd.Name == cn && i != fi {
								src = ms.Files[i].Name
							}
						}
					}
					ms.Conflicts = append(ms.Conflicts, Conflict{Kind: "duplicate-condition", Name: cn, Files: uniq(src, f.Name)})
					added++
				}
			}
			var cands []string
			for _, tn := range baseNames {
				if len(base[tn].rels) >= 2 {
					cands = append(cands, tn)
				}
			}
			if len(cands) > 0 && rapid.Bool().Draw(t, "multiClash") {
				tn := rapid.SampledFrom(cands).Draw(t, "multiClashType")
				for _, rn := range base[tn].rels {
					if addExtRelation(ms, fi, tn, rn, extended) {
						ms.Conflicts = append(ms.Conflicts, Conflict{Kind: "relation-clash-base", Name: rn, Type: tn, Files: []string{f.Name}})
					}
				}
			}
		}
	}
	// a non-module file cannot carry extensions (that would be a second, different defect)
	if nonModule >= 0 && hasTrue(ms.Files[nonModule].Extend) {
		ms.Files[nonModule].Module = "core"
		var cs []Conflict
		for _, cf := range ms.Conflicts {
			if cf.Kind != "not-a-module" {
				cs = append(cs, cf)
			}
		}
		ms.Conflicts = cs
	}
	if o.BigExt && rapid.IntRange(0, 9).Draw(t, "bigExt") == 0 {
		for fi := range ms.Files {
			f := &ms.Files[fi]
			done := false
			for ti := range f.Model.Types {
				if f.Extend[ti] && !f.SyntaxError && f.Module != "" {
					n := rapid.IntRange(13, 20).Draw(t, "bigExtN")
					for k := 0; k < n; k++ {
						f.Model.Types[ti].Rels = append(f.Model.Types[ti].Rels, Relation{Name: c.fresh("xb"), Rw: &Rewrite{Kind: This}, Restr: []Restriction{{Type: "user"}}})
					}
					nc := rapid.IntRange(13, 16).Draw(t, "bigCondN")
					for k := 0; k < nc; k++ {
						f.Model.Conds = append(f.Model.Conds, Condition{Name: c.fresh("c"), Params: []Param{{Name: "v", Type: "int"}}, Expr: "v > 0"})
					}
					done = true
					break
				}
			}
			if done {
				break
			}
		}
	}
	if o.EmptySelfExt && rapid.IntRange(0, 7).Draw(t, "emptySelfExt") == 0 {
		// "type T" without relations and "extend type T" without relations in one file: two declarations that are equal
		// as values and different as declarations; the merged model has T once, without relations
		fi := rapid.IntRange(0, nFiles-1).Draw(t, "emptySelfExtFile")
		f := &ms.Files[fi]
		if f.Module != "" && !f.SyntaxError {
			tn := c.fresh("te")
			f.Model.Types = append(f.Model.Types, TypeDef{Name: tn}, TypeDef{Name: tn})
			f.Extend[len(f.Model.Types)-1] = true
		}
	}
	if o.Twice && len(baseNames) > 0 && rapid.IntRange(0, 5).Draw(t, "twice") == 0 {
		tn := rapid.SampledFrom(baseNames).Draw(t, "twiceType")
		src := ms.Files[base[tn].file].Name
		for _, name := range []string{"dup-one.fga", "dup-two.fga"} {
			ms.Files = append(ms.Files, ModFileSpec{Name: name, Module: "core", Fixed: true, Extend: map[int]bool{},
				Model: &Model{Types: []TypeDef{{Name: tn}}}})
			ms.Conflicts = append(ms.Conflicts, Conflict{Kind: "duplicate-type-across", Name: tn, Files: uniq(src, name)})
		}
	}
	if o.GlueNames && rapid.IntRange(0, 5).Draw(t, "glueNames") == 0 {
		glueNames(t, ms)
	}
	if o.CaseNames && rapid.IntRange(0, 3).Draw(t, "caseNames") == 0 {
		caseVariants(t, ms)
	} else if o.CaseNames && rapid.IntRange(0, 4).Draw(t, "specialNames") == 0 {
		specialPair(t, ms)
	}
	// render
	for i := range ms.Files {
		f := &ms.Files[i]
		var ch Chooser = Canonical{}
		if f.Fixed {
			// canonical
		} else if o.Layout && rapid.IntRange(0, 3).Draw(t, "layout") == 0 {
			ch = &simpleRapidChooser{t: t}
		} else if o.Layout && o.MultiDup && rapid.IntRange(0, 5).Draw(t, "layoutCROnly") == 0 {
			// a file whose only line end is a lone carriage return: one single line for every '\n'-based reader
			ch = Forced{"crlf": 4, "cr_only": 4}
		} else if o.Layout && o.Decoys && rapid.IntRange(0, 2).Draw(t, "layoutMultiLine") == 0 {
			// position lookups scan the raw text: declarations whose type restrictions continue on further lines (and
			// everything else the layout may do) in front of the declaration that is looked for
			ch = &simpleRapidChooser{t: t, multiLine: true}
		}
		opts := RenderOpts{Module: f.Module, Extend: f.Extend}
		if f.Module == "" {
			f.Model.Schema = "1.1"
			opts = RenderOpts{Extend: f.Extend}
		}
		r := Render(f.Model, ch, opts)
		f.Text, f.Pos = r.Text, r.Pos
		if f.SyntaxError && f.ManyErrors > 0 {
			// many separate errors in one file: characters no lexer rule matches (each is reported and dropped), spread over
			// the lines of the file or gathered at its end
			junk := rapid.SampledFrom([]string{"$", "@", "\x00", "?", "~", "\u00a0", "\u2028", "\v", "\u3000", "\u0085"}).Draw(t, "manyErrChar")
			if rapid.Bool().Draw(t, "manyErrSpread") {
				lines := strings.Split(f.Text, "\n")
				for k := 0; k < f.ManyErrors; k++ {
					li := k % len(lines)
					lines[li] += junk
				}
				f.Text = strings.Join(lines, "\n") + "\n" + junk + "\n" // (junk behind a comment marker is no error; the last one always is)
			} else {
				f.Text += "\n" + strings.Repeat(junk, f.ManyErrors) + "\n" // on a line of its own: the last line may end in a comment
			}
		} else if f.SyntaxError {
			f.Text += rapid.SampledFrom([]string{"\ntype\n", "\n  relations\n", "\ndefine x: [user\n", "\ntype a b\n", "\n)\n", "\ntype nbsp_at_end\u00a0\n", "\n\u00a0\n", "\n \u2028 \n", "\ntype vt_at_end\v\n"}).Draw(t, "syntaxJunk")
		}
	}
	ms.fillConflictLines()
	if len(ms.Conflicts) == 0 {
		ms.Expected = ms.expected()
	}
	return ms
}

type simpleRapidChooser struct {
	t         *rapid.T
	multiLine bool // write every second type-restriction list over several lines
}

func (c *simpleRapidChooser) Intn(n int, label string) int {
	if c.multiLine && label == "restr_multiline" && n == 5 && rapid.Bool().Draw(c.t, "forceMultiLine") {
		return 4
	}
	return rapid.IntRange(0, n-1).Draw(c.t, label)
}

func hasTrue(m map[int]bool) bool {
	for _, v := range m {
		if v {
			return true
		}
	}
	return false
}

func uniq(a ...string) []string {
	seen := map[string]bool{}
	var out []string
	for _, x := range a {
		if !seen[x] {
			seen[x] = true
			out = append(out, x)
		}
	}
	return out
}

// addExtRelation adds relation rn to file fi's extension of type tn (creating the extension when
// the file does not extend the type yet). Returns false when the file already declares rn there.
func addExtRelation(ms *ModuleSet, fi int, tn, rn string, extended map[string]bool) bool {
	f := &ms.Files[fi]
	for ti := range f.Model.Types {
		if f.Model.Types[ti].Name == tn && f.Extend[ti] {
			for _, r := range f.Model.Types[ti].Rels {
				if r.Name == rn {
					return false
				}
			}
			f.Model.Types[ti].Rels = append(f.Model.Types[ti].Rels, Relation{Name: rn, Rw: &Rewrite{Kind: This}, Restr: []Restriction{{Type: "user"}}})
			return true
		}
	}
	f.Model.Types = append(f.Model.Types, TypeDef{Name: tn, Rels: []Relation{{Name: rn, Rw: &Rewrite{Kind: This}, Restr: []Restriction{{Type: "user"}}}}})
	f.Extend[len(f.Model.Types)-1] = true
	extended[fmt.Sprintf("%d\x00%s", fi, tn)] = true
	return true
}

// fillConflictLines computes, from the renderer's source map, the lines on which a declaration
// of exactly the conflicting name stands in each offending file.
func (ms *ModuleSet) fillConflictLines() {
	for ci := range ms.Conflicts {
		cf := &ms.Conflicts[ci]
		cf.Lines = map[string][]int{}
		for _, f := range ms.Files {
			in := false
			for _, n := range cf.Files {
				if n == f.Name {
					in = true
				}
			}
			if !in {
				continue
			}
			switch cf.Kind {
			case "duplicate-type-across", "duplicate-type-within":
				for ti, td := range f.Model.Types {
					if td.Name == cf.Name && !f.Extend[ti] {
						cf.Lines[f.Name] = append(cf.Lines[f.Name], f.Pos[fmt.Sprintf("type:%d", ti)].Line)
					}
				}
			case "extend-missing-type":
				for ti, td := range f.Model.Types {
					if td.Name == cf.Name && f.Extend[ti] {
						cf.Lines[f.Name] = append(cf.Lines[f.Name], f.Pos[fmt.Sprintf("type:%d", ti)].Line)
					}
				}
			case "duplicate-condition":
				for i, cd := range f.Model.Conds {
					if cd.Name == cf.Name {
						cf.Lines[f.Name] = append(cf.Lines[f.Name], f.Pos[fmt.Sprintf("cond:%d", i)].Line)
					}
				}
			case "relation-clash-base", "relation-clash-extensions":
				for ti, td := range f.Model.Types {
					if td.Name != cf.Type || !f.Extend[ti] {
						continue
					}
					for ri, r := range td.Rels {
						if r.Name == cf.Name {
							cf.Lines[f.Name] = append(cf.Lines[f.Name], f.Pos[fmt.Sprintf("rel:%d:%d", ti, ri)].Line)
						}
					}
				}
			}
		}
		// decoy present? (a longer name with the same prefix, or the same relation name in another type, earlier in an offending file)
		for _, f := range ms.Files {
			for _, n := range cf.Files {
				if n != f.Name {
					continue
				}
				for _, td := range f.Model.Types {
					if strings.HasPrefix(td.Name, cf.Name) && td.Name != cf.Name {
						cf.Decoy = true
					}
					for _, r := range td.Rels {
						if (strings.HasPrefix(r.Name, cf.Name) && r.Name != cf.Name) || (r.Name == cf.Name && td.Name != cf.Type && cf.Type != "") {
							cf.Decoy = true
						}
					}
				}
				for _, cd := range f.Model.Conds {
					if strings.HasPrefix(cd.Name, cf.Name) && cd.Name != cf.Name {
						cf.Decoy = true
					}
				}
			}
		}
	}
}

// expected builds the merged model with attribution from the generator's own description.
func (ms *ModuleSet) expected() *Model {
	out := &Model{Schema: ms.Schema}
	idx := map[string]int{}
	for _, f := range ms.Files {
		for ti, td := range f.Model.Types {
			if f.Extend[ti] {
				continue
			}
			t := TypeDef{Name: td.Name, Module: f.Module, File: f.Name}
			for _, r := range td.Rels {
				t.Rels = append(t.Rels, Relation{Name: r.Name, Rw: r.Rw.Clone(), Restr: append([]Restriction(nil), r.Restr...)})
			}
			idx[td.Name] = len(out.Types)
			out.Types = append(out.Types, t)
		}
		for _, cd := range f.Model.Conds {
			c := cd
			c.Module, c.File = f.Module, f.Name
			out.Conds = append(out.Conds, c)
		}
	}
	for _, f := range ms.Files {
		for ti, td := range f.Model.Types {
			if !f.Extend[ti] {
				continue
			}
			i, ok := idx[td.Name]
			if !ok {
				continue
			}
			for _, r := range td.Rels {
				out.Types[i].Rels = append(out.Types[i].Rels, Relation{Name: r.Name, Rw: r.Rw.Clone(), Restr: append([]Restriction(nil), r.Restr...), Module: f.Module, File: f.Name})
			}
		}
	}
	sort.SliceStable(out.Conds, func(a, b int) bool { return out.Conds[a].Name < out.Conds[b].Name })
	return out
}

// caseVariants renames, consistently in every file and in the conflict list, one condition, one relation and one type to
// the upper-case form of another condition / relation / type: names that differ only in case are different names.
func caseVariants(t *rapid.T, ms *ModuleSet) {
	var conds, rels, types []string
	seenC, seenR, seenT := map[string]bool{}, map[string]bool{}, map[string]bool{}
	add := func(list *[]string, seen map[string]bool, n string) {
		if n != "" && !seen[n] {
			seen[n] = true
			*list = append(*list, n)
		}
	}
	for _, f := range ms.Files {
		for _, cd := range f.Model.Conds {
			add(&conds, seenC, cd.Name)
		}
		for _, td := range f.Model.Types {
			add(&types, seenT, td.Name)
			for _, r := range td.Rels {
				add(&rels, seenR, r.Name)
			}
		}
	}
	// the variant of a name: upper case; or a zero in front of its first digit ("tier1" / "tier01": equal for a "natural"
	// comparison of digit runs); or '-' and '.' swapped for '_' (equal for a comparison that ignores punctuation)
	mode := rapid.SampledFrom([]string{"upper", "upper", "zeros", "zeros", "dash"}).Draw(t, "variantMode")
	variant := func(n string) string {
		switch mode {
		case "zeros":
			for i, r := range n {
				if r >= '0' && r <= '9' {
					return n[:i] + "0" + n[i:]
				}
			}
			return n
		case "dash":
			return strings.NewReplacer("-", "_", ".", "_").Replace(n)
		}
		return strings.ToUpper(n)
	}
	pick := func(list []string, seen map[string]bool, keep map[string]bool, label string) (from, to string) {
		if len(list) < 2 {
			return "", ""
		}
		a := rapid.IntRange(0, len(list)-1).Draw(t, label+"A")
		if mode != "upper" {
			// prefer a name the variant changes
			for k := 0; k < len(list) && variant(list[a]) == list[a]; k++ {
				a = (a + 1) % len(list)
			}
		}
		b := rapid.IntRange(0, len(list)-1).Draw(t, label+"B")
		up := variant(list[a])
		if a == b || up == list[a] || seen[up] || keep[list[b]] || !singleToken(up) || reservedDefault[up] || reservedCondMode[up] {
			return "", ""
		}
		return list[b], up
	}
	cFrom, cTo := pick(conds, seenC, nil, "caseCond")
	rFrom, rTo := pick(rels, seenR, map[string]bool{"viewer": true, "parent": true}, "caseRel")
	tFrom, tTo := pick(types, seenT, map[string]bool{"user": true}, "caseType")
	C := func(s string) string {
		if s == cFrom && cFrom != "" {
			return cTo
		}
		return s
	}
	R := func(s string) string {
		if s == rFrom && rFrom != "" {
			return rTo
		}
		return s
	}
	T := func(s string) string {
		if s == tFrom && tFrom != "" {
			return tTo
		}
		return s
	}
	renameModules(ms, C, R, T)
}

// glueNames renames one type B to "<A><sep>g" and one relation of type A to "g<sep><r>", r a relation of B: then
// "<A><sep>g<sep><r>" is both (type A, relation g<sep>r) and (type B, relation r) for anything that glues type and
// relation names together with that separator. No conflict arises from it.
func glueNames(t *rapid.T, ms *ModuleSet) {
	type tr struct{ typ, rel string }
	var pairs []tr
	usedT, usedR := map[string]bool{}, map[string]bool{}
	for _, f := range ms.Files {
		for _, td := range f.Model.Types {
			usedT[td.Name] = true
			for _, r := range td.Rels {
				usedR[r.Name] = true
				if r.Name != "viewer" && r.Name != "parent" {
					pairs = append(pairs, tr{td.Name, r.Name})
				}
			}
		}
	}
	if len(pairs) < 2 {
		return
	}
	a := pairs[rapid.IntRange(0, len(pairs)-1).Draw(t, "glueA")]
	b := pairs[rapid.IntRange(0, len(pairs)-1).Draw(t, "glueB")]
	sep := rapid.SampledFrom([]string{".", ".", "/", "-", "", ""}).Draw(t, "glueSep") // "" = glued without any separator
	newB, newRa := a.typ+sep+"g", "g"+sep+b.rel
	if a.typ == b.typ || a.rel == b.rel || a.typ == "user" || b.typ == "user" || usedT[newB] || usedR[newRa] || !singleToken(newB) || !singleToken(newRa) {
		return
	}
	same := func(s string) string { return s }
	renameModules(ms, same, func(s string) string {
		if s == a.rel {
			return newRa
		}
		return s
	}, func(s string) string {
		if s == b.typ {
			return newB
		}
		return s
	})
}

// renameModules applies consistent renamings of condition, relation and type names to every file and to the conflict list.
func renameModules(ms *ModuleSet, C, R, T func(string) string) {
	for i := range ms.Files {
		m := ms.Files[i].Model
		for j := range m.Conds {
			m.Conds[j].Name = C(m.Conds[j].Name)
		}
		for j := range m.Types {
			td := &m.Types[j]
			td.Name = T(td.Name)
			for k := range td.Rels {
				r := &td.Rels[k]
				r.Name = R(r.Name)
				for x := range r.Restr {
					r.Restr[x].Type = T(r.Restr[x].Type)
					r.Restr[x].Cond = C(r.Restr[x].Cond)
					if r.Restr[x].Rel != "" {
						r.Restr[x].Rel = R(r.Restr[x].Rel)
					}
				}
				if r.Rw != nil {
					r.Rw.Walk(func(y *Rewrite, _ int) {
						if y.Rel != "" {
							y.Rel = R(y.Rel)
						}
						if y.Tupleset != "" {
							y.Tupleset = R(y.Tupleset)
						}
					})
				}
			}
		}
	}
	for i := range ms.Conflicts {
		cf := &ms.Conflicts[i]
		switch cf.Kind {
		case "duplicate-condition":
			cf.Name = C(cf.Name)
		case "relation-clash-base", "relation-clash-extensions":
			cf.Name, cf.Type = R(cf.Name), T(cf.Type)
		case "duplicate-type-across", "duplicate-type-within", "extend-missing-type":
			cf.Name = T(cf.Name)
		}
	}
}

// specialPair renames, consistently in every file and in the conflict list, two types, two relations or two conditions
// to a special name pair (names.go): equal under a 32-bit hash, prefix- or suffix-related, equal in length and first
// bytes, equal under case folding or a natural comparison of digits.
func specialPair(t *rapid.T, ms *ModuleSet) {
	p := DrawNamePair(t)
	var conds, rels, types []string
	seen := map[string]bool{}
	add := func(list *[]string, n string) {
		if n != "" && !seen[n] {
			seen[n] = true
			*list = append(*list, n)
		}
	}
	for _, f := range ms.Files {
		for _, cd := range f.Model.Conds {
			add(&conds, cd.Name)
		}
		for _, td := range f.Model.Types {
			add(&types, td.Name)
			for _, r := range td.Rels {
				add(&rels, r.Name)
			}
		}
	}
	if seen[p.A] || seen[p.B] || !singleToken(p.A) || !singleToken(p.B) {
		return
	}
	what := rapid.SampledFrom([]string{"type", "relation", "condition"}).Draw(t, "specialPairTarget")
	list := types
	keep := map[string]bool{"user": true, "viewer": true, "parent": true}
	switch what {
	case "relation":
		list = rels
	case "condition":
		list = conds
		if !isPlainIdentifier(p.A) || !isPlainIdentifier(p.B) || reservedCondMode[p.A] || reservedCondMode[p.B] {
			return
		}
	}
	var cands []string
	for _, n := range list {
		if !keep[n] {
			cands = append(cands, n)
		}
	}
	if len(cands) < 2 {
		return
	}
	i := rapid.IntRange(0, len(cands)-1).Draw(t, "specialPairFirst")
	j := rapid.IntRange(0, len(cands)-2).Draw(t, "specialPairSecond")
	if j >= i {
		j++
	}
	ren := map[string]string{cands[i]: p.A, cands[j]: p.B}
	f := func(s string) string {
		if n, ok := ren[s]; ok {
			return n
		}
		return s
	}
	same := func(s string) string { return s }
	switch what {
	case "type":
		renameModules(ms, same, same, f)
	case "relation":
		renameModules(ms, same, f, same)
	default:
		renameModules(ms, f, same, same)
	}
}

// NamePairModuleSets: a deterministic family of conflict-free module sets around special name pairs (names.go). For every
// pair (A, B): three files - one defines type A with relation "owner" and a condition, one defines type B, one extends
// B with a relation "owner" and A with a relation "extra" - with the pair used as type names; and the same shape with
// the pair used as the names of two relations contributed to ONE type by two different extension files. Nothing
// clashes: a merge must succeed for every order of the files and attribute every relation to its own file.
func NamePairModuleSets() []*ModuleSet {
	pairs := [][2]string{{"member", "members"}, {"group", "subgroup"}, {"document_viewer", "document_editor"}, {"workspace_member_a", "workspace_member_b"},
		{"team1", "team01"}, {"viewer", "Viewer"}, {"team-", "team"}, {"ab", "abc"}, {"team", "teamspace"}}
	for i, tw := range HashTwins() {
		if i%12 < 2 {
			pairs = append(pairs, tw)
		}
	}
	this := func() (*Rewrite, []Restriction) { return &Rewrite{Kind: This}, []Restriction{{Type: "user"}} }
	rel := func(n string) Relation { rw, rs := this(); return Relation{Name: n, Rw: rw, Restr: rs} }
	var out []*ModuleSet
	for _, p := range pairs {
		for variant := 0; variant < 2; variant++ {
			a, b := p[0], p[1]
			ms := &ModuleSet{Schema: "1.2"}
			if variant == 0 {
				// the pair as type names
				ms.Files = []ModFileSpec{
					{Name: "core.fga", Module: "core", Extend: map[int]bool{}, Model: &Model{Types: []TypeDef{{Name: "user"}, {Name: a, Rels: []Relation{rel("owner")}}}}},
					{Name: "wiki.fga", Module: "wiki", Extend: map[int]bool{}, Model: &Model{Types: []TypeDef{{Name: b, Rels: []Relation{rel("reader")}}}}},
					{Name: "ext.fga", Module: "ext", Extend: map[int]bool{0: true, 1: true}, Model: &Model{Types: []TypeDef{{Name: b, Rels: []Relation{rel("owner")}}, {Name: a, Rels: []Relation{rel("extra")}}}}},
				}
			} else {
				if !singleToken(a) || !singleToken(b) {
					continue
				}
				// the pair as relation names contributed to one type by two extension files
				ms.Files = []ModFileSpec{
					{Name: "core.fga", Module: "core", Extend: map[int]bool{}, Model: &Model{Types: []TypeDef{{Name: "user"}, {Name: "doc", Rels: []Relation{rel("owner")}}}}},
					{Name: "x1.fga", Module: "x1", Extend: map[int]bool{0: true}, Model: &Model{Types: []TypeDef{{Name: "doc", Rels: []Relation{rel(a)}}}}},
					{Name: "x2.fga", Module: "x2", Extend: map[int]bool{0: true}, Model: &Model{Types: []TypeDef{{Name: "doc", Rels: []Relation{rel(b)}}}}},
				}
			}
			for i := range ms.Files {
				f := &ms.Files[i]
				r := Render(f.Model, Canonical{}, RenderOpts{Module: f.Module, Extend: f.Extend})
				f.Text, f.Pos, f.Fixed = r.Text, r.Pos, true
			}
			ms.Expected = ms.expected()
			ms.Scale = "name-pair-family"
			out = append(out, ms)
		}
	}
	return out
}
