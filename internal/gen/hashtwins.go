package gen

import (
	"hash/adler32"
	"hash/crc32"
	"hash/fnv"
	"sync"
)

// HashTwins returns pairs of distinct, legal identifiers (lower-case words joined by '_') that collide under one of the
// usual 32-bit string hashes: FNV-1a, FNV-1, CRC-32 (IEEE), Adler-32, the 31-polynomial hash (Java's String.hashCode) and
// djb2. Anything that identifies a name by such a hash (an intern table, a sharded index) confuses the two names of a
// pair and no other names. The pairs are found once per process by a birthday search over a fixed, deterministic
// sequence of candidate names (a few hundred thousand candidates give a dozen collisions per hash).
func HashTwins() [][2]string {
	hashTwinsOnce.Do(func() {
		words := []string{"can", "view", "edit", "own", "admin", "member", "guest", "staff", "team", "org", "board", "merge", "invite", "read", "write", "list", "share", "move", "copy", "lock", "sign", "audit", "bill", "plan", "role", "user", "group", "repo", "file", "doc", "note", "task", "card", "page", "site", "zone", "unit", "cell", "node", "edge"}
		hs := []func(string) uint32{
			func(s string) uint32 { h := fnv.New32a(); h.Write([]byte(s)); return h.Sum32() },
			func(s string) uint32 { h := fnv.New32(); h.Write([]byte(s)); return h.Sum32() },
			func(s string) uint32 { return crc32.ChecksumIEEE([]byte(s)) },
			func(s string) uint32 { return adler32.Checksum([]byte(s)) },
			func(s string) uint32 {
				var h uint32
				for i := 0; i < len(s); i++ {
					h = h*31 + uint32(s[i])
				}
				return h
			},
			func(s string) uint32 {
				h := uint32(5381)
				for i := 0; i < len(s); i++ {
					h = h*33 + uint32(s[i])
				}
				return h
			},
		}
		seen := make([]map[uint32]string, len(hs))
		found := make([]int, len(hs))
		for i := range seen {
			seen[i] = map[uint32]string{}
		}
		n := len(words)
		// names of three and four words: 40^3 + 40^4 candidates at most; stop once every hash has 12 pairs
		done := func() bool {
			for _, f := range found {
				if f < 12 {
					return false
				}
			}
			return true
		}
		try := func(name string) {
			for i, h := range hs {
				if found[i] >= 12 {
					continue
				}
				k := h(name)
				if other, ok := seen[i][k]; ok && other != name {
					hashTwins = append(hashTwins, [2]string{other, name})
					found[i]++
				} else {
					seen[i][k] = name
				}
			}
		}
	outer:
		for a := 0; a < n; a++ {
			for b := 0; b < n; b++ {
				for c := 0; c < n; c++ {
					try(words[a] + "_" + words[b] + "_" + words[c])
					if a*n*n+b*n+c > 600000 {
						break outer
					}
				}
			}
			if done() {
				break
			}
		}
		for a := 0; a < n && !done(); a++ {
			for b := 0; b < n && !done(); b++ {
				for c := 0; c < n; c++ {
					for d := 0; d < n; d++ {
						try(words[a] + "_" + words[b] + "_" + words[c] + "_" + words[d])
					}
				}
			}
		}
	})
	return hashTwins
}

var (
	hashTwinsOnce sync.Once
	hashTwins     [][2]string
)
