package gen

import (
	"fmt"
	"strings"
)

// BoundaryModels returns a fixed set of legal models at the edges of the input space: sizes and shapes that random
// generation with its small size bounds never reaches, each one a shape that realistic "clean-ups" get wrong
// (line readers with a fixed buffer, sorts that are only stable below a threshold, case folding, byte versus rune
// offsets). Every model is DSL-expressible and carries no module attribution.
type Boundary struct {
	Name  string
	Model *Model
}

func BoundaryModels() []Boundary {
	var out []Boundary
	user := TypeDef{Name: "user"}
	this := func() *Rewrite { return &Rewrite{Kind: This} }
	comp := func(r string) *Rewrite { return &Rewrite{Kind: Computed, Rel: r} }

	// 1. a type-restriction list whose one-line rendering exceeds 64 KiB, with declarations behind it
	{
		m := &Model{Schema: "1.1", Types: []TypeDef{user}}
		var restr []Restriction
		for i := 0; i < 700; i++ {
			tn := fmt.Sprintf("organization_unit_member_type_%04d", i)
			m.Types = append(m.Types, TypeDef{Name: tn, Rels: []Relation{{Name: "member", Rw: this(), Restr: []Restriction{{Type: "user"}}}}})
			restr = append(restr, Restriction{Type: tn}, Restriction{Type: tn, Wild: true}, Restriction{Type: tn, Rel: "member"})
		}
		m.Types = append(m.Types, TypeDef{Name: "document", Rels: []Relation{
			{Name: "owner", Rw: this(), Restr: []Restriction{{Type: "user"}}},
			{Name: "reader", Rw: &Rewrite{Kind: Union, Kids: []*Rewrite{this(), comp("owner")}}, Restr: restr},
			{Name: "writer", Rw: comp("owner")},
		}}, TypeDef{Name: "report", Rels: []Relation{{Name: "viewer", Rw: this(), Restr: []Restriction{{Type: "user", Cond: "recent"}}}}})
		m.Conds = []Condition{{Name: "recent", Params: []Param{{Name: "age", Type: "int"}}, Expr: "age < 10"}}
		out = append(out, Boundary{"restriction list longer than 64 KiB on one line", m})
	}
	// 2. a name of more than 64 KiB (identifiers have no length limit in the grammar)
	{
		long := "t" + strings.Repeat("x", 66000)
		m := &Model{Schema: "1.1", Types: []TypeDef{user,
			{Name: long, Rels: []Relation{{Name: "member", Rw: this(), Restr: []Restriction{{Type: "user"}}}}},
			{Name: "doc", Rels: []Relation{{Name: "viewer", Rw: this(), Restr: []Restriction{{Type: long, Rel: "member"}, {Type: "user"}}}}},
		}}
		out = append(out, Boundary{"type name longer than 64 KiB", m})
	}
	// 3. many relations in one type (names interleave), many types
	{
		td := TypeDef{Name: "doc"}
		for i := 0; i < 40; i++ {
			n := fmt.Sprintf("r%02d", (i*17)%40)
			rd := Relation{Name: n, Rw: this(), Restr: []Restriction{{Type: "user"}}}
			if i > 0 && i%3 == 0 {
				rd = Relation{Name: n, Rw: &Rewrite{Kind: Union, Kids: []*Rewrite{this(), comp(td.Rels[i-1].Name)}}, Restr: []Restriction{{Type: "user"}, {Type: "user", Wild: true}}}
			}
			td.Rels = append(td.Rels, rd)
		}
		m := &Model{Schema: "1.1", Types: []TypeDef{user, td}}
		for i := 0; i < 60; i++ {
			m.Types = append(m.Types, TypeDef{Name: fmt.Sprintf("T%02d-x.y/z", (i*7)%60), Rels: []Relation{{Name: "m", Rw: this(), Restr: []Restriction{{Type: "user"}}}}})
		}
		out = append(out, Boundary{"40 relations in one type, 60 types", m})
	}
	// 4. nesting eight levels deep, operators with many operands
	{
		rw := comp("a")
		kinds := []string{Union, Intersection, Difference}
		for d := 0; d < 8; d++ {
			k := kinds[d%3]
			if k == Difference {
				rw = &Rewrite{Kind: k, Kids: []*Rewrite{rw, comp("b")}}
			} else {
				rw = &Rewrite{Kind: k, Kids: []*Rewrite{comp("b"), rw, comp("c")}}
			}
		}
		wide := &Rewrite{Kind: Union, Kids: []*Rewrite{this()}}
		for i := 0; i < 12; i++ {
			wide.Kids = append(wide.Kids, comp([]string{"a", "b", "c"}[i%3]))
		}
		wide.Kids = append(wide.Kids, &Rewrite{Kind: Intersection, Kids: []*Rewrite{comp("a"), comp("b")}}, &Rewrite{Kind: Intersection, Kids: []*Rewrite{comp("b"), comp("c")}})
		six := &Rewrite{Kind: Intersection, Kids: []*Rewrite{comp("a"), comp("b"), comp("c"), comp("a"), comp("b"), {Kind: Union, Kids: []*Rewrite{comp("c"), comp("a")}}}}
		m := &Model{Schema: "1.1", Types: []TypeDef{user, {Name: "doc", Rels: []Relation{
			{Name: "a", Rw: this(), Restr: []Restriction{{Type: "user"}}},
			{Name: "b", Rw: this(), Restr: []Restriction{{Type: "user"}}},
			{Name: "c", Rw: this(), Restr: []Restriction{{Type: "user"}}},
			{Name: "deep", Rw: rw},
			{Name: "wide", Rw: wide, Restr: []Restriction{{Type: "user"}}},
			{Name: "six", Rw: six},
		}}}}
		out = append(out, Boundary{"nesting eight levels deep, 13 and 5 operands with groups behind them", m})
	}
	// 5. conditions: every parameter type, containers of every type, names differing in case, non-ASCII literals,
	//    the modulo operator, many conditions
	{
		scalars := []string{"bool", "string", "int", "uint", "double", "duration", "timestamp", "ipaddress"}
		var ps []Param
		for _, s := range scalars {
			ps = append(ps, Param{Name: "p_" + s, Type: s}, Param{Name: "l_" + s, Type: "list", Elem: s}, Param{Name: "m_" + s, Type: "map", Elem: s})
		}
		m := &Model{Schema: "1.1", Types: []TypeDef{user, {Name: "doc", Rels: []Relation{{Name: "viewer", Rw: this(),
			Restr: []Restriction{{Type: "user", Cond: "all_types"}, {Type: "user", Cond: "Mixed_Case"}, {Type: "user", Wild: true, Cond: "unicode"}, {Type: "user", Cond: "modulo"}}}}}}}
		m.Conds = []Condition{
			{Name: "all_types", Params: ps, Expr: "p_bool && p_int > 1"},
			{Name: "Mixed_Case", Params: []Param{{Name: "userIP", Type: "ipaddress"}, {Name: "X", Type: "int"}, {Name: "x", Type: "int"}, {Name: "allowedCIDRs", Type: "list", Elem: "string"}}, Expr: "X > x && userIP.in_cidr(allowedCIDRs[0])"},
			{Name: "unicode", Params: []Param{{Name: "city", Type: "string"}}, Expr: "city == \"Zürich\" || city == \"東京\" || city == \"😀😀\""},
			{Name: "modulo", Params: []Param{{Name: "shard", Type: "int"}, {Name: "label", Type: "string"}}, Expr: "shard % 2 == 0 && label != \"100%\" && label != \"%s%d%%\""},
		}
		for i := 0; i < 30; i++ {
			m.Conds = append(m.Conds, Condition{Name: fmt.Sprintf("c%02d", (i*11)%30), Params: []Param{{Name: "v", Type: "int"}}, Expr: fmt.Sprintf("v > %d", i)})
		}
		out = append(out, Boundary{"conditions: all parameter types, mixed-case names, non-ASCII literals, modulo, 34 conditions", m})
	}
	return out
}
