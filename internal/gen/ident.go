package gen

import (
	"strings"

	"pgregory.net/rapid"
)

// Words the lexer reserves in the default mode (never usable as a name).
var reservedDefault = map[string]bool{
	"and": true, "or": true, "from": true, "define": true, "relations": true, "with": true, "condition": true,
	"in": true, "true": true, "false": true, "null": true,
}

// Words the CONDITION_DEF lexer mode turns into type tokens (not usable as condition/parameter names).
var reservedCondMode = map[string]bool{
	"map": true, "list": true, "bool": true, "string": true, "int": true, "uint": true, "double": true,
	"duration": true, "timestamp": true, "ipaddress": true,
}

// Keywords the parser grammar admits as names through the `identifier` rule.
var KeywordNames = []string{"model", "schema", "type", "relation", "module", "extend"}

var nearKeywords = []string{"conditional", "types", "but", "not", "definer", "relations_", "within", "or_", "and1", "fromage", "inx", "truex", "nulls", "modelx", "extended", "schema1", "Type", "MODEL", "b", "r", "u", "e5", "x0x1"}

// IdentKind selects the lexical class.
type IdentKind int

const (
	IdentExtended  IdentKind = iota // extended_identifier: type, relation, restriction and rewrite names
	IdentKeywordOK                  // identifier: IDENTIFIER or one of the six keywords (module names)
	IdentPlain                      // IDENTIFIER only, minus CONDITION_DEF type words (condition names)
	IdentParam                      // condition parameter names: as IdentPlain, and the six keyword names as well (inside a condition the words module, type, ... are ordinary identifiers)
)

func isKeywordName(s string) bool {
	for _, k := range KeywordNames {
		if k == s {
			return true
		}
	}
	return false
}

// Ident draws one identifier of the given class. rich=false restricts to short plain names.
func Ident(t *rapid.T, kind IdentKind, rich bool, label string) string {
	for tries := 0; ; tries++ {
		var s string
		shape := 0
		if rich {
			shape = rapid.IntRange(0, 9).Draw(t, label+"_shape")
		}
		switch {
		case shape <= 3:
			s = rapid.StringMatching(`[a-z][a-z0-9_]{0,5}`).Draw(t, label)
		case shape == 4:
			s = rapid.StringMatching(`[A-Za-z_][A-Za-z0-9_\-]{0,7}`).Draw(t, label) // IDENTIFIER incl. dashes, trailing dash
		case shape == 5 && kind == IdentExtended:
			s = rapid.StringMatching(`[A-Za-z_][A-Za-z0-9_]{0,3}([/.\-][A-Za-z0-9_]{1,3}){1,3}`).Draw(t, label) // EXTENDED_IDENTIFIER
		case shape == 6 && kind != IdentPlain:
			s = rapid.SampledFrom(KeywordNames).Draw(t, label)
		case shape == 7:
			s = rapid.SampledFrom(nearKeywords).Draw(t, label)
		case shape == 8 && kind == IdentExtended:
			s = rapid.SampledFrom(KeywordNames).Draw(t, label) + rapid.SampledFrom([]string{"-x", "_1", ".a", "/b", "s"}).Draw(t, label+"_sfx")
		default:
			s = rapid.StringMatching(`[a-z]{1,3}`).Draw(t, label)
		}
		if reservedDefault[s] {
			continue
		}
		if kind == IdentPlain && (reservedCondMode[s] || isKeywordName(s) || strings.ContainsAny(s, "./")) {
			continue
		}
		if kind == IdentParam && (reservedCondMode[s] || strings.ContainsAny(s, "./")) {
			continue
		}
		if kind == IdentKeywordOK && strings.ContainsAny(s, "./") {
			continue
		}
		if kind != IdentExtended && !isPlainIdentifier(s) {
			continue
		}
		if !singleToken(s) {
			continue
		}
		return s
	}
}

func isPlainIdentifier(s string) bool {
	for i, c := range s {
		ok := c == '_' || (c >= 'a' && c <= 'z') || (c >= 'A' && c <= 'Z') || (i > 0 && (c == '-' || (c >= '0' && c <= '9')))
		if !ok {
			return false
		}
	}
	return s != ""
}

// singleToken: does longest-match lexing (IDENTIFIER vs EXTENDED_IDENTIFIER) turn s into exactly
// one token? (e.g. "a-.b" does not: IDENTIFIER "a-", DOT, "b")
func singleToken(s string) bool {
	if s == "" {
		return false
	}
	alnum := func(c byte) bool {
		return c == '_' || (c >= 'a' && c <= 'z') || (c >= 'A' && c <= 'Z') || (c >= '0' && c <= '9')
	}
	first := s[0]
	if !(first == '_' || (first >= 'a' && first <= 'z') || (first >= 'A' && first <= 'Z')) {
		return false
	}
	// IDENTIFIER match length
	i := 1
	for i < len(s) && (alnum(s[i]) || s[i] == '-') {
		i++
	}
	// EXTENDED_IDENTIFIER match length
	j := 1
	for j < len(s) {
		k := j
		if s[k] == '/' || s[k] == '.' || s[k] == '-' {
			k++
		}
		if k < len(s) && alnum(s[k]) {
			for k < len(s) && alnum(s[k]) {
				k++
			}
			j = k
		} else {
			break
		}
	}
	if i > j {
		return i == len(s)
	}
	return j == len(s)
}

// UniqueIdent draws until the name is not in used, then records it.
func UniqueIdent(t *rapid.T, kind IdentKind, rich bool, used map[string]bool, label string) string {
	for i := 0; ; i++ {
		s := Ident(t, kind, rich, label)
		if i > 6 {
			s += rapid.StringMatching(`[a-z0-9]{2}`).Draw(t, label+"_u")
		}
		if !used[s] && !reservedDefault[s] && ((kind != IdentPlain && kind != IdentParam) || !reservedCondMode[s]) {
			used[s] = true
			return s
		}
	}
}
