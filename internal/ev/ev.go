// Package ev collects what a check actually covered (cases, non-trivial cases, class
// histogram, samples, known-finding hits), writes replay files for violations and writes a
// per-process evidence part that the driver (cmd/vrun) merges into evidence/<id>.json.
package ev

import (
	"crypto/sha256"
	"encoding/binary"
	"encoding/json"
	"fmt"
	"os"
	"path/filepath"
	"sort"
	"strconv"
	"sync"
	"time"
)

// Root is the /verif directory (the driver exports VERIF_ROOT; tests run with cwd=checks/).
func Root() string {
	if r := os.Getenv("VERIF_ROOT"); r != "" {
		return r
	}
	wd, _ := os.Getwd()
	for d := wd; d != "/"; d = filepath.Dir(d) {
		if _, err := os.Stat(filepath.Join(d, "properties.jsonl")); err == nil {
			return d
		}
	}
	return wd
}

// Repo is the repository under test.
func Repo() string {
	if r := os.Getenv("VERIF_REPO"); r != "" {
		return r
	}
	return "/repo"
}

func Tier() string {
	if t := os.Getenv("VERIF_TIER"); t == "thorough" {
		return "thorough"
	}
	return "quick"
}

func Thorough() bool { return Tier() == "thorough" }

func Seed() int64 {
	s, _ := strconv.ParseInt(os.Getenv("VERIF_SEED"), 10, 64)
	return s
}

func Shard() int {
	s, _ := strconv.Atoi(os.Getenv("VERIF_SHARD"))
	return s
}

func Shards() int {
	s, _ := strconv.Atoi(os.Getenv("VERIF_SHARDS"))
	if s < 1 {
		s = 1
	}
	return s
}

// Part is the per-process evidence record merged by the driver.
type Part struct {
	Property     string           `json:"property_id"`
	Shard        int              `json:"shard"`
	Evaluations  int64            `json:"evaluations"`
	NonTrivial   int64            `json:"nontrivial_evaluations"`
	Classes      map[string]int64 `json:"classes"`
	Samples      []any            `json:"samples"`
	Known        map[string]int64 `json:"known_finding_hits"`
	Excluded     map[string]int64 `json:"excluded_by_construction"`
	Notes        []string         `json:"notes"`
	Exhaustive   bool             `json:"exhaustive"`
	ExhaustiveOf string           `json:"exhaustive_of,omitempty"`
	Violations   int              `json:"violations"`
	WallS        float64          `json:"wall_s"`
	Rule         string           `json:"rule"`
	Assumptions  []string         `json:"assumptions"`
	Starved      []string         `json:"starved_classes,omitempty"`
}

// Rec is a concurrency-safe recorder for one property in one process.
type Rec struct {
	mu       sync.Mutex
	p        Part
	hashes   map[uint64]struct{}
	start    time.Time
	maxSamp  int
	caseNT   int64              // non-trivial cases seen through Case (sampling schedule)
	caseN    int64              // cases seen through Case (denominator of the starvation rule; Bulk does not count)
	required map[string]float64 // class -> minimal fraction of evaluations
}

// RuleAddendum: text appended to the rule of a property (set by the checks package).
var RuleAddendum = map[string]string{}

func New(property, rule string) *Rec {
	rule += RuleAddendum[property]
	return &Rec{
		p: Part{Property: property, Shard: Shard(), Classes: map[string]int64{}, Known: map[string]int64{},
			Excluded: map[string]int64{}, Rule: rule},
		hashes: map[uint64]struct{}{}, start: time.Now(), maxSamp: 6, required: map[string]float64{},
	}
}

func (r *Rec) Assume(s ...string) {
	r.mu.Lock()
	r.p.Assumptions = append(r.p.Assumptions, s...)
	r.mu.Unlock()
}
func (r *Rec) Note(format string, a ...any) {
	r.mu.Lock()
	if len(r.p.Notes) < 40 {
		r.p.Notes = append(r.p.Notes, fmt.Sprintf(format, a...))
	}
	r.mu.Unlock()
}

// Require declares that class c must make up at least frac of all evaluations, otherwise the
// generator is considered starved (a harness defect, exit 2, never a violation).
func (r *Rec) Require(c string, frac float64) { r.mu.Lock(); r.required[c] = frac; r.mu.Unlock() }

func hashOf(key any) uint64 {
	var b []byte
	switch k := key.(type) {
	case string:
		b = []byte(k)
	case []byte:
		b = k
	default:
		b, _ = json.Marshal(k)
	}
	s := sha256.Sum256(b)
	return binary.LittleEndian.Uint64(s[:8])
}

// Case records one generated case. key identifies the case for distinct counting (any
// JSON-serialisable value or a string); nontrivial is the property's stated rule; classes feed the
// histogram; sample, if non-nil, may be kept as one of the written-out samples.
// clip keeps samples readable: strings longer than 3000 bytes inside a sample are cut (a generated document may
// contain a line of 64 KiB and more).
func clip(v any) any {
	switch x := v.(type) {
	case string:
		if len(x) > 3000 {
			return x[:1500] + fmt.Sprintf(" …[%d bytes cut]… ", len(x)-3000) + x[len(x)-1500:]
		}
		return x
	case map[string]any:
		out := make(map[string]any, len(x))
		for k, e := range x {
			out[k] = clip(e)
		}
		return out
	case []any:
		out := make([]any, len(x))
		for i, e := range x {
			out[i] = clip(e)
		}
		return out
	case []string:
		out := make([]any, len(x))
		for i, e := range x {
			out[i] = clip(e)
		}
		return out
	}
	return v
}

func (r *Rec) Case(key any, nontrivial bool, sample any, classes ...string) {
	sample = clip(sample)
	r.mu.Lock()
	defer r.mu.Unlock()
	r.p.Evaluations++
	r.caseN++
	for _, c := range classes {
		r.p.Classes[c]++
	}
	if nontrivial {
		r.p.NonTrivial++
		r.hashes[hashOf(key)] = struct{}{}
		if sample != nil && len(r.p.Samples) < r.maxSamp {
			// spread samples: take the 1st, then every time the count doubles
			r.caseNT++
			n := r.caseNT
			if n&(n-1) == 0 {
				r.p.Samples = append(r.p.Samples, sample)
			}
		}
	}
}

// Bulk adds counts for enumerations where per-case bookkeeping would dominate the cost.
// distinctNontrivial cases are assumed pairwise distinct (an enumeration never repeats).
func (r *Rec) Bulk(evals, distinctNontrivial int64, classes map[string]int64) {
	r.mu.Lock()
	defer r.mu.Unlock()
	r.p.Evaluations += evals
	r.p.NonTrivial += distinctNontrivial
	base := uint64(len(r.hashes)) + uint64(r.p.Shard)<<48 + 1<<62
	for i := int64(0); i < distinctNontrivial; i++ {
		r.hashes[base+uint64(i)] = struct{}{}
	}
	for k, v := range classes {
		r.p.Classes[k] += v
	}
}

func (r *Rec) Sample(s any) {
	s = clip(s)
	r.mu.Lock()
	if len(r.p.Samples) < r.maxSamp+4 {
		r.p.Samples = append(r.p.Samples, s)
	}
	r.mu.Unlock()
}

func (r *Rec) Class(c string, n int64) { r.mu.Lock(); r.p.Classes[c] += n; r.mu.Unlock() }
func (r *Rec) Known(id string)         { r.mu.Lock(); r.p.Known[id]++; r.mu.Unlock() }
func (r *Rec) Excluded(what string)    { r.mu.Lock(); r.p.Excluded[what]++; r.mu.Unlock() }
func (r *Rec) SetExhaustive(of string) {
	r.mu.Lock()
	r.p.Exhaustive = true
	r.p.ExhaustiveOf = of
	r.mu.Unlock()
}
func (r *Rec) KnownHits(id string) int64 {
	r.mu.Lock()
	defer r.mu.Unlock()
	return r.p.Known[id]
}
func (r *Rec) Count(c string) int64 {
	r.mu.Lock()
	defer r.mu.Unlock()
	return r.p.Classes[c]
}
func (r *Rec) Evaluations() int64 {
	r.mu.Lock()
	defer r.mu.Unlock()
	return r.p.Evaluations
}

// Violation writes a replay file and prints the marker the driver turns into a VIOLATION line.
// Called on every failing execution; rapid runs the shrunk case last, so the file named in the
// last marker is the minimal one.
// Prelude: a call history that preceded the checked call of the current case (see checks/noise_test.go). It is written
// into the replay file of a violation and re-run by LoadReplay (through PreludeRunner) before the replayed check.
var (
	preludeMu     sync.Mutex
	prelude       any
	PreludeRunner func(raw json.RawMessage)
)

// SetPrelude records (or, with nil, clears) the prelude of the current case.
func SetPrelude(v any) { preludeMu.Lock(); prelude = v; preludeMu.Unlock() }

func (r *Rec) Violation(input any, what string) string {
	r.mu.Lock()
	defer r.mu.Unlock()
	r.p.Violations++
	doc := map[string]any{"property": r.p.Property, "what": what, "input": input}
	preludeMu.Lock()
	if prelude != nil {
		doc["prelude"] = prelude
	}
	preludeMu.Unlock()
	b, _ := json.MarshalIndent(doc, "", " ")
	dir := filepath.Join(Root(), "replays")
	_ = os.MkdirAll(dir, 0o755)
	name := filepath.Join(dir, fmt.Sprintf("%s-s%d-p%d.json", r.p.Property, r.p.Shard, os.Getpid()))
	_ = os.WriteFile(name, b, 0o644)
	fmt.Printf("VERIF-FAIL property=%s replay=%s what=%s\n", r.p.Property, name, oneLine(what))
	return name
}

// HarnessError reports a defect of the harness itself (unsound generator, starved class).
func HarnessError(property, format string, a ...any) {
	fmt.Printf("VERIF-HARNESS-ERROR property=%s %s\n", property, oneLine(fmt.Sprintf(format, a...)))
}

func oneLine(s string) string {
	out := make([]rune, 0, len(s))
	for _, c := range s {
		if c == '\n' || c == '\r' {
			c = ' '
		}
		out = append(out, c)
		if len(out) > 600 {
			break
		}
	}
	return string(out)
}

// Flush writes the evidence part (and its hash sidecar). Returns false when a required class is
// starved.
func (r *Rec) Flush() bool {
	r.mu.Lock()
	defer r.mu.Unlock()
	r.p.WallS = time.Since(r.start).Seconds()
	ok := true
	var names []string
	for c := range r.required {
		names = append(names, c)
	}
	sort.Strings(names)
	for _, c := range names {
		if r.caseN >= 200 && float64(r.p.Classes[c]) < r.required[c]*float64(r.caseN) {
			r.p.Starved = append(r.p.Starved, fmt.Sprintf("%s=%d/%d<%.3f", c, r.p.Classes[c], r.caseN, r.required[c]))
			ok = false
		}
	}
	dir := filepath.Join(Root(), "evidence", "parts")
	_ = os.MkdirAll(dir, 0o755)
	base := filepath.Join(dir, fmt.Sprintf("%s.%d", r.p.Property, r.p.Shard))
	b, _ := json.MarshalIndent(r.p, "", " ")
	_ = os.WriteFile(base+".json", b, 0o644)
	hb := make([]byte, 0, 8*len(r.hashes))
	for h := range r.hashes {
		hb = binary.LittleEndian.AppendUint64(hb, h)
	}
	_ = os.WriteFile(base+".hashes", hb, 0o644)
	if !ok {
		HarnessError(r.p.Property, "starved classes: %v", r.p.Starved)
	}
	return ok
}

// LoadReplay reads the "input" member of a replay file into v.
func LoadReplay(path string, v any) (what string, err error) {
	b, err := os.ReadFile(path)
	if err != nil {
		return "", err
	}
	var env struct {
		What    string          `json:"what"`
		Input   json.RawMessage `json:"input"`
		Prelude json.RawMessage `json:"prelude"`
	}
	if err := json.Unmarshal(b, &env); err != nil {
		return "", err
	}
	if len(env.Prelude) > 0 && PreludeRunner != nil {
		PreludeRunner(env.Prelude)
	}
	return env.What, json.Unmarshal(env.Input, v)
}

// ReplayFiles lists the files TestReplayCNN must run: VERIF_REPLAY if set, else regress/<id>/*.json.
func ReplayFiles(property string) []string {
	if p := os.Getenv("VERIF_REPLAY"); p != "" {
		return []string{p}
	}
	m, _ := filepath.Glob(filepath.Join(Root(), "regress", property, "*.json"))
	sort.Strings(m)
	return m
}

// KnownFinding is one entry of known_findings.json.
type KnownFinding struct {
	ID         string   `json:"id"`
	Status     string   `json:"status"` // "known" or "fixed"
	Properties []string `json:"properties"`
	What       string   `json:"what"`
	Signature  string   `json:"signature,omitempty"`
	Witness    string   `json:"witness,omitempty"`
	Commit     string   `json:"commit,omitempty"`
}

var (
	kfOnce sync.Once
	kf     []KnownFinding
)

// Findings returns the committed list; it is only ever read.
func Findings() []KnownFinding {
	kfOnce.Do(func() {
		b, err := os.ReadFile(filepath.Join(Root(), "known_findings.json"))
		if err != nil {
			return
		}
		var f struct {
			Findings []KnownFinding `json:"findings"`
		}
		if json.Unmarshal(b, &f) == nil {
			kf = f.Findings
		}
	})
	return kf
}

// IsKnown reports whether finding id is listed as status "known" for property.
func IsKnown(property, id string) bool {
	for _, f := range Findings() {
		if f.ID == id && f.Status == "known" {
			for _, p := range f.Properties {
				if p == property {
					return true
				}
			}
		}
	}
	return false
}

// PrintKnown prints the KNOWN-FINDING line for each listed, still reproducing finding.
func PrintKnown(property, id, what string) {
	fmt.Printf("KNOWN-FINDING: property=%s %s: %s\n", property, id, oneLine(what))
}
