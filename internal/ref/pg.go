package ref

import (
	"fmt"
	"sort"
	"strings"

	"verif/internal/gen"
)

// Reference plain authorization-model graph (direction: user types towards relations).

type PNode struct {
	ID   string // label for type/relation/wildcard nodes, structural path for operators
	Kind string // type, wild, rel, union, intersection, exclusion
	In   []*PEdge
	Out  []*PEdge
}

type PEdge struct {
	From, To *PNode
	Kind     string // direct, rewrite, computed, ttu
	TS       string
}

type PGraph struct {
	Nodes map[string]*PNode
	Order []string
}

func (n *PNode) IsOp() bool { return n.Kind == "union" || n.Kind == "intersection" || n.Kind == "exclusion" }

func (g *PGraph) node(id, kind string) *PNode {
	if n, ok := g.Nodes[id]; ok {
		return n
	}
	n := &PNode{ID: id, Kind: kind}
	g.Nodes[id] = n
	g.Order = append(g.Order, id)
	return n
}

func (g *PGraph) edge(from, to *PNode, kind, ts string) {
	e := &PEdge{From: from, To: to, Kind: kind, TS: ts}
	from.Out = append(from.Out, e)
	to.In = append(to.In, e)
}

func (g *PGraph) hasEdge(from, to *PNode, kind, ts string) bool {
	for _, e := range from.Out {
		if e.To == to && e.Kind == kind && e.TS == ts {
			return true
		}
	}
	return false
}

// BuildPlain constructs the reference plain graph from the model AST.
func BuildPlain(m *gen.Model) *PGraph {
	g := &PGraph{Nodes: map[string]*PNode{}}
	hasRel := func(tn, rn string) bool {
		for _, t := range m.Types {
			if t.Name == tn {
				for _, r := range t.Rels {
					if r.Name == rn {
						return true
					}
				}
			}
		}
		return false
	}
	types := append([]gen.TypeDef{}, m.Types...)
	sort.SliceStable(types, func(i, j int) bool { return types[i].Name < types[j].Name })
	for _, td := range types {
		g.node(td.Name, "type")
		rels := append([]gen.Relation{}, td.Rels...)
		sort.SliceStable(rels, func(i, j int) bool { return rels[i].Name < rels[j].Name })
		restrOf := func(rn string) []gen.Restriction {
			for _, r := range td.Rels {
				if r.Name == rn {
					return r.Restr
				}
			}
			return nil
		}
		for _, rd := range rels {
			rn := g.node(td.Name+"#"+rd.Name, "rel")
			var walk func(parent *PNode, r *gen.Rewrite, path string)
			walk = func(parent *PNode, r *gen.Rewrite, path string) {
				switch r.Kind {
				case gen.This:
					for _, x := range rd.Restr {
						var from *PNode
						switch {
						case x.Wild:
							from = g.node(x.Type+":*", "wild")
						case x.Rel != "":
							from = g.node(x.Type+"#"+x.Rel, "rel")
						default:
							from = g.node(x.Type, "type")
						}
						if !g.hasEdge(from, parent, "direct", "") {
							g.edge(from, parent, "direct", "")
						}
					}
				case gen.Computed:
					from := g.node(td.Name+"#"+r.Rel, "rel")
					k := "rewrite"
					if parent.Kind == "rel" {
						k = "computed"
					}
					g.edge(from, parent, k, "")
				case gen.TTU:
					for _, x := range restrOf(r.Tupleset) {
						if !hasRel(x.Type, r.Rel) {
							continue
						}
						from := g.node(x.Type+"#"+r.Rel, "rel")
						lbl := td.Name + "#" + r.Tupleset
						if !g.hasEdge(from, parent, "ttu", lbl) {
							g.edge(from, parent, "ttu", lbl)
						}
					}
				case gen.Union, gen.Intersection, gen.Difference:
					k := r.Kind
					if k == gen.Difference {
						k = "exclusion"
					}
					op := g.node(path+"/"+k, k)
					g.edge(op, parent, "rewrite", "")
					for i, kid := range r.Kids {
						walk(op, kid, fmt.Sprintf("%s/%d", path, i))
					}
				}
			}
			walk(rn, rd.Rw, rn.ID)
		}
	}
	return g
}

// Signature is a canonical, order-free description of the graph: every labelled node with the
// multiset of its incoming edges, operator nodes expanded structurally.
func (g *PGraph) Signature() string {
	var sig func(n *PNode) string
	sig = func(n *PNode) string {
		if !n.IsOp() {
			return n.ID
		}
		var parts []string
		for _, e := range n.In {
			parts = append(parts, fmt.Sprintf("%s[%s]%s", e.Kind, e.TS, sig(e.From)))
		}
		sort.Strings(parts)
		return n.Kind + "(" + strings.Join(parts, ",") + ")"
	}
	var lines []string
	for _, id := range g.Order {
		n := g.Nodes[id]
		if n.IsOp() {
			continue
		}
		var parts []string
		for _, e := range n.In {
			parts = append(parts, fmt.Sprintf("%s[%s]%s", e.Kind, e.TS, sig(e.From)))
		}
		sort.Strings(parts)
		lines = append(lines, fmt.Sprintf("%s:%s <= %s", n.Kind, n.ID, strings.Join(parts, " ; ")))
	}
	sort.Strings(lines)
	return strings.Join(lines, "\n")
}

// Labels lists the labelled (non-operator) node ids.
func (g *PGraph) Labels() []string {
	var out []string
	for _, id := range g.Order {
		if !g.Nodes[id].IsOp() {
			out = append(out, id)
		}
	}
	sort.Strings(out)
	return out
}

// Reach: is there a directed path from a to b (a == b counts)?
func (g *PGraph) Reach(a, b string) bool {
	from, ok1 := g.Nodes[a]
	to, ok2 := g.Nodes[b]
	if !ok1 || !ok2 {
		return false
	}
	seen := map[*PNode]bool{}
	stack := []*PNode{from}
	for len(stack) > 0 {
		n := stack[len(stack)-1]
		stack = stack[:len(stack)-1]
		if n == to {
			return true
		}
		if seen[n] {
			continue
		}
		seen[n] = true
		for _, e := range n.Out {
			stack = append(stack, e.To)
		}
	}
	return false
}

// HasCycle reports any directed cycle, self loops included.
func (g *PGraph) HasCycle() bool {
	state := map[*PNode]int{}
	var visit func(n *PNode) bool
	visit = func(n *PNode) bool {
		state[n] = 1
		for _, e := range n.Out {
			if state[e.To] == 1 {
				return true
			}
			if state[e.To] == 0 && visit(e.To) {
				return true
			}
		}
		state[n] = 2
		return false
	}
	for _, id := range g.Order {
		if state[g.Nodes[id]] == 0 && visit(g.Nodes[id]) {
			return true
		}
	}
	return false
}

// HasPureComputedCycle: two or more relation nodes on a cycle made of computed edges only.
func (g *PGraph) HasPureComputedCycle() bool {
	state := map[*PNode]int{}
	var visit func(n *PNode) bool
	visit = func(n *PNode) bool {
		state[n] = 1
		for _, e := range n.Out {
			if e.Kind != "computed" || e.To == n {
				continue
			}
			if state[e.To] == 1 {
				return true
			}
			if state[e.To] == 0 && visit(e.To) {
				return true
			}
		}
		state[n] = 2
		return false
	}
	for _, id := range g.Order {
		if state[g.Nodes[id]] == 0 && visit(g.Nodes[id]) {
			return true
		}
	}
	return false
}

// ParallelLines: some ordered node pair joined by more than one edge.
func (g *PGraph) ParallelLines() bool {
	for _, n := range g.Nodes {
		cnt := map[*PNode]int{}
		for _, e := range n.Out {
			cnt[e.To]++
			if cnt[e.To] > 1 {
				return true
			}
		}
	}
	return false
}

// CyclesEnumerable reports whether a naive enumeration of the elementary cycles of the graph (depth-first search over
// simple paths, parallel lines counted once) finishes within the given number of steps. Enumerating elementary cycles
// is exponential in general; callers use this to decide whether asking the library for all cycles is affordable.
func (g *PGraph) CyclesEnumerable(budget int) bool {
	idx := map[*PNode]int{}
	var nodes []*PNode
	for _, id := range g.Order {
		idx[g.Nodes[id]] = len(nodes)
		nodes = append(nodes, g.Nodes[id])
	}
	succ := make([][]int, len(nodes))
	for i, n := range nodes {
		seen := map[int]bool{}
		for _, e := range n.Out {
			j := idx[e.To]
			if !seen[j] {
				seen[j] = true
				succ[i] = append(succ[i], j)
			}
		}
	}
	steps := 0
	onPath := make([]bool, len(nodes))
	var dfs func(s, v int) bool
	dfs = func(s, v int) bool {
		for _, w := range succ[v] {
			steps++
			if steps > budget {
				return false
			}
			if w < s || onPath[w] {
				continue // w == s closes a cycle (counted as a step); smaller indices belong to earlier start nodes
			}
			onPath[w] = true
			ok := dfs(s, w)
			onPath[w] = false
			if !ok {
				return false
			}
		}
		return true
	}
	for s := range nodes {
		onPath[s] = true
		ok := dfs(s, s)
		onPath[s] = false
		if !ok {
			return false
		}
	}
	return true
}
