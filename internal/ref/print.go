package ref

import (
	"verif/internal/gen"
)

// first: can the unique direct assignment of the tree be placed first? (property C02: first
// operand of its union/intersection, base of its exclusion, recursively from the root)
func first(r *gen.Rewrite) bool {
	switch r.Kind {
	case gen.This:
		return true
	case gen.Union, gen.Intersection:
		for _, k := range r.Kids {
			if k.Kind == gen.This {
				return true
			}
		}
		if len(r.Kids) == 0 {
			return false
		}
		return first(r.Kids[0])
	case gen.Difference:
		return first(r.Kids[0])
	}
	return false
}

// Expressible: at most one direct assignment, and it can be placed first.
func Expressible(r *gen.Rewrite) bool {
	n := r.CountThis()
	return n == 0 || (n == 1 && first(r))
}

// NormaliseRewrite: what the DSL keeps of a rewrite tree: the direct assignment hoisted to the
// front of its union/intersection, single-child unions/intersections collapsed.
func NormaliseRewrite(r *gen.Rewrite) *gen.Rewrite {
	switch r.Kind {
	case gen.Union, gen.Intersection:
		var kids []*gen.Rewrite
		var th *gen.Rewrite
		for _, k := range r.Kids {
			nk := NormaliseRewrite(k)
			if nk.Kind == gen.This && th == nil {
				th = nk
				continue
			}
			kids = append(kids, nk)
		}
		if th != nil {
			kids = append([]*gen.Rewrite{th}, kids...)
		}
		if len(kids) == 1 {
			return kids[0]
		}
		return &gen.Rewrite{Kind: r.Kind, Kids: kids}
	case gen.Difference:
		return &gen.Rewrite{Kind: r.Kind, Kids: []*gen.Rewrite{NormaliseRewrite(r.Kids[0]), NormaliseRewrite(r.Kids[1])}}
	}
	return r.Clone()
}

// NormaliseForDSL returns the model parse(print(m)) must equal: normalised rewrites, restrictions
// of relations without a direct assignment dropped, attribution dropped (the DSL cannot carry it).
func NormaliseForDSL(m *gen.Model) *gen.Model {
	c := m.Clone()
	for i := range c.Types {
		c.Types[i].Module, c.Types[i].File = "", ""
		for j := range c.Types[i].Rels {
			r := &c.Types[i].Rels[j]
			r.Module, r.File = "", ""
			if r.Rw.CountThis() == 0 {
				r.Restr = nil
			}
			r.Rw = NormaliseRewrite(r.Rw)
		}
	}
	for i := range c.Conds {
		c.Conds[i].Module, c.Conds[i].File = "", ""
	}
	return c
}
