// Package ref holds the oracles. wg.go: reference weighted graph built from the model AST (never
// from the library's graph), the well-foundedness predicate, specification weights, wildcard
// reachability and the "as implemented" variant used as the exact footprint of recorded findings.
package ref

import (
	"fmt"
	"sort"
	"strings"

	"verif/internal/gen"
)

const Infinite = 2147483647

type Node struct {
	ID    string
	Kind  string // type, wild, rel, union, intersection, exclusion
	Edges []*Edge
	W     map[string]int
}

type Edge struct {
	From, To *Node
	Kind     string // direct, rewrite, computed, ttu
	TS       string // "type#tupleset" for ttu
	Operands []int  // operand indices (of From's operator) this edge belongs to
	Conds    []string
	W        map[string]int
}

type Graph struct {
	Nodes map[string]*Node
	Order []string
	Err   string // construction-time rejection reason
	// structure statistics, for non-triviality rules
	DedupedEdges, MultiParentTTU int
}

func (n *Node) IsOp() bool { return n.Kind == "union" || n.Kind == "intersection" || n.Kind == "exclusion" }
func (n *Node) Terminal() bool {
	return n.Kind == "type" || n.Kind == "wild"
}

func (e *Edge) Hop() bool { return e.Kind == "ttu" || (e.Kind == "direct" && e.To.Kind == "rel") }

func (g *Graph) node(id, kind string) *Node {
	if n, ok := g.Nodes[id]; ok {
		return n
	}
	n := &Node{ID: id, Kind: kind}
	g.Nodes[id] = n
	g.Order = append(g.Order, id)
	return n
}

func addOperand(e *Edge, op int) {
	for _, o := range e.Operands {
		if o == op {
			return
		}
	}
	e.Operands = append(e.Operands, op)
}

// Build constructs the reference graph in the documented construction order (types sorted by
// name, relations sorted by name, operands in source order).
func Build(m *gen.Model) *Graph {
	g := &Graph{Nodes: map[string]*Node{}}
	types := append([]gen.TypeDef{}, m.Types...)
	sort.SliceStable(types, func(i, j int) bool { return types[i].Name < types[j].Name })
	hasRel := func(tn, rn string) bool {
		for _, t := range m.Types {
			if t.Name == tn {
				for _, r := range t.Rels {
					if r.Name == rn {
						return true
					}
				}
			}
		}
		return false
	}
	for _, td := range types {
		g.node(td.Name, "type")
		rels := append([]gen.Relation{}, td.Rels...)
		sort.SliceStable(rels, func(i, j int) bool { return rels[i].Name < rels[j].Name })
		restrOf := func(rn string) ([]gen.Restriction, bool) {
			for _, r := range td.Rels {
				if r.Name == rn {
					return r.Restr, true
				}
			}
			return nil, false
		}
		for _, rd := range rels {
			rn := g.node(td.Name+"#"+rd.Name, "rel")
			var walk func(parent *Node, r *gen.Rewrite, path string, operand int)
			walk = func(parent *Node, r *gen.Rewrite, path string, operand int) {
				if g.Err != "" {
					return
				}
				switch r.Kind {
				case gen.This:
					for _, x := range rd.Restr {
						var to *Node
						switch {
						case x.Wild:
							to = g.node(x.Type+":*", "wild")
						case x.Rel != "":
							to = g.node(x.Type+"#"+x.Rel, "rel")
						default:
							to = g.node(x.Type, "type")
						}
						c := x.Cond
						if c == "" {
							c = "none"
						}
						found := false
						for _, e := range parent.Edges {
							if e.To == to && e.Kind == "direct" {
								found = true
								g.DedupedEdges++
								addOperand(e, operand)
								has := false
								for _, cc := range e.Conds {
									if cc == c {
										has = true
									}
								}
								if !has {
									e.Conds = append(e.Conds, c)
								}
								break
							}
						}
						if !found {
							parent.Edges = append(parent.Edges, &Edge{From: parent, To: to, Kind: "direct", Operands: []int{operand}, Conds: []string{c}})
						}
					}
				case gen.Computed:
					to := g.node(td.Name+"#"+r.Rel, "rel")
					k := "rewrite"
					if parent.Kind == "rel" {
						k = "computed"
					}
					parent.Edges = append(parent.Edges, &Edge{From: parent, To: to, Kind: k, Operands: []int{operand}, Conds: []string{"none"}})
				case gen.TTU:
					rs, ok := restrOf(r.Tupleset)
					if !ok {
						g.Err = "ttu-tupleset-undefined"
						return
					}
					if len(rs) == 0 {
						g.Err = "ttu-tupleset-without-restrictions"
						return
					}
					if len(rs) > 1 {
						g.MultiParentTTU++
					}
					for _, x := range rs {
						if !hasRel(x.Type, r.Rel) {
							g.Err = "ttu-parent-lacks-relation"
							return
						}
						to := g.node(x.Type+"#"+r.Rel, "rel")
						lbl := td.Name + "#" + r.Tupleset
						found := false
						for _, e := range parent.Edges {
							if e.To == to && e.Kind == "ttu" && e.TS == lbl {
								found = true
								g.DedupedEdges++
								addOperand(e, operand)
								break
							}
						}
						if !found {
							c := x.Cond
							if c == "" {
								c = "none"
							}
							parent.Edges = append(parent.Edges, &Edge{From: parent, To: to, Kind: "ttu", TS: lbl, Operands: []int{operand}, Conds: []string{c}})
						}
					}
				case gen.Union, gen.Intersection, gen.Difference:
					k := r.Kind
					if k == gen.Difference {
						k = "exclusion"
					}
					op := g.node(path+"/"+k, k)
					parent.Edges = append(parent.Edges, &Edge{From: parent, To: op, Kind: "rewrite", Operands: []int{operand}, Conds: []string{"none"}})
					for i, kid := range r.Kids {
						walk(op, kid, fmt.Sprintf("%s/%d", path, i), i)
					}
				default:
					g.Err = "unsupported-rewrite-kind"
				}
			}
			walk(rn, rd.Rw, rn.ID, 0)
			if g.Err != "" {
				return g
			}
		}
	}
	return g
}

// sccs: Tarjan over the edges selected by filter. Components are emitted sinks first (reverse
// topological order of the condensation).
func (g *Graph) sccs(filter func(*Edge) bool) (comp map[*Node]int, comps [][]*Node) {
	index := map[*Node]int{}
	low := map[*Node]int{}
	on := map[*Node]bool{}
	comp = map[*Node]int{}
	var stack []*Node
	idx := 0
	var sc func(v *Node)
	sc = func(v *Node) {
		index[v] = idx
		low[v] = idx
		idx++
		stack = append(stack, v)
		on[v] = true
		for _, e := range v.Edges {
			if !filter(e) {
				continue
			}
			w := e.To
			if _, ok := index[w]; !ok {
				sc(w)
				if low[w] < low[v] {
					low[v] = low[w]
				}
			} else if on[w] {
				if index[w] < low[v] {
					low[v] = index[w]
				}
			}
		}
		if low[v] == index[v] {
			var c []*Node
			for {
				w := stack[len(stack)-1]
				stack = stack[:len(stack)-1]
				on[w] = false
				comp[w] = len(comps)
				c = append(c, w)
				if w == v {
					break
				}
			}
			comps = append(comps, c)
		}
	}
	for _, id := range g.Order {
		if _, ok := index[g.Nodes[id]]; !ok {
			sc(g.Nodes[id])
		}
	}
	return
}

// Quirks switch on the footprints of recorded findings (never used to pass a case unless the
// finding is listed and its trigger is present; see checks).
type Quirks struct {
	Flatten bool // W1: every edge is its own operand; the last edge of an exclusion is the subtract
	Restart bool // W2: an intersection restarts from the next edge when its running key set is empty
}

// HasTupleFreeCycle reports a cycle made only of non-hop edges (spec (a)).
func (g *Graph) HasTupleFreeCycle() bool {
	nonHop := func(e *Edge) bool { return !e.Hop() && !e.To.Terminal() }
	comp, comps := g.sccs(nonHop)
	for _, id := range g.Order {
		n := g.Nodes[id]
		for _, e := range n.Edges {
			if nonHop(e) && (e.To == n || (comp[e.To] == comp[n] && len(comps[comp[n]]) > 1)) {
				return true
			}
		}
	}
	return false
}

// HasAnyCycle reports whether the full graph has a cycle (used for non-triviality rules).
func (g *Graph) HasAnyCycle() bool {
	comp, comps := g.sccs(func(*Edge) bool { return true })
	for _, id := range g.Order {
		n := g.Nodes[id]
		if len(comps[comp[n]]) > 1 {
			return true
		}
		for _, e := range n.Edges {
			if e.To == n {
				return true
			}
		}
	}
	return false
}

// Weights computes the verdict and, when accepted, all node and edge weights. It returns the
// rejection reason ("" = accepted). The graph must be freshly built.
func (g *Graph) Weights(q Quirks) string {
	if g.Err != "" {
		return g.Err
	}
	if g.HasTupleFreeCycle() {
		return "tuple-free-rewrite-cycle"
	}
	comp, comps := g.sccs(func(*Edge) bool { return true })
	cyc := func(n *Node) bool {
		if len(comps[comp[n]]) > 1 {
			return true
		}
		for _, e := range n.Edges {
			if e.To == n {
				return true
			}
		}
		return false
	}
	for _, id := range g.Order {
		n := g.Nodes[id]
		if (n.Kind == "intersection" || n.Kind == "exclusion") && cyc(n) {
			return "intersection-or-exclusion-on-cycle"
		}
	}
	for _, c := range comps {
		if len(c) == 1 && !cyc(c[0]) {
			n := c[0]
			if n.Terminal() {
				continue
			}
			if len(n.Edges) == 0 {
				return "no-terminal-type"
			}
			for _, e := range n.Edges {
				e.W = edgeW(e)
			}
			switch n.Kind {
			case "rel", "union":
				n.W = map[string]int{}
				for _, e := range n.Edges {
					for k, v := range e.W {
						if v > n.W[k] {
							n.W[k] = v
						}
					}
				}
			case "intersection", "exclusion":
				var groups []map[string]int
				if q.Flatten {
					for _, e := range n.Edges {
						groups = append(groups, e.W)
					}
					if n.Kind == "exclusion" {
						base := map[string]int{}
						for _, gw := range groups[:len(groups)-1] {
							for k, v := range gw {
								if v > base[k] {
									base[k] = v
								}
							}
						}
						groups = []map[string]int{base, groups[len(groups)-1]}
					}
				} else {
					maxOp := 0
					for _, e := range n.Edges {
						for _, o := range e.Operands {
							if o > maxOp {
								maxOp = o
							}
						}
					}
					if n.Kind == "exclusion" && maxOp < 1 {
						maxOp = 1
					}
					for i := 0; i <= maxOp; i++ {
						gw := map[string]int{}
						for _, e := range n.Edges {
							for _, o := range e.Operands {
								if o == i {
									for k, v := range e.W {
										if v > gw[k] {
											gw[k] = v
										}
									}
								}
							}
						}
						groups = append(groups, gw)
					}
				}
				if n.Kind == "intersection" {
					w := map[string]int{}
					first := true
					for _, gw := range groups {
						if first || (q.Restart && len(w) == 0) {
							w = map[string]int{}
							for k, v := range gw {
								w[k] = v
							}
							first = false
							continue
						}
						for k := range w {
							if v, ok := gw[k]; !ok {
								delete(w, k)
							} else if v > w[k] {
								w[k] = v
							}
						}
					}
					if len(w) == 0 {
						return "empty-intersection"
					}
					n.W = w
				} else {
					w := map[string]int{}
					for k, v := range groups[0] {
						w[k] = v
					}
					if len(groups) > 1 {
						for k, v := range groups[1] {
							if _, ok := w[k]; ok && v > w[k] {
								w[k] = v
							}
						}
					}
					n.W = w
				}
			}
			if len(n.W) == 0 {
				return "no-terminal-type"
			}
			continue
		}
		// cyclic component of relation/union nodes: every key leaving the component is Infinite
		keys := map[string]bool{}
		inC := map[*Node]bool{}
		for _, n := range c {
			inC[n] = true
		}
		for _, n := range c {
			for _, e := range n.Edges {
				if !inC[e.To] {
					for k := range edgeW(e) {
						keys[k] = true
					}
				}
			}
		}
		if len(keys) == 0 {
			return "tuple-cycle-without-exit"
		}
		for _, n := range c {
			n.W = map[string]int{}
			for k := range keys {
				n.W[k] = Infinite
			}
		}
		for _, n := range c {
			for _, e := range n.Edges {
				if inC[e.To] {
					e.W = map[string]int{}
					for k := range keys {
						e.W[k] = Infinite
					}
				} else {
					e.W = edgeW(e)
				}
			}
		}
	}
	return ""
}

func edgeW(e *Edge) map[string]int {
	w := map[string]int{}
	switch e.To.Kind {
	case "type":
		w[e.To.ID] = 1
		return w
	case "wild":
		w[strings.TrimSuffix(e.To.ID, ":*")] = 1
		return w
	}
	for k, v := range e.To.W {
		if v != Infinite && (e.Kind == "ttu" || e.Kind == "direct") {
			v++
		}
		w[k] = v
	}
	return w
}

// ReachWild: the set of types T such that node "T:*" is reachable from n.
func ReachWild(n *Node) map[string]bool {
	out := map[string]bool{}
	seen := map[*Node]bool{}
	var dfs func(*Node)
	dfs = func(x *Node) {
		if seen[x] {
			return
		}
		seen[x] = true
		if x.Kind == "wild" {
			out[strings.TrimSuffix(x.ID, ":*")] = true
		}
		for _, e := range x.Edges {
			dfs(e.To)
		}
	}
	dfs(n)
	return out
}

// W1Trigger: some intersection/exclusion node whose operands are not in 1:1 correspondence with
// its edges (an operand with several edges, an operand without an own edge, an edge shared by
// operands).
func (g *Graph) W1Trigger() bool {
	for _, n := range g.Nodes {
		if n.Kind != "intersection" && n.Kind != "exclusion" {
			continue
		}
		cnt := map[int]int{}
		maxOp := 0
		for _, e := range n.Edges {
			if len(e.Operands) != 1 {
				return true
			}
			cnt[e.Operands[0]]++
			if e.Operands[0] > maxOp {
				maxOp = e.Operands[0]
			}
		}
		if n.Kind == "exclusion" && maxOp < 1 {
			return true
		}
		for i := 0; i <= maxOp; i++ {
			if cnt[i] != 1 {
				return true
			}
		}
	}
	return false
}

// W2Trigger: some intersection whose running key set (operands taken in order, specification
// grouping or edge grouping) becomes empty before the last operand. Needs weights (call after
// Weights on a graph whose intersections' operands all got weights; conservative otherwise).
func (g *Graph) W2Trigger() bool {
	for _, n := range g.Nodes {
		if n.Kind != "intersection" {
			continue
		}
		for _, byEdge := range []bool{true, false} {
			var groups []map[string]int
			if byEdge {
				for _, e := range n.Edges {
					groups = append(groups, edgeWSafe(e))
				}
			} else {
				maxOp := 0
				for _, e := range n.Edges {
					for _, o := range e.Operands {
						if o > maxOp {
							maxOp = o
						}
					}
				}
				for i := 0; i <= maxOp; i++ {
					gw := map[string]int{}
					for _, e := range n.Edges {
						for _, o := range e.Operands {
							if o == i {
								for k, v := range edgeWSafe(e) {
									gw[k] = v
								}
							}
						}
					}
					groups = append(groups, gw)
				}
			}
			var w map[string]int
			for i, gw := range groups {
				if i == 0 {
					w = map[string]int{}
					for k, v := range gw {
						w[k] = v
					}
				} else {
					for k := range w {
						if _, ok := gw[k]; !ok {
							delete(w, k)
						}
					}
				}
				if len(w) == 0 && i < len(groups)-1 {
					return true
				}
			}
		}
	}
	return false
}

func edgeWSafe(e *Edge) map[string]int {
	if e.W != nil {
		return e.W
	}
	if e.To.Terminal() || e.To.W != nil {
		return edgeW(e)
	}
	return map[string]int{}
}

func FmtW(w map[string]int) string {
	ks := []string{}
	for k := range w {
		ks = append(ks, k)
	}
	sort.Strings(ks)
	s := []string{}
	for _, k := range ks {
		v := fmt.Sprint(w[k])
		if w[k] == Infinite {
			v = "inf"
		}
		s = append(s, k+":"+v)
	}
	return "{" + strings.Join(s, ",") + "}"
}

func FmtSet(m map[string]bool) string {
	c := []string{}
	for k := range m {
		c = append(c, k)
	}
	sort.Strings(c)
	return strings.Join(c, ",")
}

func FmtList(l []string) string {
	c := append([]string{}, l...)
	sort.Strings(c)
	return strings.Join(c, ",")
}

// CheckWalks is a self-check of the specification weights by brute force: for every node n and key
// T, n.W[T] must equal the largest number of tuple hops on any walk from n to terminal type T that
// stays inside nodes carrying key T (an intersection lacking T passes nothing on), Infinite exactly
// when such a walk can go round a cycle. It shares only the key sets with Weights, not the
// arithmetic. Call after a successful Weights(Quirks{}). Returns "" or a description.
func (g *Graph) CheckWalks() string {
	comp, comps := g.sccs(func(*Edge) bool { return true })
	onCycle := func(n *Node) bool {
		if len(comps[comp[n]]) > 1 {
			return true
		}
		for _, e := range n.Edges {
			if e.To == n {
				return true
			}
		}
		return false
	}
	for _, id := range g.Order {
		n := g.Nodes[id]
		if n.Terminal() {
			continue
		}
		for T, want := range n.W {
			budget := 200000
			var longest func(x *Node, depth int) int // returns Infinite, or hop count, or -1 when T is not reached
			longest = func(x *Node, depth int) int {
				budget--
				if budget < 0 || depth > 200 {
					return -2
				}
				if onCycle(x) {
					return Infinite
				}
				best := -1
				for _, e := range x.Edges {
					var v int
					switch {
					case e.To.Kind == "type" && e.To.ID == T, e.To.Kind == "wild" && strings.TrimSuffix(e.To.ID, ":*") == T:
						v = 1
					case e.To.Terminal():
						continue
					default:
						if _, ok := e.To.W[T]; !ok {
							continue
						}
						v = longest(e.To, depth+1)
						if v == -2 {
							return -2
						}
						if v < 0 {
							continue
						}
						if v != Infinite && e.Hop() {
							v++
						}
					}
					if v > best {
						best = v
					}
				}
				return best
			}
			got := longest(n, 0)
			if got == -2 {
				continue // too large for brute force
			}
			if got != want {
				return fmt.Sprintf("reference self-check: node %s key %s: weights say %d, brute-force longest walk says %d", n.ID, T, want, got)
			}
		}
	}
	return ""
}
