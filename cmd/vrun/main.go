// vrun is the driver behind run.sh: it rebuilds the check binary against /repo's working tree,
// runs the regress replays, the rapid property (sharded in the thorough tier), optional native
// fuzz targets, merges the evidence parts and maps outcomes to the exit-code contract:
//
//	0  property held on everything explored (KNOWN-FINDING lines possible)
//	1  VIOLATION property=<id> replay=<path>
//	2  inconclusive: build failure, timeout, worker death, harness self-check failure
package main

import (
	"bufio"
	"bytes"
	"context"
	"encoding/binary"
	"encoding/json"
	"fmt"
	"os"
	"os/exec"
	"path/filepath"
	"regexp"
	"sort"
	"strconv"
	"strings"
	"sync"
	"syscall"
	"time"
)

type cfg struct {
	quick, thorough int // -rapid.checks per process
	shards          int // thorough processes
	race            bool
	quickTO, thorTO time.Duration
	fuzz            []string // native fuzz targets (thorough only)
	fuzzTime        time.Duration
	exhaustive      string // non-empty: what is enumerated exhaustively
}

const m = time.Minute

var table = map[string]cfg{
	"C01": {quick: 3000, thorough: 40000, shards: 16, quickTO: 4 * m, thorTO: 25 * m, fuzz: []string{"FuzzC01"}, fuzzTime: 90 * time.Second},
	"C02": {quick: 4000, thorough: 80000, shards: 16, quickTO: 4 * m, thorTO: 25 * m},
	"C03": {quick: 2000, thorough: 9000, shards: 16, quickTO: 4 * m, thorTO: 25 * m},
	"C04": {quick: 4000, thorough: 60000, shards: 16, quickTO: 4 * m, thorTO: 30 * m},
	"C05": {quick: 3000, thorough: 45000, shards: 16, quickTO: 4 * m, thorTO: 30 * m},
	"C06": {quick: 2000, thorough: 8000, shards: 16, quickTO: 5 * m, thorTO: 30 * m, race: true},
	"C07": {quick: 2500, thorough: 18000, shards: 16, quickTO: 4 * m, thorTO: 25 * m},
	"C08": {quick: 6000, thorough: 20000, shards: 16, quickTO: 5 * m, thorTO: 40 * m, fuzz: []string{"FuzzC08DSL", "FuzzC08JSON", "FuzzC08Mod", "FuzzC08Module"}, fuzzTime: 75 * time.Second},
	"C09": {quick: 4000, thorough: 25000, shards: 16, quickTO: 4 * m, thorTO: 25 * m},
	"C10": {quick: 4000, thorough: 80000, shards: 16, quickTO: 4 * m, thorTO: 25 * m},
	"C11": {quick: 4000, thorough: 40000, shards: 16, quickTO: 4 * m, thorTO: 25 * m},
	"C12": {quick: 900, thorough: 2500, shards: 16, quickTO: 4 * m, thorTO: 25 * m},
	"C13": {quick: 60, thorough: 100, shards: 16, quickTO: 6 * m, thorTO: 40 * m, race: true},
	"C14": {quick: 3000, thorough: 30000, shards: 16, quickTO: 4 * m, thorTO: 25 * m},
	"C15": {quick: 2500, thorough: 100000, shards: 16, quickTO: 4 * m, thorTO: 30 * m},
	"C16": {quick: 4000, thorough: 9000, shards: 16, quickTO: 4 * m, thorTO: 30 * m, fuzz: []string{"FuzzC16"}, fuzzTime: 90 * time.Second},
	"C17": {quick: 2000, thorough: 30000, shards: 16, quickTO: 4 * m, thorTO: 25 * m},
	"C18": {quick: 1500, thorough: 4000, shards: 16, quickTO: 4 * m, thorTO: 25 * m},
	"C19": {quick: 1500, thorough: 60000, shards: 16, quickTO: 4 * m, thorTO: 25 * m},
}

var root string

func env(extra ...string) []string {
	e := []string{}
	for _, kv := range os.Environ() {
		k := strings.SplitN(kv, "=", 2)[0]
		switch k {
		case "GOFLAGS", "GOPROXY", "GOSUMDB", "GOTOOLCHAIN", "VERIF_ROOT", "VERIF_SHARD", "VERIF_SHARDS", "VERIF_TIER", "VERIF_REPLAY", "VERIF_CHILD":
			continue
		}
		e = append(e, kv)
	}
	e = append(e, "GOFLAGS=-mod=mod", "GOPROXY=off", "GOSUMDB=off", "GOTOOLCHAIN=local", "VERIF_ROOT="+root)
	return append(e, extra...)
}

func main() {
	root, _ = os.Getwd()
	if r := os.Getenv("VERIF_ROOT"); r != "" {
		root = r
	}
	if len(os.Args) < 2 {
		usage()
	}
	switch os.Args[1] {
	case "setup":
		os.Exit(setup())
	case "replay":
		if len(os.Args) != 4 {
			usage()
		}
		os.Exit(replay(os.Args[2], os.Args[3]))
	case "check":
		if len(os.Args) != 4 {
			usage()
		}
		os.Exit(check(os.Args[2], os.Args[3]))
	default:
		usage()
	}
}

func usage() {
	fmt.Fprintln(os.Stderr, "usage: vrun setup | vrun check <Cxx> quick|thorough | vrun replay <Cxx> <file>")
	os.Exit(2)
}

func setup() int {
	for _, d := range []string{"evidence", "evidence/parts", "replays", "bin"} {
		_ = os.MkdirAll(filepath.Join(root, d), 0o755)
	}
	// warm the build cache: tagged, untagged and race builds of the check binary
	for _, args := range [][]string{{"-tags", "verif"}, {"-tags", "verif", "-race"}} {
		out := filepath.Join(root, "bin", "warm.test")
		a := append([]string{"test", "-c", "-vet=off"}, args...)
		a = append(a, "-o", out, "./checks")
		c := exec.Command("go", a...)
		c.Dir, c.Env = root, env()
		if b, err := c.CombinedOutput(); err != nil {
			fmt.Printf("setup: build %v failed: %v\n%s\n", args, err, b)
			return 2
		}
		_ = os.Remove(out)
	}
	fmt.Println("setup ok")
	return 0
}

func build(prop string, race bool) (string, bool, error) {
	out := filepath.Join(root, "bin", fmt.Sprintf("checks-%s-%d.test", prop, os.Getpid()))
	_ = os.MkdirAll(filepath.Join(root, "bin"), 0o755)
	try := func(tagged bool) ([]byte, error) {
		a := []string{"test", "-c", "-vet=off"}
		if tagged {
			a = append(a, "-tags", "verif")
		}
		if race {
			a = append(a, "-race")
		}
		a = append(a, "-o", out, "./checks")
		c := exec.Command("go", a...)
		c.Dir, c.Env = root, env()
		return c.CombinedOutput()
	}
	b, err := try(true)
	if err == nil {
		return out, true, nil
	}
	fmt.Printf("build with -tags verif failed, retrying without hooks:\n%s\n", tail(string(b), 30))
	b, err = try(false)
	if err == nil {
		return out, false, nil
	}
	return "", false, fmt.Errorf("build failed: %v\n%s", err, tail(string(b), 60))
}

func tail(s string, n int) string {
	l := strings.Split(strings.TrimRight(s, "\n"), "\n")
	if len(l) > n {
		l = l[len(l)-n:]
	}
	return strings.Join(l, "\n")
}

type procResult struct {
	out      string
	exit     int
	timedOut bool
	err      error
}

func runProc(ctx context.Context, dir string, e []string, name string, args ...string) procResult {
	c := exec.Command(name, args...)
	c.Dir, c.Env = dir, e
	c.SysProcAttr = &syscall.SysProcAttr{Setpgid: true}
	var buf bytes.Buffer
	c.Stdout, c.Stderr = &buf, &buf
	if err := c.Start(); err != nil {
		return procResult{err: err, exit: -1}
	}
	done := make(chan error, 1)
	go func() { done <- c.Wait() }()
	select {
	case err := <-done:
		r := procResult{out: buf.String()}
		if err != nil {
			r.exit = 1
			if ee, ok := err.(*exec.ExitError); ok {
				r.exit = ee.ExitCode()
				if r.exit < 0 {
					r.exit = 137
				}
			} else {
				r.err = err
			}
		}
		return r
	case <-ctx.Done():
		_ = syscall.Kill(-c.Process.Pid, syscall.SIGKILL)
		<-done
		return procResult{out: buf.String(), exit: -1, timedOut: true}
	}
}

var (
	reFail    = regexp.MustCompile(`VERIF-FAIL property=(\S+) replay=(\S+)(.*)`)
	reHarness = regexp.MustCompile(`VERIF-HARNESS-ERROR .*`)
	reKnown   = regexp.MustCompile(`KNOWN-FINDING: .*`)
	rePassed  = regexp.MustCompile(`\[rapid\] OK, passed (\d+) tests`)
	reFailed  = regexp.MustCompile(`\[rapid\] failed`)
)

type outcome struct {
	prop       string
	violations []string // replay paths
	whats      []string
	harness    []string
	known      map[string]bool
	passed     int64
	broken     []string // inconclusive reasons
	lastRun    map[string]map[string]any // per process label: how it was started (for panic reports)
}

func (o *outcome) noteRun(label string, args map[string]any) {
	if o.lastRun == nil {
		o.lastRun = map[string]map[string]any{}
	}
	o.lastRun[label] = args
}

func (o *outcome) absorb(label string, r procResult) {
	sc := bufio.NewScanner(strings.NewReader(r.out))
	sc.Buffer(make([]byte, 1<<20), 1<<26)
	lastFail, lastWhat := "", ""
	for sc.Scan() {
		line := sc.Text()
		if mm := reFail.FindStringSubmatch(line); mm != nil {
			lastFail, lastWhat = mm[2], strings.TrimSpace(mm[3])
		}
		if mm := reHarness.FindString(line); mm != "" {
			o.harness = append(o.harness, mm)
		}
		if mm := reKnown.FindString(line); mm != "" {
			o.known[mm] = true
		}
		if mm := rePassed.FindStringSubmatch(line); mm != nil {
			n, _ := strconv.ParseInt(mm[1], 10, 64)
			o.passed += n
		}
	}
	if lastFail == "" && strings.Contains(r.out, "WARNING: DATA RACE") {
		// the race detector reports through the test binary, not through a property failure: keep the report
		// as the replay artefact (TestReplay<prop> re-runs the concurrent steps when given such a file)
		i := strings.Index(r.out, "WARNING: DATA RACE")
		rep := r.out[i:]
		if len(rep) > 6000 {
			rep = rep[:6000]
		}
		b, _ := json.MarshalIndent(map[string]any{"property": o.prop, "what": "data race reported by the Go race detector", "input": map[string]any{"race_report": rep}}, "", " ")
		name := filepath.Join(root, "replays", fmt.Sprintf("%s-race-%s.json", o.prop, strings.ReplaceAll(label, " ", "")))
		_ = os.WriteFile(name, b, 0o644)
		lastFail, lastWhat = name, "what=data race reported by the Go race detector (see replay file for the report)"
	}
	if lastFail == "" {
		// A panic that escapes a property (rapid reports "[rapid] panic after N tests" with a traceback) or kills the
		// process: when the innermost non-runtime frames belong to the library under test, the library panicked on a
		// generated input of this property's domain, which no listed property permits; the report is the replay artefact.
		// A panic whose innermost frames are the harness's own is a harness defect (exit 2).
		if rep, lib := libraryPanic(r.out); lib {
			b, _ := json.MarshalIndent(map[string]any{"property": o.prop, "what": "the library panicked on a generated input", "input": map[string]any{
				"rapid_panic_report": rep, "run": o.lastRun[label]}}, "", " ")
			name := filepath.Join(root, "replays", fmt.Sprintf("%s-panic-%s.json", o.prop, strings.ReplaceAll(label, " ", "")))
			_ = os.WriteFile(name, b, 0o644)
			first := rep
			if i := strings.Index(first, "\n"); i > 0 {
				first = first[:i]
			}
			lastFail, lastWhat = name, "what=the library panicked on a generated input: "+strings.TrimSpace(first)
		}
	}
	switch {
	case lastFail != "":
		o.violations = append(o.violations, lastFail)
		o.whats = append(o.whats, lastWhat)
	case r.timedOut:
		o.broken = append(o.broken, label+": timed out")
	case r.err != nil:
		o.broken = append(o.broken, label+": "+r.err.Error())
	case r.exit != 0:
		if len(o.harness) == 0 {
			o.broken = append(o.broken, fmt.Sprintf("%s: exit %d without a violation marker:\n%s", label, r.exit, tail(r.out, 40)))
		}
	}
}

// a panic report: rapid's "panic after N tests", a process-level panic / fatal error, or rapid's "flaky test" report whose
// ORIGINAL failure was a run-time panic (a panic that depends on map iteration order or on state left by earlier cases
// does not reproduce while shrinking; the original traceback is still the report)
var rePanicHead = regexp.MustCompile(`(?m)^.*(\[rapid\] panic after \d+ tests: .*|^panic: .*|^fatal error: .*|Original traceback \((runtime error: |panic).*)$`)

// libraryPanic extracts a panic report from a test binary's output and says whether the panic originated in the
// library under test: the first frame that is neither Go runtime, the antlr / protobuf / rapid / testing packages nor a
// deferred-recover trampoline must lie in github.com/openfga/language (or under VERIF_REPO), not in verif/.
func libraryPanic(out string) (string, bool) {
	loc := rePanicHead.FindStringIndex(out)
	if loc == nil {
		return "", false
	}
	rep := out[loc[0]:]
	if len(rep) > 8000 {
		rep = rep[:8000]
	}
	repo := repoPath()
	for _, line := range strings.Split(rep, "\n") {
		l := strings.TrimSpace(line)
		isFrame := strings.Contains(l, ".go:")
		if !isFrame {
			continue
		}
		switch {
		case strings.Contains(l, "/src/runtime/"), strings.Contains(l, "/src/testing/"), strings.Contains(l, "antlr4-go/antlr"), strings.Contains(l, "google.golang.org/protobuf"),
			strings.Contains(l, "pgregory.net/rapid"), strings.Contains(l, "/src/reflect/"), strings.Contains(l, "/src/strings/"), strings.Contains(l, "/src/sort/"),
			strings.Contains(l, "/src/slices/"), strings.Contains(l, "/src/regexp/"), strings.Contains(l, "/src/bytes/"), strings.Contains(l, "/src/unicode/"):
			continue
		case strings.Contains(l, "openfga/language/pkg/go"), strings.HasPrefix(l, repo+"/"), strings.Contains(l, " "+repo+"/"), strings.Contains(l, repo+"/pkg/go/"):
			return rep, true
		default:
			return rep, false
		}
	}
	return rep, false
}

func seedBase() int64 {
	s, _ := strconv.ParseInt(os.Getenv("VERIF_SEED"), 10, 64)
	if s < 0 {
		s = -s
	}
	return s
}

func check(prop, tier string) int {
	c, ok := table[prop]
	if !ok || (tier != "quick" && tier != "thorough") {
		usage()
	}
	start := time.Now()
	seed := seedBase()
	// clean previous state
	_ = os.RemoveAll(filepath.Join(root, "checks", "testdata", "rapid"))
	_ = os.Remove(filepath.Join(root, "evidence", prop+".json"))
	for _, g := range []string{"evidence/parts/" + prop + ".*", "replays/" + prop + "-*"} {
		ms, _ := filepath.Glob(filepath.Join(root, g))
		for _, f := range ms {
			_ = os.Remove(f)
		}
	}
	_ = os.MkdirAll(filepath.Join(root, "evidence", "parts"), 0o755)
	repoBefore := repoStatus()

	bin, hooks, err := build(prop, c.race)
	if err != nil {
		fmt.Println(err)
		fmt.Printf("INCONCLUSIVE property=%s reason=build\n", prop)
		return 2
	}
	defer os.Remove(bin)
	// child processes (cold parses, work scaling) use a binary without race instrumentation: a
	// race-instrumented process needs ~1.5 s to start, a plain one ~50 ms
	childBin := bin
	if c.race {
		if cb, _, err := build(prop+"-child", false); err == nil {
			childBin = cb
			defer os.Remove(cb)
		}
	}
	os.Setenv("VERIF_CHILD_EXE", childBin)

	o := &outcome{prop: prop, known: map[string]bool{}}
	to := c.quickTO
	nChecks, shards := c.quick, 1
	if tier == "thorough" {
		to, nChecks, shards = c.thorTO, c.thorough, c.shards
	}
	ctx, cancel := context.WithTimeout(context.Background(), to)
	defer cancel()
	dir := filepath.Join(root, "checks")

	// 1. committed regressions (plain Go, no library)
	r := runProc(ctx, dir, env("VERIF_TIER="+tier, "VERIF_SHARD=100", "VERIF_SHARDS=1"), bin,
		"-test.run", "^TestReplay"+prop+"$", "-test.v", "-test.count=1", "-test.timeout", "0")
	o.absorb("regress", r)

	// 2. generated search
	if len(o.violations) == 0 {
		var wg sync.WaitGroup
		var mu sync.Mutex
		for s := 0; s < shards; s++ {
			wg.Add(1)
			go func(s int) {
				defer wg.Done()
				rs := seed*1000 + int64(s) + 1 // never 0 (rapid: 0 = random)
				r := runProc(ctx, dir, env("VERIF_TIER="+tier, fmt.Sprintf("VERIF_SHARD=%d", s), fmt.Sprintf("VERIF_SHARDS=%d", shards),
					fmt.Sprintf("VERIF_SEED=%d", seed)), bin,
					"-test.run", "^Test"+prop+"$", "-test.v", "-test.count=1", "-test.timeout", "0",
					fmt.Sprintf("-rapid.checks=%d", nChecks), fmt.Sprintf("-rapid.seed=%d", rs), "-rapid.shrinktime=20s", "-rapid.nofailfile")
				mu.Lock()
				o.noteRun(fmt.Sprintf("shard %d", s), map[string]any{"tier": tier, "shard": s, "shards": shards, "verif_seed": seed, "rapid_seed": rs, "rapid_checks": nChecks})
				o.absorb(fmt.Sprintf("shard %d", s), r)
				if r.exit != 0 || os.Getenv("VERIF_VERBOSE") != "" {
					fmt.Printf("---- shard %d output (tail) ----\n%s\n", s, tail(r.out, 60))
				}
				mu.Unlock()
			}(s)
		}
		wg.Wait()
	}

	// 3. native fuzzing (thorough only; crashers are classified inside the targets)
	fuzzExecs := map[string]string{}
	if tier == "thorough" && len(o.violations) == 0 && len(o.broken) == 0 {
		for _, f := range c.fuzz {
			a := []string{"test", "-vet=off", "-run", "^$", "-fuzz", "^" + f + "$", "-fuzztime", c.fuzzTime.String(), "./checks"}
			if hooks {
				a = append([]string{a[0], "-tags", "verif"}, a[1:]...)
			}
			fctx, fcancel := context.WithTimeout(context.Background(), c.fuzzTime+3*m)
			r := runProc(fctx, root, env("VERIF_TIER="+tier, "VERIF_SHARD=200", "VERIF_FUZZ=1"), "go", a...)
			fcancel()
			o.absorb("fuzz "+f, r)
			if mm := regexp.MustCompile(`execs: (\d+)`).FindAllStringSubmatch(r.out, -1); len(mm) > 0 {
				fuzzExecs[f] = mm[len(mm)-1][1]
			}
			if r.exit != 0 {
				fmt.Printf("---- fuzz %s output (tail) ----\n%s\n", f, tail(r.out, 40))
			}
			// crashers are reported through replay files; do not leave corpus additions behind
			_ = os.RemoveAll(filepath.Join(root, "checks", "testdata", "fuzz", f))
		}
	}

	if after := repoStatus(); after != repoBefore {
		o.broken = append(o.broken, "the run changed /repo's working tree: "+after)
	}

	viol := len(o.violations)
	merge(prop, tier, seed, c, o, hooks, shards, nChecks, fuzzExecs, time.Since(start).Seconds())

	var kn []string
	for k := range o.known {
		kn = append(kn, k)
	}
	sort.Strings(kn)
	for _, k := range kn {
		fmt.Println(k)
	}
	if viol > 0 {
		seen := map[string]bool{}
		for i, v := range o.violations {
			if !seen[v] {
				fmt.Printf("VIOLATION property=%s replay=%s %s\n", prop, v, o.whats[i])
				seen[v] = true
			}
		}
		return 1
	}
	if len(o.harness) > 0 || len(o.broken) > 0 {
		for _, h := range o.harness {
			fmt.Println(h)
		}
		for _, b := range o.broken {
			fmt.Println("INCONCLUSIVE:", b)
		}
		fmt.Printf("INCONCLUSIVE property=%s\n", prop)
		return 2
	}
	want := int64(nChecks) * int64(shards)
	fmt.Printf("OK property=%s tier=%s seed=%d rapid_passed=%d hooks=%v wall=%.1fs\n", prop, tier, seed, o.passed, hooks, time.Since(start).Seconds())
	_ = want
	return 0
}

func repoPath() string {
	if r := os.Getenv("VERIF_REPO"); r != "" {
		return r
	}
	return "/repo"
}

func repoStatus() string {
	c := exec.Command("git", "-C", repoPath(), "status", "--porcelain")
	b, _ := c.Output()
	return string(b)
}

func replay(prop, file string) int {
	abs, _ := filepath.Abs(file)
	c := table[prop]
	bin, _, err := build(prop, c.race)
	if err != nil {
		fmt.Println(err)
		return 2
	}
	defer os.Remove(bin)
	// a panic report is replayed by re-running the process that produced it (same shard, seed and case count)
	if b, err := os.ReadFile(abs); err == nil {
		var env0 struct {
			Input struct {
				Report string         `json:"rapid_panic_report"`
				Run    map[string]any `json:"run"`
			} `json:"input"`
		}
		if json.Unmarshal(b, &env0) == nil && env0.Input.Report != "" && env0.Input.Run != nil {
			num := func(k string) int64 {
				f, _ := env0.Input.Run[k].(float64)
				return int64(f)
			}
			tier, _ := env0.Input.Run["tier"].(string)
			ctx, cancel := context.WithTimeout(context.Background(), 30*m)
			defer cancel()
			r := runProc(ctx, filepath.Join(root, "checks"), env("VERIF_TIER="+tier, fmt.Sprintf("VERIF_SHARD=%d", num("shard")), fmt.Sprintf("VERIF_SHARDS=%d", num("shards")),
				fmt.Sprintf("VERIF_SEED=%d", num("verif_seed"))), bin,
				"-test.run", "^Test"+prop+"$", "-test.v", "-test.count=1", "-test.timeout", "0",
				fmt.Sprintf("-rapid.checks=%d", num("rapid_checks")), fmt.Sprintf("-rapid.seed=%d", num("rapid_seed")), "-rapid.shrinktime=20s", "-rapid.nofailfile")
			fmt.Println(tail(r.out, 60))
			o := &outcome{prop: prop, known: map[string]bool{}}
			o.noteRun("replay", env0.Input.Run)
			o.absorb("replay", r)
			if len(o.violations) > 0 {
				fmt.Printf("VIOLATION property=%s replay=%s %s\n", prop, abs, o.whats[0])
				return 1
			}
			if len(o.broken) > 0 || len(o.harness) > 0 {
				return 2
			}
			return 0
		}
	}
	ctx, cancel := context.WithTimeout(context.Background(), 10*m)
	defer cancel()
	r := runProc(ctx, filepath.Join(root, "checks"), env("VERIF_REPLAY="+abs, "VERIF_SHARD=300"), bin,
		"-test.run", "^TestReplay"+prop+"$", "-test.v", "-test.count=1")
	fmt.Println(tail(r.out, 80))
	o := &outcome{prop: prop, known: map[string]bool{}}
	o.absorb("replay", r)
	if len(o.violations) > 0 {
		fmt.Printf("VIOLATION property=%s replay=%s %s\n", prop, abs, o.whats[0])
		return 1
	}
	if len(o.broken) > 0 || len(o.harness) > 0 {
		return 2
	}
	return 0
}

type part struct {
	Evaluations  int64            `json:"evaluations"`
	NonTrivial   int64            `json:"nontrivial_evaluations"`
	Classes      map[string]int64 `json:"classes"`
	Samples      []any            `json:"samples"`
	Known        map[string]int64 `json:"known_finding_hits"`
	Excluded     map[string]int64 `json:"excluded_by_construction"`
	Notes        []string         `json:"notes"`
	Exhaustive   bool             `json:"exhaustive"`
	ExhaustiveOf string           `json:"exhaustive_of"`
	Violations   int              `json:"violations"`
	Rule         string           `json:"rule"`
	Assumptions  []string         `json:"assumptions"`
	Shard        int              `json:"shard"`
}

func merge(prop, tier string, seed int64, c cfg, o *outcome, hooks bool, shards, nChecks int, fuzzExecs map[string]string, wall float64) {
	files, _ := filepath.Glob(filepath.Join(root, "evidence", "parts", prop+".*.json"))
	sort.Strings(files)
	tot := part{Classes: map[string]int64{}, Known: map[string]int64{}, Excluded: map[string]int64{}}
	hashes := map[uint64]struct{}{}
	noteSeen := map[string]bool{}
	asSeen := map[string]bool{}
	exhaustive := len(files) > 0
	for _, f := range files {
		b, err := os.ReadFile(f)
		if err != nil {
			continue
		}
		var p part
		if json.Unmarshal(b, &p) != nil {
			continue
		}
		if p.Shard >= 100 && p.Evaluations == 0 {
			continue
		}
		tot.Evaluations += p.Evaluations
		tot.NonTrivial += p.NonTrivial
		for k, v := range p.Classes {
			tot.Classes[k] += v
		}
		for k, v := range p.Known {
			tot.Known[k] += v
		}
		for k, v := range p.Excluded {
			tot.Excluded[k] += v
		}
		if len(tot.Samples) < 8 {
			for _, s := range p.Samples {
				if len(tot.Samples) < 8 {
					tot.Samples = append(tot.Samples, s)
				}
			}
		}
		for _, n := range p.Notes {
			if !noteSeen[n] && len(tot.Notes) < 40 {
				noteSeen[n] = true
				tot.Notes = append(tot.Notes, n)
			}
		}
		for _, a := range p.Assumptions {
			if !asSeen[a] {
				asSeen[a] = true
				tot.Assumptions = append(tot.Assumptions, a)
			}
		}
		if p.Rule != "" {
			tot.Rule = p.Rule
		}
		if p.Shard < 100 {
			exhaustive = exhaustive && p.Exhaustive
			if p.ExhaustiveOf != "" {
				tot.ExhaustiveOf = p.ExhaustiveOf
			}
		}
		hb, _ := os.ReadFile(strings.TrimSuffix(f, ".json") + ".hashes")
		for i := 0; i+8 <= len(hb); i += 8 {
			hashes[binary.LittleEndian.Uint64(hb[i:])] = struct{}{}
		}
	}
	if tot.Samples == nil {
		tot.Samples = []any{}
	}
	cov := map[string]any{
		"evaluations":              tot.Evaluations,
		"distinct_nontrivial":      len(hashes),
		"nontrivial_evaluations":   tot.NonTrivial,
		"rule":                     tot.Rule,
		"samples":                  tot.Samples,
		"exhaustive":               exhaustive,
		"classes":                  tot.Classes,
		"known_finding_hits":       tot.Known,
		"excluded_by_construction": tot.Excluded,
		"rapid_cases_passed":       o.passed,
		"rapid_cases_requested":    int64(nChecks) * int64(shards),
		"processes":                shards,
		"hooks_enabled":            hooks,
		"notes":                    tot.Notes,
	}
	if tot.ExhaustiveOf != "" {
		cov["exhaustive_of"] = tot.ExhaustiveOf
	}
	if len(fuzzExecs) > 0 {
		cov["native_fuzz_execs"] = fuzzExecs
	}
	if len(o.broken) > 0 {
		cov["inconclusive"] = o.broken
	}
	evd := map[string]any{
		"property_id": prop, "tier": tier, "seed": seed, "level": "exploration",
		"coverage": cov, "assumptions": tot.Assumptions, "wall_s": wall, "violations": len(o.violations),
	}
	if tot.Assumptions == nil {
		evd["assumptions"] = []string{}
	}
	b, _ := json.MarshalIndent(evd, "", " ")
	_ = os.WriteFile(filepath.Join(root, "evidence", prop+".json"), append(b, '\n'), 0o644)
	for _, f := range files {
		_ = os.Remove(f)
		_ = os.Remove(strings.TrimSuffix(f, ".json") + ".hashes")
	}
}
