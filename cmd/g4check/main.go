// g4check: debugging aid. Reads a DSL document on stdin, prints the token types after strict /
// lenient stripping and whether OpenFGAParser.g4 derives it, and what the library says.
package main

import (
	"fmt"
	"io"
	"os"
	"strings"

	"github.com/openfga/language/pkg/go/transformer"

	"verif/internal/g4"
)

func main() {
	b, _ := io.ReadAll(os.Stdin)
	s := string(b)
	if len(os.Args) > 1 && os.Args[1] == "-q" { // input is a Go-quoted string
		fmt.Sscanf(s, "%q", &s)
	}
	g, err := g4.RepoGrammar("/repo")
	if err != nil {
		panic(err)
	}
	toks, errs := g4.LexTypes(g4.StripStrict(s))
	fmt.Println("strict tokens:", strings.Join(toks, " "))
	fmt.Println("lexer errors:", errs, "derivable strict:", g4.DerivableStrict(g, s), "lenient:", g4.DerivableLenient(g, s))
	_, err = transformer.TransformDSLToProto(s)
	fmt.Println("library:", err)
}
