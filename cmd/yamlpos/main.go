// yamlpos: debugging aid; prints what TransformModFile reports for a manifest given on stdin.
package main

import (
	"encoding/json"
	"fmt"
	"io"
	"os"

	"github.com/openfga/language/pkg/go/transformer"
)

func main() {
	b, _ := io.ReadAll(os.Stdin)
	m, err := transformer.TransformModFile(string(b))
	if err != nil {
		fmt.Printf("ERR %q\n", err.Error())
		return
	}
	j, _ := json.Marshal(m)
	fmt.Println(string(j))
}
