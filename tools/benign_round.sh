#!/bin/bash
# tools/benign_round.sh Cxx [Cyy ...]: verifies the three property-preserving changes of each property's sub-agent worktree,
# appends the result lines to benign/RESULTS.txt and removes the worktree.
cd "$(dirname "$0")/.."
for p in "$@"; do
  for b in b1 b2 b3; do
    [ -d /tmp/wt/$p/benign/$b ] || { echo "$p-$b: missing" >> benign/RESULTS.txt; continue; }
    tools/benign_verify.sh $p $b 2>&1 | grep "^$p-$b:" >> benign/RESULTS.txt
  done
  [ -d /tmp/wt/$p ] && git -C /repo worktree remove --force /tmp/wt/$p
done
