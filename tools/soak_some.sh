#!/bin/bash
# usage: tools/soak_some.sh <tier> <seed> <Cxx...>  — runs the given checks at one seed on /repo as it is (no edits)
cd "$(dirname "$0")/.."
tier="$1"; seed="$2"; shift 2
for p in "$@"; do
  s=$(date +%s)
  out=$(VERIF_SEED=$seed ./run.sh $p $tier 2>&1 | grep -E "^(VIOLATION|OK|INCONCLUSIVE|VERIF-HARNESS)" | sort -u | cut -c1-260 | tr '\n' ' ')
  echo "[seed=$seed $p $(( $(date +%s) - s ))s] $out"
done
