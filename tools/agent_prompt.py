#!/usr/bin/env python3
import json, sys
pid = sys.argv[1]
for l in open('/verif/properties.jsonl'):
    p = json.loads(l)
    if p['id'] == pid:
        break
wt = f"/tmp/wt/{pid}"
print(f"""You are helping to evaluate a verification effort for the open-source repository openfga/language (an authorization-model DSL toolkit: ANTLR grammar, DSL<->JSON transformers, modular-model merging, weighted type graph). You work ONLY inside your own scratch git worktree of that repository at {wt} (a full checkout; the Go module is in {wt}/pkg/go). Never read or write anything under /repo or /verif.

Here is a semantic property the library is supposed to satisfy:

TITLE: {p['title']}
STATEMENT: {p['statement']}
QUANTIFIED OVER: {p['quantifier']['text']}
CODE ANCHORS (files): {', '.join(p['anchors']['files'])}

YOUR TASK: produce THREE independent, realistic source changes ("seeded defects") to the library code in the worktree (not to its tests), each of which
  (a) still compiles,
  (b) still passes the complete existing Go test suite (cd {wt}/pkg/go && go test -vet=off -count=1 ./...), unedited,
  (c) breaks the property above for some inputs, and
  (d) is SUBTLE: it needs something specific to manifest — an unusual input shape, a multi-step sequence of calls, a particular ordering/interleaving, a particular nesting depth or position, or two cooperating code sites that each look fine alone. Do NOT produce a change that ordinary use or nearly every input would expose at once. Think of the kind of bug a tired maintainer could plausibly introduce in a refactor or "optimisation" and that code review could miss.
The three changes must be different in kind (different code site or mechanism) and each must apply on its own to the pristine worktree.
CLAUSE-DRIVEN ROUND: read the STATEMENT above clause by clause (every "and", every parenthesis, every "also", every listed case, every named function or option). For each of your three changes pick a DIFFERENT clause, preferably the ones that look least likely to be exercised by somebody checking the property's headline (a subordinate clause, the last item of a list, a named helper or option, an "on error" or "on success" half, an "each"/"every"/"exactly" quantifier, an ordering or attribution detail), and break ONLY that clause while everything else in the statement keeps holding. State in meta.json which clause you targeted ("clause": "...quoted words...").
Two earlier rounds of reviewers have already tried (1) the obvious single-site edits and (2) aliasing / stale caches / early exits / error paths at the usual scale of unit-test inputs. In this round aim at the EDGES OF THE LEGAL INPUT SPACE and at API surface that is rarely exercised: inputs that are legal but large or extreme (dozens of types or relations, nesting five or more levels deep, very long names, many files, many conditions or parameters, every parameter type, long type-restriction lists, repeated or conditioned restrictions), legal but unusual characters (upper case, Unicode in comments or condition expressions or file names, names equal to keywords, names containing '-', '.', '/', '_' in odd positions, CRLF, tabs, form feed), optional arguments and options (WithIncludeSourceInformation, schema versions, empty or single-element lists, nil versus empty maps, models without metadata, ids), the second and later calls on the same object, and the less-travelled exported helpers that the property's behaviour also flows through. The change must still be the kind of thing a maintainer could plausibly write (a refactor, an optimisation, a "simplification", a clean-up), not an arbitrary magic-constant trap.
Earlier reviewers have already tried the obvious single-site edits at the obvious places in the anchor files (off-by-one in a loop, a swapped operand, a dropped element, a removed sort, a skipped check). Aim for something they would NOT have tried: aliasing or shared mutable state, a cache or memo that goes stale, an early exit that is only wrong for a rare shape, an interaction of two features (e.g. conditions x wildcards, modules x comments, nesting x ordering), a boundary (length, depth, count, a specific character class or Unicode), an error path that swallows or misattributes, or a helper in another file the anchored code depends on (pkg/go/utils, pkg/go/errors, pkg/go/validation, the generated parser in pkg/go/gen, the grammar files) - as long as the visible effect is a violation of the property above.

For EACH change i in {{1,2,3}} deliver, in the directory {wt}/seeded/m<i>/ :
  - patch.diff : output of `git diff` for the library change only (relative to the pristine HEAD, applicable with `git apply` from the repository root),
  - demo_test.go : a self-contained Go test file (state at its top, in a comment, which package directory under pkg/go it must be copied into, e.g. pkg/go/transformer) that FAILS with the change applied and PASSES on the pristine tree; it demonstrates the property violation on a concrete input/sequence,
  - meta.json : {{"property": "{pid}", "summary": "...what was changed...", "needs_to_manifest": "...what specific input/sequence/order is required...", "demo_package": "pkg/go/<dir>", "demo_run": "go test -run <TestName> ./<dir>/", "verified": "what you ran and observed"}}.

Verify everything yourself: run the full existing suite with each change applied (it must pass), run your demo test with the change (must fail) and without (must pass). When done with a change, revert the worktree to pristine (git checkout -- . ; remove the copied demo test from the package dir) before starting the next one, and leave the worktree pristine at the end except for the seeded/ directory.

Environment: no network. Prefix every go command with: GOFLAGS=-mod=mod GOPROXY=off GOSUMDB=off GOTOOLCHAIN=local  (go 1.23.5). If `go` with -mod=mod modifies go.sum or go.mod, revert that (git checkout -- pkg/go/go.mod pkg/go/go.sum). Do not install anything. Keep all scratch files inside {wt}.

Finish by replying with a short summary of the three changes (files, what they break, what they need to manifest) and confirmation of the verification you ran.""")
