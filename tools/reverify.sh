#!/bin/bash
# tools/reverify.sh Cxx rNmK "what was strengthened" : re-runs the isolated verification of one seeded change and
# records the new result (keeping the first result) in its meta.json
cd "$(dirname "$0")/.."
tools/seed_verify.sh "$1" "$2" "${TIER:-quick}" > /tmp/reverify-$1-$2.out 2>&1
python3 tools/annotate.py "seeded/$1-$2" /tmp/reverify-$1-$2.out "${3:-}"
grep -E "^(VIOLATION|OK|INCONCL)" /tmp/reverify-$1-$2.out | cut -c1-260; rm -f /tmp/reverify-$1-$2.out
