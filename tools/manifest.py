#!/usr/bin/env python3
"""Regenerates MANIFEST.json from the table below (kept in one place so it stays valid)."""
import json, os
ROOT = os.path.dirname(os.path.dirname(os.path.abspath(__file__)))
props = [json.loads(l) for l in open(os.path.join(ROOT, "properties.jsonl"))]
claimed = json.load(open(os.path.join(ROOT, "tools", "claims.json")))
hooks = json.load(open(os.path.join(ROOT, "tools", "hooks.json")))
checks, na = [], []
for p in props:
    pid = p["id"]
    c = claimed.get(pid)
    if not c or not c.get("claimed"):
        na.append({"property_id": pid, "reason": (c or {}).get("reason", "check not implemented yet in this round; see DESIGN.md for the planned generated-input check")})
        continue
    checks.append({
        "property_id": pid,
        "quick_cmd": f"./run.sh {pid} quick",
        "thorough_cmd": f"./run.sh {pid} thorough",
        "evidence_file": f"/verif/evidence/{pid}.json",
        "replay_cmd_template": f"./run.sh replay {pid} {{path}}",
        "engine": "rapid+go",
        "level_claimed": {"category": "exploration", "text": c["text"], "design_ref": c.get("design_ref", f"DESIGN.md §5 {pid}")},
        "level_note": c["note"],
        "technique": c["technique"],
    })
m = {
    "version": 1,
    "setup_cmd": "./run.sh setup",
    "hooks": hooks,
    "engines": [{"name": "rapid+go", "path": "/verif/checks", "serves_properties": [c["property_id"] for c in checks],
                 "kind_free_text": "property-based testing with pgregory.net/rapid v1.3.0 (generators, shrinking, state machines), bounded exhaustive enumeration, native go fuzzing in the thorough tier; driver cmd/vrun"}],
    "checks": checks,
    "not_applicable": na,
    "notes": "All checks rebuild against /repo's working tree through a go.mod replace directive. Exit 0 held / 1 VIOLATION / 2 inconclusive (build failure, timeout, harness self-check). known_findings.json lists recorded and fixed defects.",
}
json.dump(m, open(os.path.join(ROOT, "MANIFEST.json"), "w"), indent=1)
print("claimed:", [c["property_id"] for c in checks], "n/a:", [x["property_id"] for x in na])
