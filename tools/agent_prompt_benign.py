#!/usr/bin/env python3
# Prompt for a sub-agent that produces PROPERTY-PRESERVING changes (false-alarm probes).
import json, sys
pid = sys.argv[1]
for l in open('/verif/properties.jsonl'):
    p = json.loads(l)
    if p['id'] == pid:
        break
wt = f"/tmp/wt/{pid}"
print(f"""You are helping to evaluate a verification effort for the open-source repository openfga/language (an authorization-model DSL toolkit: ANTLR grammar, DSL<->JSON transformers, modular-model merging, weighted type graph). You work ONLY inside your own scratch git worktree of that repository at {wt} (a full checkout; the Go module is in {wt}/pkg/go). Never read or write anything under /repo or /verif.

Here is a semantic property the library satisfies (apart from documented, known deviations) and must keep satisfying:

TITLE: {p['title']}
STATEMENT: {p['statement']}
QUANTIFIED OVER: {p['quantifier']['text']}
CODE ANCHORS (files): {', '.join(p['anchors']['files'])}

Somebody else has written automated checkers for this property. We want to know whether those checkers raise FALSE ALARMS on legitimate maintenance work. YOUR TASK: produce THREE independent, realistic source changes to the library code in the worktree (not to its tests), of the kind a maintainer would really merge, each of which
  (a) still compiles,
  (b) still passes the complete existing Go test suite (cd {wt}/pkg/go && go test -vet=off -count=1 ./...), unedited,
  (c) keeps the property above TRUE for every input - read the statement carefully, word by word: everything it promises must still hold, and
  (d) nevertheless changes something in or near the anchored code that an over-fitted or careless checker might depend on although the property does not promise it. Examples of such things: the wording of error messages (but not which error value/kind is returned where the statement names it); internal labels, ids or naming schemes the statement does not fix; the order of items where the statement leaves the order open; the internal algorithm or data structures (same results); allocation/performance behaviour within what the statement allows; extra diagnostics, extra unexported fields, extra wrapped error context; control flow refactored into helpers or moved between files; unexported identifiers renamed; defensive copies added; a cache added that is correctly keyed and concurrency-safe; stricter or more lenient handling of inputs OUTSIDE the domain the statement quantifies over.
The three changes must be different in kind and each must apply on its own to the pristine worktree. Prefer changes that touch the observable surface close to what the statement talks about (so that a sloppy checker would notice), not changes in far-away code.

For EACH change i in {{1,2,3}} deliver, in the directory {wt}/benign/b<i>/ :
  - patch.diff : output of `git diff` for the library change only (relative to the pristine HEAD, applicable with `git apply` from the repository root),
  - meta.json : {{"property": "{pid}", "summary": "...what was changed...", "why_property_still_holds": "...argument, clause by clause where relevant...", "what_a_sloppy_checker_might_trip_on": "...", "verified": "what you ran and observed"}}.

Verify everything yourself: run the full existing suite with each change applied (it must pass). When done with a change, revert the worktree to pristine (git checkout -- .) before starting the next one, and leave the worktree pristine at the end except for the benign/ directory.

Environment: no network. Prefix every go command with: GOFLAGS=-mod=mod GOPROXY=off GOSUMDB=off GOTOOLCHAIN=local  (go 1.23.5). If `go` with -mod=mod modifies go.sum or go.mod, revert that (git checkout -- pkg/go/go.mod pkg/go/go.sum). Do not install anything. Keep all scratch files inside {wt}. Files in the repository guarded by the build tag `verif` (verif_hooks.go) are test instrumentation: keep them compiling (go build -tags verif ./...) and keep their behaviour, but do not count them as library code.

Finish by replying with a short summary of the three changes and confirmation of the verification you ran.""")
