// mutsurvey: enumerates first-order mutants of the library's non-test, non-generated Go sources
// (sensitivity measurement for the checks; it decides nothing about the library).
//
//	go run ./tools/mutsurvey list <repo>            -> one JSON object per line: id, file, start, end, repl, desc
//	go run ./tools/mutsurvey apply <repo> <id>      -> rewrites the file in <repo> (use in a scratch worktree)
//
// Operators: relational/boundary swaps, == / != swap, && / || swap, + / - swap, condition forced true/false
// (if and for), statement deletion (expression statements, assignments, inc/dec, append-assignments),
// break<->continue, integer literal +1, "return ..., err" -> unchanged (not mutated), slice bound +1,
// string literal emptied is NOT done (message wording is promised by no property).
package main

import (
	"encoding/json"
	"fmt"
	"go/ast"
	"go/parser"
	"go/token"
	"os"
	"path/filepath"
	"sort"
	"strings"
)

type mutant struct {
	ID    string `json:"id"`
	File  string `json:"file"`
	Line  int    `json:"line"`
	Start int    `json:"start"`
	End   int    `json:"end"`
	Repl  string `json:"repl"`
	Desc  string `json:"desc"`
	Func  string `json:"func"`
}

var dirs = []string{"pkg/go/transformer", "pkg/go/graph", "pkg/go/utils", "pkg/go/validation", "pkg/go/errors"}

func enumerate(repo string) []mutant {
	var out []mutant
	for _, d := range dirs {
		files, _ := filepath.Glob(filepath.Join(repo, d, "*.go"))
		sort.Strings(files)
		for _, f := range files {
			if strings.HasSuffix(f, "_test.go") || strings.Contains(f, "verif_hooks") {
				continue
			}
			out = append(out, mutateFile(repo, f)...)
		}
	}
	for i := range out {
		out[i].ID = fmt.Sprintf("M%04d", i)
	}
	return out
}

func mutateFile(repo, path string) []mutant {
	src, err := os.ReadFile(path)
	if err != nil {
		panic(err)
	}
	fset := token.NewFileSet()
	f, err := parser.ParseFile(fset, path, src, 0)
	if err != nil {
		panic(err)
	}
	rel, _ := filepath.Rel(repo, path)
	var out []mutant
	off := func(p token.Pos) int { return fset.Position(p).Offset }
	text := func(n ast.Node) string { return string(src[off(n.Pos()):off(n.End())]) }
	curFunc := ""
	add := func(n ast.Node, start, end int, repl, desc string) {
		out = append(out, mutant{File: rel, Line: fset.Position(n.Pos()).Line, Start: start, End: end, Repl: repl, Desc: desc, Func: curFunc})
	}
	swaps := map[token.Token][]string{
		token.LSS: {"<=", ">="}, token.LEQ: {"<", ">"}, token.GTR: {">=", "<="}, token.GEQ: {">", "<"},
		token.EQL: {"!="}, token.NEQ: {"=="}, token.LAND: {"||"}, token.LOR: {"&&"},
		token.ADD: {"-"}, token.SUB: {"+"},
	}
	for _, decl := range f.Decls {
		fd, ok := decl.(*ast.FuncDecl)
		if !ok || fd.Body == nil {
			continue
		}
		curFunc = fd.Name.Name
		if strings.HasPrefix(curFunc, "Must") || curFunc == "Error" || curFunc == "String" {
			continue // wrappers and message texts: promised by no property
		}
		ast.Inspect(fd.Body, func(n ast.Node) bool {
			switch x := n.(type) {
			case *ast.BinaryExpr:
				if reps, ok := swaps[x.Op]; ok {
					if x.Op == token.ADD {
						// skip string concatenation (message building)
						if bl, ok := x.X.(*ast.BasicLit); ok && bl.Kind == token.STRING {
							return true
						}
						if bl, ok := x.Y.(*ast.BasicLit); ok && bl.Kind == token.STRING {
							return true
						}
					}
					for _, r := range reps {
						s := off(x.OpPos)
						add(x, s, s+len(x.Op.String()), r, fmt.Sprintf("%s -> %s in `%s`", x.Op, r, clip(text(x))))
					}
				}
			case *ast.IfStmt:
				c := x.Cond
				add(x, off(c.Pos()), off(c.End()), "true", "if-condition forced true: `"+clip(text(c))+"`")
				add(x, off(c.Pos()), off(c.End()), "false", "if-condition forced false: `"+clip(text(c))+"`")
			case *ast.ForStmt:
				if x.Cond != nil {
					add(x, off(x.Cond.Pos()), off(x.Cond.End()), "false", "loop never entered: `"+clip(text(x.Cond))+"`")
				}
			case *ast.RangeStmt:
				// range over nothing: replace the ranged expression's loop body by an immediate break
				b := x.Body
				add(x, off(b.Lbrace)+1, off(b.Lbrace)+1, " break; ", "range loop left at once: `"+clip(text(x.X))+"`")
			case *ast.BranchStmt:
				if x.Label == nil {
					if x.Tok == token.BREAK {
						add(x, off(x.Pos()), off(x.End()), "continue", "break -> continue")
					} else if x.Tok == token.CONTINUE {
						add(x, off(x.Pos()), off(x.End()), "break", "continue -> break")
					}
				}
			case *ast.ExprStmt:
				if _, ok := x.X.(*ast.CallExpr); ok {
					add(x, off(x.Pos()), off(x.End()), "", "call removed: `"+clip(text(x))+"`")
				}
			case *ast.IncDecStmt:
				add(x, off(x.Pos()), off(x.End()), "", "removed: `"+clip(text(x))+"`")
			case *ast.AssignStmt:
				if x.Tok == token.ASSIGN || x.Tok == token.ADD_ASSIGN {
					add(x, off(x.Pos()), off(x.End()), "", "assignment removed: `"+clip(text(x))+"`")
				}
				// x = append(x, y...) -> x = x  (covered by removal)
			case *ast.BasicLit:
				if x.Kind == token.INT {
					add(x, off(x.Pos()), off(x.End()), "("+x.Value+"+1)", "integer literal "+x.Value+" -> +1")
				}
			case *ast.UnaryExpr:
				if x.Op == token.NOT {
					add(x, off(x.OpPos), off(x.OpPos)+1, "", "negation removed: `"+clip(text(x))+"`")
				}
			case *ast.ReturnStmt:
				// `return true` <-> `return false` for single boolean results
				if len(x.Results) == 1 {
					if id, ok := x.Results[0].(*ast.Ident); ok {
						if id.Name == "true" {
							add(x, off(id.Pos()), off(id.End()), "false", "return true -> false")
						} else if id.Name == "false" {
							add(x, off(id.Pos()), off(id.End()), "true", "return false -> true")
						}
					}
				}
			case *ast.SliceExpr:
				if x.Low != nil {
					add(x, off(x.Low.Pos()), off(x.Low.End()), "("+text(x.Low)+")+1", "slice low bound +1: `"+clip(text(x))+"`")
				}
			}
			return true
		})
	}
	return out
}

func clip(s string) string {
	s = strings.Join(strings.Fields(s), " ")
	if len(s) > 90 {
		return s[:90] + "…"
	}
	return s
}

func main() {
	if len(os.Args) < 3 {
		fmt.Println("usage: mutsurvey list <repo> | apply <repo> <id>")
		os.Exit(2)
	}
	repo := os.Args[2]
	ms := enumerate(repo)
	switch os.Args[1] {
	case "list":
		enc := json.NewEncoder(os.Stdout)
		for _, m := range ms {
			enc.Encode(m)
		}
	case "apply":
		for _, m := range ms {
			if m.ID == os.Args[3] {
				p := filepath.Join(repo, m.File)
				src, _ := os.ReadFile(p)
				dst := string(src[:m.Start]) + m.Repl + string(src[m.End:])
				if err := os.WriteFile(p, []byte(dst), 0o644); err != nil {
					panic(err)
				}
				fmt.Printf("%s %s:%d %s (%s)\n", m.ID, m.File, m.Line, m.Desc, m.Func)
				return
			}
		}
		fmt.Println("no such mutant")
		os.Exit(3)
	}
}
