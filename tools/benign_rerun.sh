#!/bin/bash
# tools/benign_rerun.sh [out file]: re-runs every stored property-preserving change (benign/Cxx-bN) against the current checks
cd "$(dirname "$0")/.."
out="${1:-benign/RESULTS-rerun.txt}"; : > "$out"
for d in benign/C??-b?; do
  id=$(basename "$d"); p=${id%%-*}; b=${id##*-}
  tools/benign_verify.sh "$p" "$b" 2>&1 | grep "^$id:" >> "$out"
done
