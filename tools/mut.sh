#!/bin/bash
# usage: tools/mut.sh <Cxx> <repo-relative-file> <old> <new> [tier]
# Applies one textual replacement to /repo (first occurrence), runs the repo's own tests for that
# package and the check, then restores the file. Sensitivity testing only; nothing is committed.
prop="$1"; file="$2"; old="$3"; new="$4"; tier="${5:-quick}"
python3 - "$file" "$old" "$new" <<'PY' || exit 3
import sys
f,old,new=sys.argv[1:4]
p='/repo/'+f
s=open(p).read()
assert s.count(old)>=1, "pattern not found"
open(p,'w').write(s.replace(old,new,1))
PY
trap 'git -C /repo checkout -- . ; git -C /repo status --short' EXIT
echo "=== repo tests with mutant:"
(cd /repo/pkg/go && GOPROXY=off GOSUMDB=off GOTOOLCHAIN=local go test -vet=off -count=1 ./... 2>&1 | grep -v "no test files" | tail -5)
echo "=== check $prop $tier:"
cd /verif && ./run.sh "$prop" "$tier" 2>&1 | grep -E "^(VIOLATION|OK|INCONCLUSIVE|KNOWN)" | head -5
