#!/bin/bash
# tools/import_round.sh Cxx rN : copies the three seeded changes of a sub-agent's scratch worktree (/tmp/wt/Cxx/seeded/m1..3)
# into seeded/Cxx-rNm1..3, verifies each in isolation (tools/seed_verify.sh) and removes the worktree.
set -u
cd "$(dirname "$0")/.."
p=$1; r=$2
for i in 1 2 3; do
  src=/tmp/wt/$p/seeded/m$i
  [ -d "$src" ] || { echo "$p m$i: missing"; continue; }
  dst=seeded/$p-${r}m$i
  mkdir -p "$dst"; cp "$src"/patch.diff "$src"/meta.json "$dst"/ 2>/dev/null
  cp "$src"/demo_test.go "$dst"/demo_test.go 2>/dev/null || cp "$src"/*_test.go "$dst"/demo_test.go
  tools/seed_verify.sh "$p" "${r}m$i" "${TIER:-quick}" > /tmp/import-$p-$i.out 2>&1
  python3 tools/annotate.py "$dst" /tmp/import-$p-$i.out; grep -E "^(VIOLATION|OK|INCONCL)" /tmp/import-$p-$i.out | cut -c1-260; rm -f /tmp/import-$p-$i.out
done
[ -d /tmp/wt/$p ] && git -C /repo worktree remove --force /tmp/wt/$p
