#!/usr/bin/env python3
# Round 7 brief: defects that hide in a rare region of the DATA (width/overflow boundary, hash bucket or equal derived
# keys, character class / encoding shortcut).
import json, sys
pid = sys.argv[1]
for l in open('/verif/properties.jsonl'):
    p = json.loads(l)
    if p['id'] == pid:
        break
wt = f"/tmp/wt/{pid}"
print(f"""You are helping to evaluate a verification effort for the open-source repository openfga/language (an authorization-model DSL toolkit: ANTLR grammar, DSL<->JSON transformers, modular-model merging, weighted type graph). You work ONLY inside your own scratch git worktree of that repository at {wt} (a full checkout; the Go module is in {wt}/pkg/go). Never read or write anything under /repo or /verif.

Here is a semantic property the library is supposed to satisfy:

TITLE: {p['title']}
STATEMENT: {p['statement']}
QUANTIFIED OVER: {p['quantifier']['text']}
CODE ANCHORS (files): {', '.join(p['anchors']['files'])}
PUBLIC FUNCTIONS AT WHICH IT IS OBSERVED: {', '.join(p['anchors'].get('observe_at', []))}

YOUR TASK: produce THREE independent, realistic source changes ("seeded defects") to the library code in the worktree (not to its tests), each of which
  (a) still compiles (also with `-tags verif`: files guarded by that build tag are test instrumentation, keep them compiling and do not count them as library code),
  (b) still passes the complete existing Go test suite (cd {wt}/pkg/go && go test -vet=off -count=1 ./...), unedited,
  (c) breaks the property above for some inputs, and
  (d) is SUBTLE: ordinary use, and a reviewer feeding a few thousand small random inputs through the headline of the property, would not see it.
Six earlier rounds of reviewers (over 320 changes) have covered: obvious single-site edits; aliasing, stale caches and error paths; legal-but-extreme inputs and unusual characters; clause-by-clause edits of the statement; call histories (pooled objects, lazily initialised state, memos keyed by part of the input), pairs of cooperating edits in two files, and optimisations that switch algorithm at 8, 16, 32, 64 or 128 elements. Do not repeat those patterns. In THIS round each change must hide in a RARE REGION OF THE DATA, i.e. it is wrong only for inputs whose VALUES (not whose sizes up to about 130, and not the call history) have a particular property that a realistic implementation technique makes special. The three changes must each be of a PRESCRIBED KIND, one of each:

  CHANGE 1 - WIDTH, OVERFLOW OR BUFFER BOUNDARY: a counter, index or length is kept in a narrower type or a fixed buffer (uint8 index -> 256 entries, int16, a 4096-byte or 64 KiB buffer, a bitset of fixed width, a line-length or column limit, a depth limit of a hand-written stack) as a plausible optimisation, and the defect shows only at or beyond that boundary (256, 1024, 4096, 65536 ...), for legal inputs of the property's domain. Keep the test input as small as the boundary allows.

  CHANGE 2 - HASHING, SHARDING, EQUAL KEYS OR ORDER: the code distributes names over buckets/shards by a hash of the name (or by first letter, or by length), or compares by a derived key (case-folded, trimmed, normalised, a prefix, a numeric part), or sorts with an unstable sort / a comparator that is not a strict weak order for some pairs; the defect shows only for names that collide in that derived key or land in one particular bucket (say 1 name in 50..500), never for "ordinary" distinct names. It must not depend on Go's randomised map iteration alone.

  CHANGE 3 - CHARACTER CLASS OR ENCODING: the code takes a byte-wise / ASCII-only / rune-wise shortcut (len() versus rune count, strings.ToLower/ToUpper/EqualFold/TrimSpace/Fields/unicode.IsSpace versus the exact class the grammar or rule uses, bytes versus runes in a column, a lookup table of 128 entries, '\r' or form feed or tab or NBSP treated like a blank or not, '-', '.', '/', '_' inside identifiers, a keyword used as a name, upper case, digits first) that is right for plain lower-case ASCII words and wrong for some legal input of the property's domain containing such characters in a particular position.

For each change pick a DIFFERENT clause of the statement or a different public function through which it is observed, and state it in meta.json ("clause"). Each change must apply on its own to the pristine worktree. The change must be the kind of thing a maintainer could plausibly write (a refactor, an optimisation, a clean-up) and that code review could miss - not an arbitrary trap.

For EACH change i in {{1,2,3}} deliver, in the directory {wt}/seeded/m<i>/ :
  - patch.diff : output of `git diff` for the library change only (relative to the pristine HEAD, applicable with `git apply` from the repository root),
  - demo_test.go : a self-contained Go test file (state at its top, in a comment, which package directory under pkg/go it must be copied into, e.g. pkg/go/transformer) that FAILS with the change applied and PASSES on the pristine tree; it demonstrates the property violation on a concrete input/sequence. It must be deterministic (if the defect is schedule dependent, loop until it shows and bound the loop so that it fails reliably with the change),
  - meta.json : {{"property": "{pid}", "kind": "width|hashing|charclass", "clause": "...", "summary": "...what was changed...", "needs_to_manifest": "...what specific input/sequence/order/size is required...", "demo_package": "pkg/go/<dir>", "demo_run": "go test -run <TestName> ./<dir>/", "verified": "what you ran and observed"}}.

Verify everything yourself: run the full existing suite with each change applied (it must pass), run your demo test with the change (must fail) and without (must pass). When done with a change, revert the worktree to pristine (git checkout -- . ; remove the copied demo test from the package dir) before starting the next one, and leave the worktree pristine at the end except for the seeded/ directory.

Environment: no network. Prefix every go command with: GOFLAGS=-mod=mod GOPROXY=off GOSUMDB=off GOTOOLCHAIN=local  (go 1.23.5). If `go` with -mod=mod modifies go.sum or go.mod, revert that (git checkout -- pkg/go/go.mod pkg/go/go.sum). Do not install anything. Keep all scratch files inside {wt}. The machine is shared: do not run more than one `go test` at a time.

Finish by replying with a short summary of the three changes (files, what they break, what they need to manifest) and confirmation of the verification you ran.""")
