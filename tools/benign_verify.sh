#!/bin/bash
# usage: tools/benign_verify.sh <Cxx> <bN> [tier]
# Property-PRESERVING change (false-alarm probe) from a sub-agent: copies /tmp/wt/<Cxx>/benign/<bN> to
# /verif/benign/<Cxx>-<bN>, applies the patch in a scratch worktree of /repo HEAD, confirms that the unedited suite passes,
# then runs the check of the property AND every check whose anchored files the patch touches, through a private copy of
# /verif. Any VIOLATION printed here is a candidate false alarm and has to be looked at by hand.
set -u
prop="$1"; bn="$2"; tier="${3:-quick}"
export GOPROXY=off GOSUMDB=off GOTOOLCHAIN=local
dst=/verif/benign/$prop-$bn
if [ ! -d "$dst" ]; then mkdir -p "$dst"; cp /tmp/wt/$prop/benign/$bn/{patch.diff,meta.json} "$dst"/ || exit 3; fi
wt=/tmp/bv-$prop-$bn-$$
git -C /repo worktree add -q --detach "$wt" HEAD || exit 3
vc=/tmp/bvv-$prop-$bn-$$
cleanup() { git -C /repo worktree remove --force "$wt" 2>/dev/null; rm -rf "$vc"; }
trap cleanup EXIT
if ! git -C "$wt" apply "$dst/patch.diff" 2>/dev/null; then echo "$prop-$bn: PATCH DOES NOT APPLY"; exit 4; fi
suite=$(cd "$wt/pkg/go" && go test -vet=off -count=1 ./... 2>&1 | grep -v "no test files" | tr '\n' ' ')
case "$suite" in *FAIL*) echo "$prop-$bn: SUITE FAILS WITH PATCH: $suite"; exit 5;; esac
files=$(git -C "$wt" diff --name-only HEAD)
checks="$prop"
for f in $files; do
  case "$f" in
    pkg/go/transformer/dsltojson.go) checks="$checks C01 C03 C08 C09 C13 C14 C16 C07";;
    pkg/go/transformer/jsontodsl.go) checks="$checks C01 C02 C13 C14";;
    pkg/go/transformer/module-to-model.go) checks="$checks C07 C12 C16 C13";;
    pkg/go/transformer/mod-to-json.go) checks="$checks C15 C08";;
    pkg/go/graph/weighted_*) checks="$checks C04 C05 C06 C10 C11";;
    pkg/go/graph/graph*) checks="$checks C17 C05 C10";;
    pkg/go/validation/*) checks="$checks C18";;
    pkg/go/utils/*) checks="$checks C16 C07 C12";;
    pkg/go/errors/*) checks="$checks C02 C01";;
    pkg/go/gen/*|*.g4|pkg/js/gen/*|pkg/java/*) checks="$checks C19 C03 C09";;
  esac
done
checks=$(echo $checks | tr ' ' '\n' | sort -u | tr '\n' ' ')
[ -n "${ONLY:-}" ] && checks="$ONLY"
rsync -a --exclude bin --exclude .git --exclude evidence --exclude replays --exclude seeded --exclude benign /verif/ "$vc"/
sed -i "s#=> /repo/pkg/go#=> $wt/pkg/go#" "$vc/go.mod"
echo "$prop-$bn: files: $(echo $files | tr '\n' ' ') checks: $checks"
for c in $checks; do
  out=$(cd "$vc" && VERIF_REPO="$wt" ./run.sh "$c" "$tier" 2>&1 | grep -E "^(VIOLATION|OK|INCONCLUSIVE property|VERIF-HARNESS)" | sed "s#$vc#/verif#g" | head -2 | cut -c1-420 | tr '\n' ' ')
  echo "$prop-$bn: $c: $out"
  case "$out" in VIOLATION*) mkdir -p "$dst/replays"; cp "$vc"/replays/$c-* "$dst/replays/" 2>/dev/null;; esac
done
