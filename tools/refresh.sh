#!/bin/bash
# Re-runs every claimed check (tier $1, default quick) on the current tree so that the evidence
# files in evidence/ come from the unchanged tree. Usage: tools/refresh.sh [quick|thorough] [ids...]
cd /verif
tier="${1:-quick}"; shift
ids="$@"
if [ -z "$ids" ]; then ids=$(python3 -c "import json;print(' '.join(c['property_id'] for c in json.load(open('MANIFEST.json'))['checks']))"); fi
if [ -n "$(git -C /repo status --porcelain)" ]; then echo "REPO NOT CLEAN"; git -C /repo status --short; exit 3; fi
for p in $ids; do
  start=$(date +%s)
  out=$(VERIF_SEED=${VERIF_SEED:-0} ./run.sh $p $tier 2>&1 | grep -E "^(VIOLATION|OK|INCONCL|KNOWN|VERIF-HARNESS)" | sort -u | cut -c1-160)
  echo "[$p $(( $(date +%s) - start ))s] $out"
done
python3 - <<'PY'
import json,glob
try:
    import jsonschema
except ImportError:
    import sys; sys.path.insert(0,'/opt/veriftools/pyvenv/lib/python3.11/site-packages'); import jsonschema
sch=json.load(open('/root/.vp/EVIDENCE.schema.json'))
for f in sorted(glob.glob('/verif/evidence/C*.json')):
    try:
        jsonschema.validate(json.load(open(f)),sch)
    except Exception as e:
        print("INVALID",f,str(e)[:200])
jsonschema.validate(json.load(open('/verif/MANIFEST.json')), json.load(open('/root/.vp/MANIFEST.schema.json')))
print("schemas ok")
PY
