#!/bin/bash
# usage: tools/seed_verify.sh <Cxx> <mN> [tier]
# 1. copies /tmp/wt/<Cxx>/seeded/<mN> to /verif/seeded/<Cxx>-<mN> (if not there yet)
# 2. confirms in a scratch worktree of /repo HEAD: demo passes pristine; with the patch the full
#    suite passes and the demo fails
# 3. applies the patch to /repo, runs the check, undoes the patch
set -u
prop="$1"; mn="$2"; tier="${3:-quick}"
export GOPROXY=off GOSUMDB=off GOTOOLCHAIN=local
dst=/verif/seeded/$prop-$mn
if [ ! -d "$dst" ]; then mkdir -p "$dst"; cp /tmp/wt/$prop/seeded/$mn/{patch.diff,demo_test.go,meta.json} "$dst"/ || exit 3; fi
pkg=$(python3 -c "import json;print(json.load(open('$dst/meta.json'))['demo_package'])")
wt=/tmp/sv-$prop-$mn-$$
git -C /repo worktree add -q --detach "$wt" HEAD || exit 3
cleanup() { git -C /repo worktree remove --force "$wt" 2>/dev/null; rm -rf "/tmp/svv-$prop-$mn-$$"; }
trap cleanup EXIT
cp "$dst/demo_test.go" "$wt/$pkg/zz_seed_demo_test.go"
res_pristine=$(cd "$wt/pkg/go" && go test -vet=off -count=1 ./${pkg#pkg/go/}/ 2>&1 | tail -3)
echo "--- pristine (+demo): $res_pristine" | tr '\n' ' '; echo
if ! git -C "$wt" apply --check "$dst/patch.diff" 2>/dev/null; then
  if git -C "$wt" apply -3 "$dst/patch.diff" 2>/dev/null; then echo "--- patch applied with 3-way merge"; else echo "PATCH DOES NOT APPLY to HEAD"; exit 4; fi
else git -C "$wt" apply "$dst/patch.diff"; fi
rm "$wt/$pkg/zz_seed_demo_test.go"
res_suite=$(cd "$wt/pkg/go" && go test -vet=off -count=1 ./... 2>&1 | grep -v "no test files" | tr '\n' ' ')
echo "--- mutant, existing suite: $res_suite"
cp "$dst/demo_test.go" "$wt/$pkg/zz_seed_demo_test.go"
res_demo=$(cd "$wt/pkg/go" && go test -vet=off -count=1 ./${pkg#pkg/go/}/ 2>&1 | grep -E "^(--- FAIL|FAIL|ok)" | head -4 | tr '\n' ' ')
echo "--- mutant, demo: $res_demo"
# regenerate the patch against current HEAD so it applies cleanly
rm "$wt/$pkg/zz_seed_demo_test.go"
git -C "$wt" add -A -N; git -C "$wt" diff HEAD > "$dst/patch.diff"
# run the check against the patched scratch worktree through a private copy of /verif, so that /repo itself
# (and anything running against it) is never touched
vc=/tmp/svv-$prop-$mn-$$
rsync -a --exclude bin --exclude .git --exclude evidence --exclude replays --exclude seeded /verif/ "$vc"/
sed -i "s#=> /repo/pkg/go#=> $wt/pkg/go#" "$vc/go.mod"
echo "--- check ${CHECK:-$prop} $tier against the mutant:"
pat='^(VIOLATION|OK|INCONCL|KNOWN)'
[ -n "${SV_LINES:-}" ] && pat='^(VIOLATION|OK|INCONCL|KNOWN|panic|fatal|\s+/|.*\[rapid\] panic|goroutine )'
(cd "$vc" && VERIF_REPO="$wt" ./run.sh "${CHECK:-$prop}" "$tier" 2>&1 | grep -E "$pat" | sed "s#$vc#/verif#g" | head -${SV_LINES:-4})
rm -rf "$vc"
