#!/usr/bin/env python3
# Round 6 brief: what a defect needs in order to manifest is prescribed per change
# (history / two cooperating sites in different files / size or shape threshold).
import json, sys
pid = sys.argv[1]
for l in open('/verif/properties.jsonl'):
    p = json.loads(l)
    if p['id'] == pid:
        break
wt = f"/tmp/wt/{pid}"
print(f"""You are helping to evaluate a verification effort for the open-source repository openfga/language (an authorization-model DSL toolkit: ANTLR grammar, DSL<->JSON transformers, modular-model merging, weighted type graph). You work ONLY inside your own scratch git worktree of that repository at {wt} (a full checkout; the Go module is in {wt}/pkg/go). Never read or write anything under /repo or /verif.

Here is a semantic property the library is supposed to satisfy:

TITLE: {p['title']}
STATEMENT: {p['statement']}
QUANTIFIED OVER: {p['quantifier']['text']}
CODE ANCHORS (files): {', '.join(p['anchors']['files'])}
PUBLIC FUNCTIONS AT WHICH IT IS OBSERVED: {', '.join(p['anchors'].get('observe_at', []))}

YOUR TASK: produce THREE independent, realistic source changes ("seeded defects") to the library code in the worktree (not to its tests), each of which
  (a) still compiles (also with `-tags verif`: files guarded by that build tag are test instrumentation, keep them compiling and do not count them as library code),
  (b) still passes the complete existing Go test suite (cd {wt}/pkg/go && go test -vet=off -count=1 ./...), unedited,
  (c) breaks the property above for some inputs, and
  (d) is SUBTLE: ordinary use, and a reviewer feeding a few thousand small random inputs through the headline of the property, would not see it.
Five earlier rounds of reviewers (over 250 changes) have covered: obvious single-site edits; aliasing, stale caches and error paths at the usual scale of inputs; legal-but-extreme inputs and unusual characters; and clause-by-clause edits of the statement. Do not repeat those patterns. In THIS round the three changes must each be of a PRESCRIBED KIND, one of each:

  CHANGE 1 - HISTORY / SCHEDULE: the defect is invisible in a single call on a fresh process. It needs a particular SEQUENCE of calls (e.g. a failing call followed by a succeeding one; the same object used a third time; a call with option A followed by option B; a reused pooled/recycled object such as a sync.Pool'ed listener, buffer or builder; an initialisation done lazily by whichever call comes first), or a particular INTERLEAVING of concurrent calls, or a particular map-iteration/traversal order that occurs only in a minority of runs. Realistic origins: object pooling, lazily initialised package-level tables, reuse of a slice's backing array across calls, "reset" methods that forget a field, memoisation keyed by something that is not the whole input.

  CHANGE 2 - TWO COOPERATING SITES IN DIFFERENT FILES: two edits in two different source files (for instance one in an anchored file and one in a helper package such as pkg/go/utils, pkg/go/errors, pkg/go/validation, the generated code in pkg/go/gen, a grammar file, or the other transformer/graph file), each of which is harmless on its own (say why in meta.json: with only edit A, or only edit B, the property still holds) and which break the property only together, and then only for some inputs.

  CHANGE 3 - THRESHOLD OR ALGORITHM SWITCH: the code gains a plausible optimisation that behaves differently beyond a size, count, depth or length threshold, or for a particular shape class (e.g. "use a map index once there are more than N entries", "fast path when all names are ASCII / when there is exactly one X / when the list is already sorted", "pre-sized buffer of N bytes", "binary search instead of a scan", "recursion replaced by an explicit stack", "bitset of 64 entries"), and the defect lives only on the rarely taken side of that switch. Pick thresholds a real optimisation would use (8, 16, 32, 64, 128 ...; a depth of 4 or 8 ...), not magic values tied to one input. The inputs on the defective side must be legal inputs in the property's quantified domain.

For each change pick a DIFFERENT clause of the statement or a different public function through which it is observed, and state it in meta.json ("clause"). Each change must apply on its own to the pristine worktree. The change must be the kind of thing a maintainer could plausibly write (a refactor, an optimisation, a clean-up) and that code review could miss - not an arbitrary trap.

For EACH change i in {{1,2,3}} deliver, in the directory {wt}/seeded/m<i>/ :
  - patch.diff : output of `git diff` for the library change only (relative to the pristine HEAD, applicable with `git apply` from the repository root),
  - demo_test.go : a self-contained Go test file (state at its top, in a comment, which package directory under pkg/go it must be copied into, e.g. pkg/go/transformer) that FAILS with the change applied and PASSES on the pristine tree; it demonstrates the property violation on a concrete input/sequence. It must be deterministic (if the defect is schedule dependent, loop until it shows and bound the loop so that it fails reliably with the change),
  - meta.json : {{"property": "{pid}", "kind": "history|two-sites|threshold", "clause": "...", "summary": "...what was changed...", "needs_to_manifest": "...what specific input/sequence/order/size is required...", "demo_package": "pkg/go/<dir>", "demo_run": "go test -run <TestName> ./<dir>/", "verified": "what you ran and observed"}}.

Verify everything yourself: run the full existing suite with each change applied (it must pass), run your demo test with the change (must fail) and without (must pass). When done with a change, revert the worktree to pristine (git checkout -- . ; remove the copied demo test from the package dir) before starting the next one, and leave the worktree pristine at the end except for the seeded/ directory.

Environment: no network. Prefix every go command with: GOFLAGS=-mod=mod GOPROXY=off GOSUMDB=off GOTOOLCHAIN=local  (go 1.23.5). If `go` with -mod=mod modifies go.sum or go.mod, revert that (git checkout -- pkg/go/go.mod pkg/go/go.sum). Do not install anything. Keep all scratch files inside {wt}. The machine is shared: do not run more than one `go test` at a time.

Finish by replying with a short summary of the three changes (files, what they break, what they need to manifest) and confirmation of the verification you ran.""")
