#!/bin/bash
# usage: tools/soak.sh <tier> <seed...>   — runs every claimed check at the given seeds on /repo as it is (no edits)
cd "$(dirname "$0")/.."
tier="$1"; shift
ids=$(python3 -c "import json;print(' '.join(c['property_id'] for c in json.load(open('MANIFEST.json'))['checks']))")
for seed in "$@"; do
  for p in $ids; do
    s=$(date +%s)
    out=$(VERIF_SEED=$seed ./run.sh $p $tier 2>&1 | grep -E "^(VIOLATION|OK|INCONCLUSIVE|VERIF-HARNESS)" | sort -u | cut -c1-260 | tr '\n' ' ')
    echo "[seed=$seed $p $(( $(date +%s) - s ))s] $out"
  done
done
