#!/usr/bin/env python3
# tools/annotate.py <seeded dir> <file with seed_verify output>: records the confirmation in meta.json
import json, sys, re
d, out = sys.argv[1], open(sys.argv[2]).read()
m = json.load(open(d + '/meta.json'))
suite = re.search(r'--- mutant, existing suite: (.*)', out)
demo = re.search(r'--- mutant, demo: (.*)', out)
pristine = re.search(r'--- pristine \(\+demo\): (.*)', out)
res = re.findall(r'^(VIOLATION .*|OK .*|INCONCLUSIVE .*)$', out, re.M)
suite_ok = bool(suite) and 'FAIL' not in suite.group(1) and 'ok' in suite.group(1)
demo_fails = bool(demo) and 'FAIL' in demo.group(1)
pristine_ok = bool(pristine) and 'FAIL' not in pristine.group(1)
status = 'detected' if res and res[0].startswith('VIOLATION') else ('missed' if res and res[0].startswith('OK') else 'inconclusive')
prev = m.get('confirmed', {})
m['confirmed'] = {
  'by': 'tools/seed_verify.sh in a scratch worktree of /repo HEAD',
  'pristine_demo_passes': pristine_ok, 'suite_passes_with_patch': suite_ok, 'demo_fails_with_patch': demo_fails,
  'status': status, 'check_result': (res[0][:300] if res else ''), 'strengthening': (sys.argv[3] if len(sys.argv) > 3 else ''),
}
if prev.get('status') in ('missed', 'inconclusive') or prev.get('first_result'):
    m['confirmed']['first_result'] = prev.get('first_result') or (prev.get('status', '') + ': ' + prev.get('check_result', ''))
json.dump(m, open(d + '/meta.json', 'w'), indent=1)
print(f"{d}: {status} pristine_ok={pristine_ok} suite_ok={suite_ok} demo_fails={demo_fails}")
