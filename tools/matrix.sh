#!/bin/bash
# Runs every seeded change (seeded/<id>-mN/patch.diff) against the check of its property and prints one
# line per change. Works on a private copy of the repository so that it can run beside other work:
#   vp run --with-repo -- tools/matrix.sh            (snapshot of /verif + $VP_RUN_REPO)
#   tools/matrix.sh /tmp/some-clone-of-repo           (explicit copy)
# With no copy given it uses /repo itself (apply, run, git checkout).
set -u
cd "$(dirname "$0")/.."
ROOT="$PWD"
REPO="${1:-${VP_RUN_REPO:-/repo}}"
TIER="${MATRIX_TIER:-quick}"
export VERIF_REPO="$REPO"
if [ "$REPO" != "/repo" ]; then
  sed -i "s#=> /repo/pkg/go#=> $REPO/pkg/go#" go.mod
fi
echo "matrix: verif=$ROOT repo=$REPO tier=$TIER"
for d in seeded/C??-*; do
  id=$(basename "$d"); prop=${id%%-*}
  [ -n "${MATRIX_ONLY:-}" ] && [[ ! " $MATRIX_ONLY " =~ " $id " ]] && continue
  if ! git -C "$REPO" apply --check "$ROOT/$d/patch.diff" 2>/dev/null; then echo "$id: PATCH-DOES-NOT-APPLY"; continue; fi
  git -C "$REPO" apply "$ROOT/$d/patch.diff"
  out=$(./run.sh "$prop" "$TIER" 2>&1 | grep -E "^(VIOLATION|OK|INCONCLUSIVE property)" | head -1 | cut -c1-220)
  git -C "$REPO" checkout -- . ; git -C "$REPO" clean -fdq pkg 2>/dev/null
  echo "$id: $out"
done
