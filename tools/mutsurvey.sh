#!/bin/bash
# Mutation survey (sensitivity measurement, not a check): applies first-order mutants of the library sources
# (tools/mutsurvey) one at a time in private worktrees, discards those that do not compile or that the repository's own
# test suite kills, and runs the quick tier of the checks of the properties anchored in the mutated file against the rest.
#   usage: tools/mutsurvey.sh <workers> <stride> <offset> [repo]     (mutant i is taken when i % stride == offset)
#   vp run --with-repo -- tools/mutsurvey.sh 4 4 0
# Output: one line per mutant on stdout and in mutsurvey.out:  <id> <verdict> <file:line> <desc>
#   verdicts: stillborn | suite-kills | caught:<Cxx> | SURVIVOR | inconclusive:<...>
set -u
cd "$(dirname "$0")/.."
ROOT="$PWD"
W="${1:-4}"; STRIDE="${2:-4}"; OFFSET="${3:-0}"
REPO="${4:-${VP_RUN_REPO:-/repo}}"
export GOFLAGS=-mod=mod GOPROXY=off GOSUMDB=off GOTOOLCHAIN=local
BASE=/tmp/ms-$$
mkdir -p "$BASE"
trap 'for k in $(seq 0 $((W-1))); do git -C "$REPO" worktree remove --force "$BASE/w$k/repo" 2>/dev/null; done; rm -rf "$BASE"' EXIT
go build -o "$BASE/mutsurvey" ./tools/mutsurvey || exit 2
"$BASE/mutsurvey" list "$REPO" > "$BASE/all.jsonl"
python3 - "$BASE/all.jsonl" "$STRIDE" "$OFFSET" > "$BASE/todo.txt" <<'PY'
import json,sys,hashlib
ms=[json.loads(l) for l in open(sys.argv[1])]
stride,off=int(sys.argv[2]),int(sys.argv[3])
# deterministic shuffle so that a stride samples every file evenly
ms.sort(key=lambda m: hashlib.sha1(m['id'].encode()).hexdigest())
for i,m in enumerate(ms):
    if i%stride==off: print(m['id'])
PY
echo "mutsurvey: $(wc -l < "$BASE/todo.txt") of $(wc -l < "$BASE/all.jsonl") mutants, $W workers, repo=$REPO"
props_for() {
  case "$1" in
    *transformer/dsltojson.go) echo "C03 C09 C01 C16 C07 C08 C13 C14";;
    *transformer/jsontodsl.go) echo "C02 C01 C14 C13 C08";;
    *transformer/module-to-model.go) echo "C07 C12 C16 C13 C08";;
    *transformer/mod-to-json.go) echo "C15 C08";;
    *utils/line-numbers.go) echo "C16 C07 C08";;
    *utils/model_utils.go) echo "C07 C02";;
    *graph/weighted_graph*.go) echo "C04 C05 C10 C11 C06 C08";;
    *graph/graph*.go) echo "C17 C10 C04 C08 C13";;
    *validation/*) echo "C18";;
    *errors/*) echo "C02 C16 C07";;
    *) echo "";;
  esac
}
worker() {
  k=$1
  wr="$BASE/w$k/repo"; wv="$BASE/w$k/verif"
  mkdir -p "$BASE/w$k"
  git -C "$REPO" worktree add -q --detach "$wr" HEAD || exit 3
  rsync -a --exclude bin --exclude .git --exclude evidence --exclude replays --exclude seeded --exclude benign "$ROOT"/ "$wv"/
  sed -i "s#=> [^ ]*/pkg/go#=> $wr/pkg/go#" "$wv/go.mod"
  i=0
  while read -r id; do
    i=$((i+1))
    [ $(( i % W )) -eq "$k" ] || continue
    git -C "$wr" checkout -q -- .
    info=$("$BASE/mutsurvey" apply "$wr" "$id")
    file=$(echo "$info" | awk '{print $2}' | cut -d: -f1)
    if ! (cd "$wr/pkg/go" && go build ./... >/dev/null 2>&1 && go vet -tags verif ./graph/ ./transformer/ >/dev/null 2>&1); then
      # go vet is only used as a cheap "does the tagged build and the tests still compile" probe
      if ! (cd "$wr/pkg/go" && go build ./... >/dev/null 2>&1 && go test -count=1 -run '^$' ./... >/dev/null 2>&1); then
        echo "$info :: stillborn" | tee -a "$ROOT/mutsurvey.out"; continue
      fi
    fi
    if ! (cd "$wr/pkg/go" && timeout 240 go test -vet=off -count=1 ./... >/dev/null 2>&1); then
      echo "$info :: suite-kills" | tee -a "$ROOT/mutsurvey.out"; continue
    fi
    verdict="SURVIVOR"; inc=""
    for p in $(props_for "$file"); do
      out=$(cd "$wv" && VERIF_REPO="$wr" VERIF_SEED=${VERIF_SEED:-0} timeout 900 ./run.sh "$p" quick 2>&1 | grep -E "^(VIOLATION|OK|INCONCLUSIVE)" | head -1)
      case "$out" in
        VIOLATION*) verdict="caught:$p $(echo "$out" | sed 's/.*what=//' | cut -c1-140)"; break;;
        OK*) ;;
        *) inc="$inc $p";;
      esac
      rm -rf "$wv/replays"/* 2>/dev/null
    done
    [ "$verdict" = "SURVIVOR" ] && [ -n "$inc" ] && verdict="SURVIVOR inconclusive:$inc"
    echo "$info :: $verdict" | tee -a "$ROOT/mutsurvey.out"
  done < "$BASE/todo.txt"
}
for k in $(seq 0 $((W-1))); do worker $k & done
wait
echo "mutsurvey: done"
sort "$ROOT/mutsurvey.out" | awk -F' :: ' '{split($2,a," "); c[a[1]]++} END{for(k in c) print k, c[k]}'
